#!/bin/bash
# tools/import_mut.sh <round> <Cxx>  — copy the mutations a sub-agent left in /tmp/mut<round>_<cxx>/mutations into
# seeded/<Cxx>_r<round>m<i>/, remove the agent's worktree and run the registered check against each (background logs in /tmp)
R=$1; P=$2; p=$(echo $P | tr A-Z a-z)
cd "$(dirname "$0")/.."
for m in 1 2 3; do
  src=/tmp/mut${R}_$p/mutations/m$m
  [ -f $src/patch.diff ] || continue
  d=seeded/${P}_r${R}m$m; mkdir -p $d
  cp $src/patch.diff $d/; cp $src/demo.py $d/ 2>/dev/null; cp $src/meta.json $d/ 2>/dev/null
  echo $d
done > /tmp/import_$P.list
git -C /repo worktree remove --force /tmp/mut${R}_$p
flock /tmp/import_mut.lock cat /tmp/import_$P.list | flock /tmp/import_run.lock xargs -P 3 -I{} sh -c '/venv/bin/python tools/run_seeded.py {} > /tmp/rs_$(basename {}).log 2>&1'
