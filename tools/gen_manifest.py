#!/usr/bin/env python3
"""Writes MANIFEST.json from the per-property table below (kept in one place so that the
manifest stays valid and current while properties are added)."""
import json
from pathlib import Path

VERIF = Path(__file__).resolve().parent.parent

BASE_NOTE = ("Trusted: Lean 4.33 kernel + Mathlib v4.33 (axioms audited per theorem each run: subset of propext, "
             "Classical.choice, Quot.sound; no native_decide/bv_decide/sorry); the hand-written executable model's "
             "fidelity to the Python, which is checked on every run by differential execution (driver vs lightworks "
             "imported from /repo's working tree) and bounded by generator coverage reported in the evidence file; "
             "float evaluation of sqrt/trig/exp up to rounding (1e-9 tolerance). Every check runs a fixed directed corpus "
             "and seeded random streams that include histories on long-lived objects, components shared between "
             "consumers, every accepted call form and boundary values (DESIGN 13.7); when /repo's working tree differs "
             "from the pinned sources (harness/pinned_sources.json) the quick tier runs further passes with fresh "
             "random streams (never an alarm by itself). ")

CLAIMED = {
    "C01": dict(
        text="Lean theorems about the executable model of CompiledCircuit.add / get_unitary (compile) for ALL programs "
             "and all parameter values in a commutative star ring: dimension = n + #loss, leading block = ordered "
             "product of documented component matrices (loss as amplitude factor), unitarity of U_full. The model is "
             "tied to the code by a differential correspondence check on generated construction programs; the "
             "property's clauses are also evaluated directly on the implementation, so a disagreement becomes a "
             "concrete failing program.",
        technique="Lean 4 proof over an executable model (fold vs ordered product, padding lemma, unitarity of "
                  "primitives) + model/implementation correspondence check",
        note="Modelled, not verified: numpy matmul/pad/indexing; arccos/cos/sin/exp/sqrt floats.",
        ref="§5 C01"),
    "C02": dict(
        text="Two Lean models: the line-by-line bookkeeping model of Circuit.add/herald/_map_mode (Circ) and the "
             "specification Optic (ports, private ancillas, one matrix; add = Embed(S~).Embed(P)). Theorems (for all "
             "states/ops): the invariant Circ.WF is preserved by every accepted call, mapMode never lands on an ancilla "
             "and is strictly monotone, prims never touch ancillas, existing ancillas survive add with their photon "
             "number, oversize additions are rejected; Optic.compose keeps the parent's heralds as a prefix. The "
             "correspondence check runs generated trees of circuits on lightworks and on both models; the Optic closed "
             "form is the property's oracle, so a routing defect yields a concrete failing program.",
        technique="Lean 4 invariant proofs over an executable bookkeeping model + executable specification (Optic) "
                  "used as oracle in a model/implementation correspondence check",
        note="The refinement theorems sem_add / sem_add_accepts / sem_bs / sem_ps / sem_loss / sem_swaps / sem_herald "
             "(LW/Properties/C02Sem.lean) are PROVED for every constructible circuit: on canonical closed forms the "
             "abstraction of the bookkeeping state commutes with Optic.compose for any nesting, grouping flag, herald "
             "order, in != out heralds and existing ancillas; the same equality is also evaluated exactly on every "
             "generated case. The amplitude clause follows by the Cauchy-Binet / Fock-functor theorem "
             "(LW/Proofs/FockFunctor.lean: ampNum_mul).",
        ref="§5 C02"),
    "C08": dict(
        text="Lean frame theorems over a pool-of-objects model of the construction API (heapStep): a call changes at "
             "most its target object, a raising call changes nothing, lifted by induction to every history. The "
             "correspondence check snapshots EVERY live implementation object after EVERY call of generated histories "
             "(objects reused as arguments) and compares with the model pool and with the pre-call snapshot; read-only "
             "consumers and shared module-level gate objects are probed on the implementation.",
        technique="Lean 4 frame/invariant proof by induction over histories + per-call whole-pool correspondence check",
        note="Python aliasing is not modelled (model values are immutable); observed on the implementation instead.",
        ref="§5 C08"),
    "C09": dict(
        text="Lean theorems that each rewrite (unpack, non-adjacent-BS replacement, swap compression) preserves "
             "compile (U_full) for all specs, plus structural postconditions; correspondence check applies random "
             "rewrite sequences to generated circuits and evaluates the property's clauses on the implementation.",
        technique="Lean 4 semantic-preservation proofs of rewrites over the executable compile model + correspondence check",
        note="copy is the identity on the immutable model; sharing is checked on the implementation by mutation probes.",
        ref="§5 C09"),
    "C17": dict(
        text="Lean theorems for all contents (values in any additive commutative monoid, any states, duplicates, empty "
             "rows): construction decision, pair/nested/array indexing coherence and order, subscript refusals, mapped "
             "result = image with summed weights (exact closed form for SimulationResult under every set iteration "
             "order, exact including order for SamplingResult), per-input total conserved, outputs = images, amplitudes "
             "refused, composition law with idempotence and invert-twice corollaries, sampling round trip. Tied to the "
             "code by differential execution on generated results with dyadic values; the clauses are evaluated on the "
             "implementation as oracle.",
        technique="Lean 4 proofs over an association-list model of the result containers (accumulate, dedup, regroup "
                  "lemmas) + correspondence check with the set-iteration order as a tape",
        note="Modelled, not verified: numpy indexing/zeros, Python set iteration order (passed to the model as a tape).",
        ref="§5 C17"),
    "C18": dict(
        text="Lean theorems for ALL integer occupation lists, label lists, herald dictionaries (any key order), slices, "
             "seeds and dimensions: eq/hash coherence with str injective, + and merge laws, full Python subscript/slice "
             "semantics, API-immutability as a frame theorem over client programs (F14 kept as a pinned counterexample), "
             "herald add/remove round trips both ways, dB inverse laws over the reals from exp/log laws, seed decision "
             "table, permutation-matrix validity. The model is tied to the code by differential execution on generated "
             "queries; every clause is also evaluated on the implementation against plain Python semantics, so a defect "
             "yields a concrete replay.",
        technique="Lean 4 proofs over an executable list model (Python slice semantics, sort/perm, herald insert/remove, "
                  "alias world) + model/implementation correspondence check",
        note="Trusted externals: scipy.stats.unitary_group.rvs and numpy's Generator.permutation (validated per call), "
             "Python hash(str), float 10**x / log10.",
        ref="§5 C18"),
    "C03": dict(
        text="Lean theorems over the executable Fock model: fock_basis enumerates exactly the occupations once each; "
             "the recursive permanent equals Mathlib's Matrix.permanent of the photon-indexed sub-matrix (Laplace "
             "expansion proved); simulate returns exactly perm(U_full[out|in]) with heralds inserted and vacuum on loss "
             "modes together with the factorial normalisation; the validation/rejection decision table; and the Fock "
             "isometry (for unitary U the squared amplitudes from one input to all outputs sum to 1, for every mode and "
             "photon number) via the fibre-sum lemma and stabiliser counting. Correspondence: Simulator vs model on "
             "generated heralded/lossy circuits and malformed inputs; the property's formula is also evaluated "
             "independently on the implementation's own U_full.",
        technique="Lean 4 proof (Laplace expansion of the permanent, fibre-sum/orbit counting for the Fock isometry) "
                  "over an executable model + correspondence check",
        note="Trusted: thewalrus.perm computes the permanent (cross-checked against the exact model every case). Also proved: "
             "the permanent of a rank-one matrix is k! prod a prod b, hence the closed form of the amplitude when all k photons "
             "enter or leave through one mode (bunched_input_amplitude / bunched_output_amplitude); the check evaluates the "
             "clause with it for up to 20 photons, where the occupation factorials leave the 64-bit range (F34 found there).",
        ref="§5 C03, §13.8"),
    "C04": dict(
        text="Lean theorems over the executable distribution model (both backends, sqrt-free SLOS recursion, "
             "pdist_calc): non-negativity, photon bound, one entry per pattern, marginalisation over loss "
             "configurations, total = 1 for lossy circuits at any truncation; normalisation at zero truncation follows "
             "from the Fock isometry theorem. Correspondence: Sampler.probability_distribution (both backends) vs the "
             "exact model with the same 1e-9 truncation; all clauses evaluated on the implementation against an "
             "independent permanent-based reference.",
        technique="Lean 4 proofs over an executable model of both backends + correspondence check with exact rationals",
        note="Also proved: slos = permanent at amplitude level (layer recursion = perm/t!), backends agree on every "
             "non-vacuum pattern for every truncation, exact normalisation (total = 1) for unitary U_full and for "
             "mixtures. Floating point is outside the model (exact rationals). The check also runs the SLOS model on few modes "
             "with up to 30 photons (F35: int64 wrap of the factorial normalisation found there) and moves the global "
             "sampler_probability_threshold between cases.",
        ref="§5 C04, §13.8"),
    "C05": dict(
        text="Executable Lean model of post-selection rules, Analyzer.analyze (outputs, loss-configuration sums, "
             "performance, error rate) and QuickSampler; the property's cross-object relations are evaluated "
             "impl-vs-impl on every generated configuration (oracle) and Analyzer/QuickSampler outputs are compared "
             "with the exact model.",
        technique="Lean 4 theorems over an executable model of Analyzer/QuickSampler + impl-vs-impl relation oracle "
                  "and model correspondence",
        note="Proved: analyzer entry = marginal over loss configurations = sampler lookup; outputs = accepted "
             "candidates; performance / error-rate definitions; the error rate is one minus the accepted-and-expected "
             "fraction with the expected list read as a set and always lies in [0,1] (F31: the pinned fold counted "
             "duplicates twice and could go negative - kernel-checked witness); quick sampler = normalised conditional "
             "(sums to one); squared simulator amplitude = sampler probability (lossless). The check also drives all "
             "four objects through histories (every ordered pair of reads around every reconfiguration) and expected "
             "mappings of every accepted shape. Division by a zero accepted total is "
             "undefined in the code (NaN) and total in the model; compared only when defined. The PostSelection object "
             "itself is a state machine in the model (LW.Model.PostSel, theorems LW/Properties/PostSel.lean: refused add is "
             "a no-op, rules are append-only, the modes listing is exactly the modes of the stored rules, one rule per "
             "mode unless multi_rules, validate = conjunction of the rules, adding rules only shrinks the accepted set) and "
             "is compared call by call with lightworks.PostSelection on random histories.",
        ref="§5 C05, §13.8"),
    "C07": dict(
        text="Lean theorems for every tape/seed: the variate-to-outcome map is an interval of length p_k/sum (so the "
             "push-forward of the uniform tape is the normalised distribution); the detector kernel is a probability "
             "distribution with the stated stage order (closed form per mode, binomial thinning, one dark count, "
             "threshold); every returned state is the accepted, herald-free form of a detected state satisfying "
             "post-selection and min_detection; sample_N_outputs returns exactly N samples from the exact conditional "
             "distribution. LIMIT STATEMENTS (proved): on the uniform grid the selection frequency is within 1/N of "
             "p_k/sum (inverseCdf_grid_frequency, Tendsto form); for an i.i.d. uniform tape (pairwise independent, "
             "each uniform on [0,1)) the selection frequencies of indices and of states converge almost surely to the "
             "normalised weights (sampling_frequencies_converge, sampleOne_frequencies_converge: Mathlib's strong law "
             "applied to the push-forward theorem inverseCdfR_uniform_measure), and the law of the detected state under "
             "an i.i.d. uniform tape is exactly detectorKernel (detectorSampleR_law); the real-valued twins are proved "
             "equal to the model on rational data. Executable Lean model of the detector (tape version and exact kernel) and of the sampling pipelines "
             "(sample_N_inputs, sample_N_outputs, sample) as functions of the random tape; the harness reproduces the "
             "uniform variates numpy / stdlib draw from the seed and demands sample-by-sample agreement with the model, "
             "checks every returned state against heralds / post-selection / min_detection / herald removal, exactly-N "
             "and seed determinism, and tests empirical frequencies against the model's exact "
             "detected/heralded/post-selected distribution (chi-square, false-alarm bound 1e-9).",
        technique="Lean 4 model of the pipeline as a function of the random tape + exact tape-replay correspondence; "
                  "statistical validation labelled as such",
        note="PARTIAL: PRNG contracts (numpy Generator.choice = inverse CDF on Generator.random, stdlib random) are "
             "trusted and self-tested each run (the limit theorems assume an ideal i.i.d. uniform tape). For the rejection "
             "loop of sample_N_inputs as a whole: the renewal decomposition is proved at model level "
             "(sampleNInputs_renewal: the result is the list of accepted pass outcomes) and the strong law for accepted "
             "fraction and conditional state frequencies is proved for pairwise independent identically distributed "
             "passes (rejection_loop_frequencies); that the passes of a loop consuming one i.i.d. tape in order ARE "
             "i.i.d. is a hypothesis there, not a theorem (single-pass law: selection step and detector law are proved). Known finding F13 (Sampler.sample ignores heralds). The PostSelection object "
             "the sampling methods apply is modelled as a state machine (LW.Model.PostSel; theorems in "
             "LW/Properties/PostSel.lean, also for rules sharing a mode) and compared call by call with the implementation.",
        ref="§5 C07, §13.8"),
    "C11": dict(
        text="Lean refinement theorems over the cache model (26): if the computed value factors through the "
             "configuration snapshot then, after ANY history of reconfigurations and reads - including computations "
             "that raise - every read returns what a fresh object with the current configuration computes; the "
             "repaired snapshots of Sampler and QuickSampler (object identity of the post-selection AND the rules it "
             "holds now) determine the configuration, the pinned ones do not (F10 and F30 witnesses with stale reads, "
             "kernel-decided); for any number of holders sharing PostSelection / Backend / Source objects that are "
             "changed in place, the cached world equals the cache-free world read for read "
             "(shared_history_independent). The model is EXECUTED against the code: on random and directed histories "
             "the driver runs Cached.runE / CWorld.step on configurations abstracted from public attributes and the "
             "model's per-read 'recomputed' flag is compared with the implementation's (counting wrappers installed by "
             "the harness around pdist_calc / Backend.probability / the distribution getters; /repo untouched): a "
             "field dropped from or added to _gen_calculation_values is reported by name. Every observation of "
             "long-lived Sampler/QuickSampler/Analyzer objects (also with shared components) is compared with a "
             "fresh object built from the current settings.",
        technique="Lean 4 cache-refinement proof by induction over histories (single object and world of holders) + "
                  "per-read recomputation correspondence + long-lived vs fresh object differential check",
        note="The distribution function itself is abstract in the model (`compute`); that it depends on exactly the "
             "snapshot fields is what the long-lived-vs-fresh oracle searches counterexamples to. U_full and source "
             "values are abstracted to identifiers with the code's own equality.",
        ref="§5 C11"),
    "C19": dict(
        text="Proved for all circuits, options and both back-ends on the model: Display never indexes outside the "
             "location arrays and never takes max() of an empty sequence; it raises DisplayError exactly for an unknown "
             "type or a wrong label-list length; it returns the pool unchanged. The invariant these theorems need is "
             "proved to hold after any history of API calls (nested, heralded, grouped additions and the rewrites), "
             "given at least one mode per constructor. Tied to the code by running the real Display on generated "
             "circuit trees (drawing size, axis limits, ticks, labels compared exactly; every live object checked "
             "before/after).",
        technique="Lean 4 proof of index safety and option validation over an executable model of both drawing "
                  "back-ends + differential check of Display on generated circuit trees",
        note="PARTIAL: drawsvg / matplotlib primitives and the text placed on the drawing are exercised but not "
             "modelled. Known finding F25 (zero-mode circuits cannot be displayed).",
        ref="§5 C19"),
    "C10": dict(
        text="Parameter/ParameterDict setters and parametrised circuits are modelled in Lean by reusing the circuit "
             "model at a symbolic scalar type. Fifteen theorems, for all histories, circuits and stores: the bounds "
             "invariant, rejected calls are no-ops, naturality of the whole construction and rewrite API under "
             "resolution (so U always reads current values), exactly-once and complete listing through groups and add, "
             "frozen-copy constancy, invalid value => CircuitCompilationError. Tied to the code by comparing all live "
             "objects after every call of generated interleaved histories; the clauses are also evaluated on the "
             "implementation alone through a shadow rebuild.",
        technique="Lean 4 proof over an executable model (symbolic-scalar circuits + parameter store) with stateful "
                  "differential correspondence",
        note="NaN, complex and bool inputs lie outside the ordered domain, are probed directly and give the known "
             "finding F15. Float sqrt/exp enter as a per-case table of exact values.",
        ref="§5 C10"),
    "C12": dict(
        text="Proved for all instruction lists: the adjacency swaps conjugate the two qubits next to each other in the "
             "stated order and are undone afterwards; safety of the repaired post-selection analyser (under the final "
             "rules every qubit holds one photon after every instruction); F2 counterexample for the pinned rule; "
             "refusal characterisation (convert returns ok only for supported, placeable instructions). The "
             "amplitude-level clause is PROVED IN FULL (convert_correct): for every field with valid gate constants and "
             "every instruction list the converter accepts, in either mode, the circuit assembled from the library's "
             "gates maps each dual-rail basis input to accepted outputs with amplitude k x idealRun (k != 0 the product "
             "of the per-gate scalars) and 0 outside the qubit subspace. The implementation is compared with the "
             "model's plan and with qiskit.quantum_info.Operator on every generated circuit (residual <= 1e-9).",
        technique="Lean 4 proof of the converter (decision logic + amplitude-level correctness by forward induction over "
                  "the instruction list through the Fock functor and the C13 gate tables) + correspondence check and "
                  "amplitude oracle vs qiskit Operator",
        note="qiskit's Operator is the reference semantics of the named gates: the agreement of the model's idealRun "
             "with it (little-endian ordering) is checked by the harness, not proved.",
        ref="§5 C12"),
    "C13": dict(
        text="Lean theorems: for any field and any constants satisfying the defining equations (shown for the complex "
             "numbers sqrt2, 3^(-1/2), 2^(-1/4), sqrt(3/sqrt2-2), sqrt7, i, e^{i pi/4}), each multi-qubit gate built "
             "through the model of Circuit.add/herald has heralded amplitudes = scalar x named matrix on the dual-rail "
             "basis (scalar^2 1/9, 1/16, 1/72) and heralded gates have no accepted leakage; single-qubit gates for every "
             "rotation parameter with scalar exactly 1. The tables are decided by the kernel (decide +kernel, no "
             "native_decide) over exact Z[1/6] quadratic-extension towers and lifted to any field by evaluation maps. "
             "The driver evaluates the same tower objects and is compared with U_full and Simulator amplitudes each run.",
        technique="kernel-decided amplitude tables of the Circ-built gates over exact quadratic-extension towers, "
                  "lifted to any field by evaluation homomorphisms + correspondence check",
        note="SWAP is proved for all mode pairs and every commutative ring (SWAP_all_pairs). The check also runs "
             "histories: rotation gates with near-equal angles built in one process, and gate objects reused inside "
             "host circuits with ancillas in the span (the gate object and the host must both still implement the gate).",
        ref="§5 C13"),
    "C14": dict(
        text="Proved for every n, every unitary and every herald dictionary: the model of Reck.map, run through the "
             "Circuit API model, is accepted, keeps the heralds and reproduces U exactly (unit-cell identity, nulling "
             "invariant, triangular unitary is diagonal, telescoping) - also over the complex numbers with "
             "arctan/cos/sin/exp/arg written as in the code, so no trigonometric assumption is left; for every valid "
             "error model the result is the Reck mesh with unitary U_full, drawn values and programmed phases lie in "
             "their bounds and are fixed by the seed. Tied to the code by a differential check on exact GQ[sqrt2] inputs "
             "and by replaying numpy's streams as tapes.",
        technique="Lean 4 proof (2x2 block homomorphism for the unit cell, nulling invariant, triangular-unitary lemma, "
                  "tape model of the error model) + correspondence check",
        note="PARTIAL: IEEE rounding of `%`, trig and the 1e-20/1e-10 thresholds is outside the proof (this is where "
             "F16 lived); caught by the oracle on the implementation.",
        ref="§5 C14"),
    "C15": dict(
        text="Lean theorems that StateTomography.process on noiseless outcome tables returns exactly rho0/tr rho0 "
             "(pure: |psi><psi|, Hermitian, unit trace, fidelity 1 under the sqrtm contract) for all n, all states, all "
             "callback/dict orders; the requested settings are exactly {X,Y,Z}^n. The circuits clause is proved for "
             "every constructible base circuit, incl. ancillas between the rails of a qubit "
             "(requested_circuits_corrected; the first formulation is refuted by a kernel-checked witness). The correspondence check runs "
             "the real class on generated 1-3-qubit base circuits (incl. heralded/post-selected gates and heralds "
             "declared directly on the base) with exact frequencies and compares with the exact model over Q(i,sqrt2).",
        technique="Lean 4 proof (single-qubit Pauli identities + Kronecker induction) over an executable model + "
                  "differential check with noiseless callbacks",
        note="numpy.linalg.eigh inside state_fidelity is trusted. Finding F28 (sqrtm returned nan for pure states with "
             "rounding noise in the zero block; hash-seed dependent) was found by this check and repaired in /repo.",
        ref="§5 C15"),
    "C16": dict(
        text="Proved: reference Choi = channel matrix, LI transform invertible (closed-form left inverse) and LI returns "
             "choi_from_unitary(V) exactly for every n and V; gate fidelity equals (|tr U^dag V|^2+d)/(d(d+1)) and is 1 "
             "for U = V; the MLE model vector of the reference Choi matrix is proportional to the data vector of the "
             "whole noiseless pipeline (mle_model_consistent_corrected, under the minimal hypothesis that len(data) is "
             "non-zero in the scalar field - true in characteristic 0, shown necessary, and refuted without it over "
             "F_49). The optimiser is run on the implementation and checked against the 0.99 / CPTP bound on every case.",
        technique="Lean 4 proof (dual bases, Pauli twirl; projections onto the TP set and the PSD cone) over an executable "
                  "model + model/implementation correspondence check; convergence of the MLE optimiser validated numerically",
        note="MLE projection steps modelled (LW.Model.MLEProj) and proved (LW/Properties/C16Proj.lean): _tp_proj returns a "
             "matrix with identity partial trace, fixes such matrices, is idempotent and keeps Hermitian matrices Hermitian; "
             "_cp_proj returns a positive semi-definite matrix for ANY output of eigh, and with eigh's contract the Moreau "
             "decomposition holds (nearest PSD matrix); _cptp_proj returns an output of the CP step; every pgdb iterate is "
             "positive semi-definite for every data set, step sizes in [0,1] and any number of iterations (pgdb_returns_positive), "
             "and trace preservation is an invariant under an exactly trace-preserving projection. The steps are executed by "
             "the driver on exact Gaussian-rational data and compared with MLETomographyAlgorithm._tp_proj/_cp_proj/_cptp_proj. "
             "PARTIAL: convergence of Dykstra's iteration and of the projected gradient descent (the 0.99 bound, trace "
             "preservation beyond the stopping tolerance) and numpy pinv/eigh/solve are outside the proof.",
        ref="§5 C16, §13.8"),
    "C06": dict(
        text="The Lean model of the source (outcome table, per-mode and cross-mode combination with fresh labels, "
             "empty-mode grouping, label canonicalisation, thresholding, annotated_state_pdist_calc) is proved, for all "
             "inputs and parameters, to produce the mixture over independent per-photon emission outcomes of the merged "
             "boson-sampling distributions of the distinguishable groups; from that follow normalisation of input "
             "statistics and output, g2 = 1 - purity (with the real square root the code uses), the perfect-source "
             "reduction, invariance under label remapping and HOM visibility = indistinguishability. Tied to the code "
             "by comparing Sampler.probability_distribution (both backends) and Source.check_number with the exact "
             "model and with an independent mixture reference on generated circuits.",
        technique="Lean 4 proof of the mixture semantics over an executable model + differential check against exact "
                  "rationals and an independent mixture reference",
        note="The classical-particle limit (zero indistinguishability) and full-path = basic-path are proved for every "
             "input as equalities of mixtures for an arbitrary observable. Trusted: thewalrus.perm, multimethod "
             "dispatch, float rounding; the 1e-9 backend cut enters as a rational parameter.",
        ref="§5 C06"),
}

PENDING_REASON = "check not built yet in this session (planned, see DESIGN.md §5 and §11); not claimed until its machinery exists"


def main() -> None:
    props = [json.loads(l)["id"] for l in (VERIF / "properties.jsonl").read_text().splitlines() if l.strip()]
    checks = []
    for pid in props:
        if pid not in CLAIMED:
            continue
        c = CLAIMED[pid]
        checks.append({
            "property_id": pid,
            "quick_cmd": f"./check {pid} quick",
            "thorough_cmd": f"./check {pid} thorough",
            "evidence_file": f"evidence/{pid}.json",
            "replay_cmd_template": f"./check {pid} quick --replay {{path}}",
            "engine": "lean-model+correspondence",
            "level_claimed": {"category": "proof", "text": c["text"], "design_ref": c["ref"]},
            "level_note": BASE_NOTE + c["note"],
            "technique": c["technique"],
        })
    na = [{"property_id": p, "reason": CLAIMED.get(p, {}).get("na", PENDING_REASON)} for p in props if p not in CLAIMED]
    man = {
        "version": 1,
        "setup_cmd": "./setup.sh",
        "hooks": {
            "guard": "LIGHTWORKS_VERIF",
            "enable": "no source hooks are needed: checks import lightworks from /repo's working tree "
                      "(PYTHONPATH=/repo) and observe public API only; LIGHTWORKS_VERIF=1 is exported by ./check "
                      "but nothing in /repo reads it",
            "baseline_off_cmd": "cd /repo && /venv/bin/python -m pytest -ra -q -p no:cacheprovider --timeout=900 "
                                "--continue-on-collection-errors",
            "source_commits": [],
            "add_only": True,
        },
        "engines": [{
            "name": "lean-model+correspondence",
            "path": "lean/ (LW.Model, LW.Proofs, LW.Properties, Driver.lean) + harness/",
            "serves_properties": [c["property_id"] for c in checks],
            "kind_free_text": "Lean 4 theorems over a hand-written executable model; compiled driver speaks a JSON "
                              "line protocol; Python harness runs lightworks in-process on the same cases and diffs",
        }],
        "checks": checks,
        "not_applicable": na,
        "notes": "See DESIGN.md. Exit codes: 0 held, 1 VIOLATION, 2 machinery fault (never a violation).",
    }
    (VERIF / "MANIFEST.json").write_text(json.dumps(man, indent=1) + "\n")
    print(f"MANIFEST.json: {len(checks)} checks, {len(na)} not_applicable")


if __name__ == "__main__":
    main()
