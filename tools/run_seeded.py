#!/usr/bin/env python3
"""
Run the registered checks against a seeded change (a mutation of /repo that breaks a property).

  tools/run_seeded.py <dir with patch.diff [demo.py] [meta.json]> [--props C01,C08] [--tier quick]
                      [--seeds 0,1] [--no-tests] [--keep]

The mutation is applied in a scratch git worktree of /repo's HEAD (never in /repo itself: other
checks may be running against it), the demonstration is run with and without it, the repository's
test suite is run with it, and each requested check is run with LW_REPO pointing at the worktree.
Results are written back to <dir>/result.json.  The worktree is removed afterwards.
"""

from __future__ import annotations

import argparse
import json
import os
import subprocess
import sys
import tempfile
import time
from pathlib import Path

VERIF = Path(__file__).resolve().parent.parent


def sh(cmd, cwd=None, env=None, timeout=3600):
    r = subprocess.run(cmd, cwd=cwd, env=env, capture_output=True, text=True, timeout=timeout, check=False)
    return r.returncode, r.stdout + r.stderr


def main() -> int:
    ap = argparse.ArgumentParser()
    ap.add_argument("dir")
    ap.add_argument("--props", default="")
    ap.add_argument("--tier", default="quick")
    ap.add_argument("--seeds", default="0")
    ap.add_argument("--no-tests", action="store_true")
    ap.add_argument("--keep", action="store_true")
    a = ap.parse_args()
    d = Path(a.dir).resolve()
    meta = json.loads((d / "meta.json").read_text()) if (d / "meta.json").exists() else {}
    props = [p for p in a.props.split(",") if p] or [meta.get("property")]
    wt = Path(tempfile.mkdtemp(prefix="seeded_", dir="/tmp"))
    wt.rmdir()
    rc, out = sh(["git", "-C", "/repo", "worktree", "add", "--detach", str(wt), "HEAD"])
    if rc != 0:
        print(out)
        return 2
    res: dict = {"dir": str(d), "time": time.strftime("%Y-%m-%d %H:%M:%S"), "repo_head": sh(["git", "-C", "/repo", "rev-parse", "--short", "HEAD"])[1].strip()}
    # a run without the test-suite keeps the suite confirmation of an earlier run of the same patch
    import hashlib

    res["patch_sha1"] = hashlib.sha1((d / "patch.diff").read_bytes()).hexdigest()
    try:
        old = json.loads((d / "result.json").read_text())
    except Exception:  # noqa: BLE001
        old = {}
    if a.no_tests and "pytest_summary" in old and old.get("patch_sha1", res["patch_sha1"]) == res["patch_sha1"]:
        res["pytest_rc"] = old.get("pytest_rc")
        res["pytest_summary"] = old["pytest_summary"]
        res["pytest_confirmed_at"] = old.get("pytest_confirmed_at", old.get("time"))
    try:
        env = dict(os.environ, PYTHONPATH=str(wt), PYTHONDONTWRITEBYTECODE="1", MPLBACKEND="Agg")
        demo = d / "demo.py"
        if demo.exists():
            rc0, o0 = sh(["/venv/bin/python", "-B", str(demo)], cwd=wt, env=env, timeout=900)
            res["demo_clean_rc"] = rc0
        rc, out = sh(["git", "apply", str(d / "patch.diff")], cwd=wt)
        if rc != 0:
            res["apply_error"] = out[-500:]
            print("patch does not apply:", out[-500:])
            return 2
        if demo.exists():
            rc1, o1 = sh(["/venv/bin/python", "-B", str(demo)], cwd=wt, env=env, timeout=900)
            res["demo_mutated_rc"] = rc1
            res["demo_mutated_tail"] = o1[-400:]
        if not a.no_tests:
            rc, out = sh(["/venv/bin/python", "-m", "pytest", "-q", "-p", "no:cacheprovider", "-n", "12", "tests"],
                         cwd=wt, env=env, timeout=1800)
            res["pytest_rc"] = rc
            res["pytest_summary"] = out.strip().splitlines()[-1] if out.strip() else ""
        # results of other properties' checks from earlier runs of the same patch are kept
        res["checks"] = dict(old.get("checks", {})) if old.get("patch_sha1", res["patch_sha1"]) == res["patch_sha1"] else {}
        for p in props:
            for s in a.seeds.split(","):
                e = dict(os.environ, LW_REPO=str(wt), VERIF_SEED=s, VERIF_EVIDENCE_DIR=str(wt) + "/.verif_out/evidence",
                         VERIF_REPLAY_DIR=str(d / "replays"))
                t0 = time.time()
                rc, out = sh([str(VERIF / "check"), p, a.tier], cwd=VERIF, env=e, timeout=3600)
                lines = [l for l in out.splitlines() if l.startswith(("VIOLATION", "KNOWN-FINDING", "MACHINERY", "[" + p))]
                first = next((l for l in out.splitlines() if l.startswith("  ")), "")
                res["checks"][f"{p}@{s}"] = {"rc": rc, "wall_s": round(time.time() - t0, 1), "lines": lines[:4],
                                             "first_detail": first.strip()[:300]}
                print(f"{p} seed={s}: rc={rc}  {lines[0] if lines else ''}")
                print("   ", first.strip()[:200])
        res["detected"] = any(v["rc"] == 1 for v in res["checks"].values())
    finally:
        if not a.keep:
            sh(["git", "-C", "/repo", "worktree", "remove", "--force", str(wt)])
    (d / "result.json").write_text(json.dumps(res, indent=1) + "\n")
    print(json.dumps({k: v for k, v in res.items() if k != "checks"}, indent=1))
    return 0


if __name__ == "__main__":
    sys.exit(main())
