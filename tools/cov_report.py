#!/usr/bin/env python3
"""
Merge the implementation line-coverage blocks (`coverage.impl_line_coverage`, written by the checks
when run in the thorough tier or with VERIF_COVERAGE=1) of all evidence files in a directory and list,
per source file of lightworks, the statements that NO check executed.

  tools/cov_report.py [evidence_dir] [--repo /repo]

This is a generator-quality report (where a seeded change could hide from the correspondence
checks); it decides nothing.
"""

from __future__ import annotations

import json
import sys
from pathlib import Path


def parse(r: str) -> set[int]:
    out: set[int] = set()
    for part in r.split(","):
        if not part:
            continue
        if "-" in part:
            a, b = part.split("-")
            out.update(range(int(a), int(b) + 1))
        else:
            out.add(int(part))
    return out


def ranges(xs) -> str:
    xs = sorted(xs)
    out, i = [], 0
    while i < len(xs):
        j = i
        while j + 1 < len(xs) and xs[j + 1] == xs[j] + 1:
            j += 1
        out.append(str(xs[i]) if i == j else f"{xs[i]}-{xs[j]}")
        i = j + 1
    return ",".join(out)


def main() -> int:
    args = [a for a in sys.argv[1:] if not a.startswith("--")]
    evdir = Path(args[0]) if args else Path(__file__).resolve().parent.parent / "evidence"
    repo = Path(sys.argv[sys.argv.index("--repo") + 1]) if "--repo" in sys.argv else Path("/repo")
    missing: dict[str, set[int]] = {}
    stmts: dict[str, int] = {}
    by: dict[str, list[str]] = {}
    for f in sorted(evdir.glob("C*.json")):
        ev = json.loads(f.read_text())
        ilc = ev.get("coverage", {}).get("impl_line_coverage")
        if not ilc or not ilc.get("measured"):
            continue
        for group in ("files", "other_files"):
            for name, rec in ilc.get(group, {}).items():
                if "missing_lines" not in rec or rec.get("executed", 0) == 0:
                    continue
                m = parse(rec["missing_lines"])
                missing[name] = m if name not in missing else missing[name] & m
                stmts[name] = rec["statements"]
                by.setdefault(name, []).append(ev["property_id"])
    allpy = sorted(str(p.relative_to(repo)) for p in (repo / "lightworks").rglob("*.py"))
    tot_s = tot_m = 0
    for name in allpy:
        if name not in missing:
            print(f"{name}: never executed by any check")
            continue
        tot_s += stmts[name]
        tot_m += len(missing[name])
        print(f"{name}: {stmts[name] - len(missing[name])}/{stmts[name]} statements  [{','.join(by[name])}]")
        if missing[name]:
            print(f"    not executed: {ranges(missing[name])}")
    print(f"TOTAL over touched files: {tot_s - tot_m}/{tot_s}")
    return 0


if __name__ == "__main__":
    sys.exit(main())
