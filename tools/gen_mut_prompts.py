#!/usr/bin/env python3
"""Write the prompt for a fresh mutation agent (round N) for each requested property.

  tools/gen_mut_prompts.py <round> C02 C05 ...

The prompt contains only the property's text, the agent's own scratch worktree and one-line
summaries of the changes earlier rounds produced (so that the new ones use other mechanisms);
nothing from /verif's machinery.
"""
import json
import sys
from pathlib import Path

V = Path(__file__).resolve().parent.parent
rnd = sys.argv[1]
props = {json.loads(l)["id"]: json.loads(l) for l in (V / "properties.jsonl").read_text().splitlines() if l.strip()}
ANGLE = {
    "7": ("ALL of the families below have been used, including interplays of two features, operator spellings, rules sharing modes, "
          "objects modified after hand-over, dtype / integer-width effects and tidy-up methods: look for something else that is "
          "still a plausible maintainer slip, for instance a change in ONE module that only shows through ANOTHER module's use of "
          "it, an unusual but valid argument type (numpy integers, range objects, tuples where lists are usual, generators), a "
          "dependence on the order in which keyword arguments / dict entries / heralds were given, sizes at the upper end (ten or "
          "more modes, five or more photons, three or four qubits), numeric extremes (magnitudes near 1e-8 or 1e8), an exception "
          "that is now swallowed so that the call continues with partial state, a condition that is checked on the wrong copy of "
          "an object, a copy that became too shallow or too deep"),
    "6": ("the obvious families — caches and stale state across calls, shared default objects, aliasing of caller-owned data, "
          "boundary values, falsy zeros, tolerance-based comparisons, identity-vs-equality, argument forms, retained results, global "
          "settings — have all been used: look for something else that is still a plausible maintainer slip, for instance an "
          "interplay of TWO features that are each fine alone (heralds + loss, grouping + parameters, detector + post-selection ...), "
          "a size or multiplicity nobody tries (one mode, many modes, three or more photons in one mode, repeated modes), complex / "
          "non-symmetric values where tests use real symmetric ones, an ordering assumption (dict / set iteration, sorted vs insertion "
          "order), a numpy dtype or integer-width effect, an error path that now accepts what it should refuse or half-applies a call, "
          "a loop bound that only matters on the last or the (n+1)-th element"),
}
for pid in sys.argv[2:]:
    p = props[pid]
    wt = f"/tmp/mut{rnd}_{pid.lower()}"
    known = []
    for d in sorted((V / "seeded").glob(f"{pid}_*")):
        try:
            m = json.loads((d / "meta.json").read_text())
        except Exception:  # noqa: BLE001
            continue
        s = (m.get("summary") or "").strip().replace("\n", " ")
        if s:
            known.append("  - " + s[:330])
    text = f"""You are testing how well a Python library's behaviour is pinned down by its test suite. The library is `lightworks` (a Python SDK for linear-optic photonic circuits: circuit construction, compilation to unitaries, boson-sampling emulation with noise models, tomography). You have your own scratch git worktree of its repository at {wt} (work ONLY there; do not touch /repo and do not look at or use anything under /verif). Python: /venv/bin/python. IMPORTANT: run everything with `cd {wt} && PYTHONPATH={wt} /venv/bin/python ...` so that the library is imported from your worktree (check once with `PYTHONPATH={wt} /venv/bin/python -c "import lightworks; print(lightworks.__file__)"`). Test suite: `cd {wt} && PYTHONPATH={wt} /venv/bin/python -m pytest -q -p no:cacheprovider -n 4 tests` (a few minutes; the machine is shared: do NOT use more than -n 4 and never run two test-suite runs at the same time; 663 tests, all pass on the unmodified tree). No network.

Here is a semantic property that the library is supposed to satisfy:

PROPERTY {pid} — {p['title']}
{p['statement']}
It is quantified over: {p['quantifier']['text']}
Relevant source files: {', '.join(p['anchors']['files'])}

YOUR TASK: produce THREE different, realistic code changes (mutations) to the library, each of which BREAKS this property while the library still imports and the ENTIRE existing test suite still passes. Each should look like a plausible regression a maintainer could introduce (an off-by-one, a wrong index after a refactor, a forgotten case, a wrong branch condition, a changed iteration order, a lost conjugate or transpose ...), not vandalism. Prefer changes that need something SPECIFIC to manifest — a particular multi-step sequence of API calls, an unusual but valid input, a particular configuration, two call sites that each look fine alone — rather than ones that any ordinary use exposes at once. The three mutations should exercise DIFFERENT clauses / mechanisms of the property and touch different code locations if possible.

For each mutation i = 1, 2, 3 deliver, under {wt}/mutations/m<i>/ :
  * patch.diff   — `git diff` of the change against the unmodified worktree (apply one mutation at a time: `git diff > file; git checkout -- .` between mutations so that each patch applies to the clean tree on its own);
  * demo.py      — a small standalone program (run as `PYTHONPATH=<tree> /venv/bin/python demo.py`) that exits 0 and prints PASS on the unmodified tree and exits 1 printing FAIL (with the observed vs expected values) on the mutated tree; it must check the PROPERTY (observable behaviour through the public API), not the implementation detail you changed;
  * meta.json    — {{"property": "{pid}", "summary": "<one sentence>", "clause_broken": "<which part of the property>", "needs": "<what specific input/sequence/configuration is needed to manifest>", "files_changed": [...], "tests_pass": true}}.
Verify for every mutation: (a) full test suite passes with the mutation applied (paste the final pytest summary line into meta.json as "pytest_summary"), (b) demo.py fails with it and passes without it. If a candidate mutation makes some existing test fail, discard it and find another. Leave the worktree CLEAN (no mutation applied) at the end, with only the untracked `mutations/` directory added.

Report briefly: for each mutation the summary, what it needs to manifest, and confirmation of (a) and (b).

IMPORTANT: never use `git stash` (the stash is shared between all worktrees of this repository and other people are working in other worktrees); to switch between mutations use `git diff > file; git checkout -- .; git apply file`. Do not spend more than about 30 minutes in total; if a third mutation is hard to find, deliver two.

ALREADY KNOWN (earlier rounds produced these; yours must use DIFFERENT mechanisms and different code locations; {ANGLE[rnd]}):
""" + "\n".join(known) + "\n"
    out = V / "notes" / f"mut_prompts_round{rnd}" / f"{pid}.txt"
    out.parent.mkdir(exist_ok=True)
    out.write_text(text)
    print(out, len(known), "known")
