#!/usr/bin/env python3
"""
Regenerate the table of DESIGN.md §13.5 (which check catches which seeded change) from
seeded/*/meta.json and seeded/*/result.json (written by tools/run_seeded.py).

  tools/seeded_table.py            print the markdown table
  tools/seeded_table.py --write    replace the block between the markers in DESIGN.md
"""

from __future__ import annotations

import json
import sys
from pathlib import Path

VERIF = Path(__file__).resolve().parent.parent
BEGIN = "<!-- seeded-table:begin -->"
END = "<!-- seeded-table:end -->"


def row(d: Path) -> str | None:
    meta = json.loads((d / "meta.json").read_text()) if (d / "meta.json").exists() else {}
    res = json.loads((d / "result.json").read_text()) if (d / "result.json").exists() else None
    prop = meta.get("property", "?")
    needs = (meta.get("needs") or meta.get("summary") or "").replace("|", "/").replace("\n", " ")
    if len(needs) > 230:
        needs = needs[:227] + "…"
    if res is None:
        return f"| {d.name} | {prop} | {needs} | (not run yet) | |"
    caught = sorted({k.split("@")[0] for k, v in res.get("checks", {}).items() if v.get("rc") == 1})
    missed = sorted({k.split("@")[0] for k, v in res.get("checks", {}).items() if v.get("rc") != 1} - set(caught))
    det = ", ".join(caught) if caught else "**missed**"
    if missed and caught:
        det += f" (not by {', '.join(missed)})"
    first = ""
    for v in res.get("checks", {}).values():
        if v.get("rc") == 1:
            first = (v.get("first_detail") or "").replace("|", "/")[:140]
            break
    conf = []
    if "demo_clean_rc" in res:
        conf.append(f"demo {res.get('demo_clean_rc')}→{res.get('demo_mutated_rc')}")
    if res.get("pytest_summary"):
        conf.append("suite: " + res["pytest_summary"].split(" in ")[0])
    return f"| {d.name} | {prop} | {needs} | {det} | {first} ({'; '.join(conf)}) |"


def main() -> int:
    rows = [r for d in sorted((VERIF / "seeded").iterdir()) if d.is_dir() and (r := row(d))]
    n = len(rows)
    nd = sum(1 for r in rows if "**missed**" not in r and "(not run yet)" not in r)
    table = "\n".join([
        BEGIN,
        f"{nd} of {n} seeded changes are caught by the quick tier of at least one registered check "
        "(seed 0; `demo a→b` = exit code of the demonstration on the clean → changed tree).",
        "",
        "| seeded change | property | what it needs in order to manifest | caught by | first report of the check (confirmation) |",
        "|---|---|---|---|---|",
        *rows,
        END,
    ])
    if "--write" in sys.argv:
        p = VERIF / "DESIGN.md"
        s = p.read_text()
        if BEGIN in s and END in s:
            s = s[: s.index(BEGIN)] + table + s[s.index(END) + len(END):]
        else:
            s = s.rstrip("\n") + "\n\n" + table + "\n"
        p.write_text(s)
    else:
        print(table)
    return 0


if __name__ == "__main__":
    sys.exit(main())
