#!/venv/bin/python
"""
Pin the source of the modelled code: per property, the normalised-AST hash of every function / method /
class body in the property's anchor files (properties.jsonl: anchors.files, plus EXTRA below) at /repo's
current working tree.  Written to harness/pinned_sources.json.

The checks compare the working tree with these pins on every run (core.source_drift).  A difference is NOT
a violation and raises no alarm: it means the code the model was written against has been edited, and the
check then escalates its case counts (more of the same generated cases, within the time cap) so that the
correspondence is re-validated more thoroughly exactly when it is most needed.  Re-run this tool after
every commit to /repo that is part of the baseline (hooks / fix: commits).
"""

from __future__ import annotations

import ast
import hashlib
import json
import subprocess
import sys
from pathlib import Path

VERIF = Path(__file__).resolve().parent.parent

# files outside a property's anchors whose code its model also mirrors
EXTRA = {
    "C02": ["lightworks/sdk/circuit/circuit_utils.py"],
    "C08": ["lightworks/sdk/circuit/circuit_utils.py", "lightworks/sdk/circuit/circuit.py"],
    "C13": ["lightworks/sdk/circuit/circuit_utils.py", "lightworks/sdk/circuit/circuit.py"],
    "C11": ["lightworks/emulator/simulation/sampler.py", "lightworks/emulator/simulation/quick_sampler.py",
            "lightworks/emulator/simulation/analyzer.py", "lightworks/emulator/backend/backend.py"],
}


def _strip_doc(node: ast.AST) -> None:
    for n in ast.walk(node):
        body = getattr(n, "body", None)
        if isinstance(body, list) and body and isinstance(body[0], ast.Expr) and \
                isinstance(getattr(body[0], "value", None), ast.Constant) and isinstance(body[0].value.value, str):
            n.body = body[1:] or [ast.Pass()]


def function_hashes(path: Path) -> dict[str, str]:
    """{qualified name: sha1 of the AST dump without positions and docstrings}; '<module>' covers the
    module-level statements that are not definitions"""
    try:
        tree = ast.parse(path.read_text())
    except (OSError, SyntaxError) as e:
        return {"<unparsable>": str(e)[:80]}
    _strip_doc(tree)
    out: dict[str, str] = {}

    def visit(node: ast.AST, prefix: str) -> None:
        for child in getattr(node, "body", []):
            if isinstance(child, (ast.FunctionDef, ast.AsyncFunctionDef)):
                name = prefix + child.name
                # several definitions of one name (multimethod / property setters): number them
                k, base = 1, name
                while name in out:
                    k += 1
                    name = f"{base}#{k}"
                out[name] = hashlib.sha1(ast.dump(child, include_attributes=False).encode()).hexdigest()[:16]
            elif isinstance(child, ast.ClassDef):
                visit(child, prefix + child.name + ".")
                rest = [c for c in child.body if not isinstance(c, (ast.FunctionDef, ast.AsyncFunctionDef, ast.ClassDef))]
                out[prefix + child.name + ".<class body>"] = hashlib.sha1(
                    "".join(ast.dump(c, include_attributes=False) for c in rest).encode()).hexdigest()[:16]

    visit(tree, "")
    rest = [c for c in tree.body if not isinstance(c, (ast.FunctionDef, ast.AsyncFunctionDef, ast.ClassDef))]
    out["<module>"] = hashlib.sha1("".join(ast.dump(c, include_attributes=False) for c in rest).encode()).hexdigest()[:16]
    return out


def files_of(prop: str) -> list[str]:
    for line in (VERIF / "properties.jsonl").read_text().splitlines():
        if line.strip():
            rec = json.loads(line)
            if rec.get("id") == prop:
                fs = list(rec.get("anchors", {}).get("files", []))
                return fs + [f for f in EXTRA.get(prop, []) if f not in fs]
    return []


def main() -> int:
    repo = Path(sys.argv[1]) if len(sys.argv) > 1 else Path("/repo")
    # ast.dump differs between Python versions: pin with the interpreter the checks run under (/venv/bin/python)
    pins: dict = {"python": list(sys.version_info[:2]),
                  "repo_head": subprocess.run(["git", "-C", str(repo), "rev-parse", "--short", "HEAD"],
                                              capture_output=True, text=True).stdout.strip(),
                  "files": {}, "anchors": {}}
    # the whole package is pinned: a change anywhere in lightworks can matter to any property (e.g. a helper in
    # circuit_utils.py used by the gate library); `anchors` only says which files a property's model mirrors
    for f in sorted(p.relative_to(repo).as_posix() for p in (repo / "lightworks").rglob("*.py")):
        pins["files"][f] = function_hashes(repo / f)
    for i in range(1, 20):
        prop = f"C{i:02d}"
        pins["anchors"][prop] = files_of(prop)
    (VERIF / "harness" / "pinned_sources.json").write_text(json.dumps(pins, indent=0, sort_keys=True) + "\n")
    n = sum(len(v) for v in pins["files"].values())
    print(f"pinned {n} definitions in {len(pins['files'])} files at {pins['repo_head']}")
    return 0


if __name__ == "__main__":
    sys.exit(main())
