"""
C16, stream "proj" — the projection steps of the maximum-likelihood process tomography.

Model: LW.Model.MLEProj (`tpProj`, `cpProjFrom`, `pgdbStep`), theorems LW/Properties/C16Proj.lean.
The model is executed by the driver on EXACT data (Gaussian rationals); the implementation's
`MLETomographyAlgorithm._tp_proj / _cp_proj / _cptp_proj` (the mechanisms the property names) run on the
corresponding floats:

  * "tp"    a d² x d² matrix (dense / sparse / Hermitian / already trace preserving / a previous output):
            `_tp_proj` entry by entry against the model; clauses on the implementation alone: the partial trace
            of the result is the identity, a second application changes nothing, the argument is not modified;
  * "cp"    an exactly known eigen-decomposition A = V diag(vals) V† (V a product of exact Givens rotations and
            phases, rational eigenvalues of both signs, repeated and zero ones): `_cp_proj(A)` against the model's
            V diag(max(vals,0)) V† (the projection onto the positive semi-definite cone is 1-Lipschitz, so the
            comparison is insensitive to how eigh resolves degenerate eigenvalues); clauses: Hermitian, positive
            semi-definite, the part removed negative semi-definite and orthogonal to the part kept (Moreau);
  * "cptp"  `_cptp_proj` on Hermitian matrices near and far from the CPTP set: oracle only (eigh is not executable
            in exact arithmetic): the result is positive semi-definite (theorem `cptp_proj_positive`: it is an
            output of the CP step), trace preserving up to the stopping tolerance, and a CPTP input is returned
            unchanged; the argument is not modified.

The helpers are private methods: if a refactoring removes them the stream records that and is skipped (the
end-to-end MLE clauses of the other streams remain); it is not an alarm.
"""

from __future__ import annotations

import json
import math
from fractions import Fraction

import numpy as np

import tomo as tm
from core import Ctx, frac_str

TOL = 1e-9


# ------------------------------------------------------------------ exact Gaussian-rational matrices


def g(re=0, im=0):
    return (Fraction(re), Fraction(im))


def gmul(a, b):
    return (a[0] * b[0] - a[1] * b[1], a[0] * b[1] + a[1] * b[0])


def gadd(a, b):
    return (a[0] + b[0], a[1] + b[1])


def gconj(a):
    return (a[0], -a[1])


def gstr(a) -> str:
    return f"{frac_str(a[0])},{frac_str(a[1])}"


def gfloat(a) -> complex:
    return complex(float(a[0]), float(a[1]))


def mat_str(mat) -> list:
    return [[gstr(x) for x in row] for row in mat]


def mat_float(mat) -> np.ndarray:
    return np.array([[gfloat(x) for x in row] for row in mat], dtype=complex)


def ident(n):
    return [[g(1) if r == c else g(0) for c in range(n)] for r in range(n)]


# Pythagorean points on the unit circle: (c, s) with c² + s² = 1
PYTH = [(Fraction(3, 5), Fraction(4, 5)), (Fraction(5, 13), Fraction(12, 13)), (Fraction(8, 17), Fraction(15, 17)),
        (Fraction(4, 5), Fraction(3, 5)), (Fraction(0), Fraction(1)), (Fraction(7, 25), Fraction(24, 25))]
PHASES = [g(1), g(0, 1), g(-1), g(0, -1), g(Fraction(3, 5), Fraction(4, 5)), g(Fraction(5, 13), Fraction(-12, 13))]


def rand_unitary(rng, n: int, steps: int):
    """exact unitary: product of Givens rotations with rational cos / sin and unit-modulus rational phases"""
    v = ident(n)
    for _ in range(steps):
        i, j = rng.sample(range(n), 2)
        c, s = rng.choice(PYTH)
        ph = rng.choice(PHASES)
        # columns i, j <- (c*col_i + s*ph*col_j , -s*conj(ph)*col_i + c*col_j)
        for r in range(n):
            a, b = v[r][i], v[r][j]
            v[r][i] = gadd(gmul(g(c), a), gmul(gmul(g(s), ph), b))
            v[r][j] = gadd(gmul(gmul(g(-s), gconj(ph)), a), gmul(g(c), b))
    return v


def rand_frac(rng, big=False):
    if big:
        return Fraction(rng.randint(-40, 40), rng.choice([1, 2, 3, 7]))
    return Fraction(rng.randint(-6, 6), rng.choice([1, 2, 3, 4, 5, 8]))


def rand_matrix(rng, n: int, shape: str):
    m = [[g(0) for _ in range(n)] for _ in range(n)]
    dens = {"dense": 1.0, "sparse": 0.15, "hermitian": 0.6, "diag": 0.0}.get(shape, 0.5)
    for r in range(n):
        for c in range(n):
            if r == c and shape in ("hermitian", "diag"):
                m[r][c] = g(rand_frac(rng))
            elif rng.random() < dens:
                m[r][c] = g(rand_frac(rng), rand_frac(rng))
    if shape == "hermitian":
        for r in range(n):
            for c in range(r):
                m[r][c] = gconj(m[c][r])
    return m


def ptrace(a: np.ndarray, d: int) -> np.ndarray:
    """independent partial trace: pt[x, z] = sum_b a[x*d + b, z*d + b]"""
    out = np.zeros((d, d), dtype=complex)
    for x in range(d):
        for z in range(d):
            out[x, z] = sum(a[x * d + b, z * d + b] for b in range(d))
    return out


# ------------------------------------------------------------------ cases


def gen_case(rng, ctx: Ctx) -> dict:
    kind = rng.choices(["tp", "cp", "cptp", "step"], weights=[35, 35, 20, 10])[0]
    n = rng.choices([1, 2], weights=[70, 30])[0]
    d = 2 ** n
    dim = d * d
    if kind == "tp":
        shape = rng.choice(["dense", "sparse", "hermitian", "diag", "tp-already", "identity-over-d", "output"])
        if shape == "identity-over-d":
            a = [[g(Fraction(1, d)) if r == c else g(0) for c in range(dim)] for r in range(dim)]
        else:
            a = rand_matrix(rng, dim, shape if shape in ("dense", "sparse", "hermitian", "diag") else "hermitian")
        return {"stream": "proj", "kind": "tp", "n": n, "shape": shape, "A": mat_str(a)}
    if kind == "cp":
        spectrum = rng.choice(["mixed", "all-negative", "all-positive", "zeros", "repeated", "one-negative", "tiny"])
        if spectrum == "mixed":
            vals = [rand_frac(rng, big=rng.random() < 0.3) for _ in range(dim)]
        elif spectrum == "all-negative":
            vals = [-abs(rand_frac(rng)) - Fraction(1, 7) for _ in range(dim)]
        elif spectrum == "all-positive":
            vals = [abs(rand_frac(rng)) for _ in range(dim)]
        elif spectrum == "zeros":
            vals = [rng.choice([Fraction(0), Fraction(0), rand_frac(rng)]) for _ in range(dim)]
        elif spectrum == "repeated":
            pool = [rand_frac(rng), rand_frac(rng)]
            vals = [rng.choice(pool) for _ in range(dim)]
        elif spectrum == "one-negative":
            vals = [abs(rand_frac(rng)) + 1 for _ in range(dim)]
            vals[rng.randrange(dim)] = -abs(rand_frac(rng)) - Fraction(1, 3)
        else:
            vals = [Fraction(rng.choice([-1, 1]), 10 ** rng.randint(3, 7)) for _ in range(dim)]
        v = rand_unitary(rng, dim, rng.choice([0, 1, 3, 6, 12]))
        return {"stream": "proj", "kind": "cp", "n": n, "spectrum": spectrum,
                "vals": [frac_str(x) for x in vals], "vecs": mat_str(v)}
    if kind == "step":
        return {"stream": "proj", "kind": "step", "n": n, "choi": mat_str(rand_matrix(rng, dim, "hermitian")),
                "proj": mat_str(rand_matrix(rng, dim, "hermitian")),
                "alpha": frac_str(Fraction(1, 2 ** rng.randint(1, 6)))}
    # cptp
    start = rng.choice(["cptp-point", "near", "far", "indefinite-tp", "psd-not-tp"])
    seed = rng.randrange(2 ** 31)
    return {"stream": "proj", "kind": "cptp", "n": n, "start": start, "seed": seed,
            "scale": rng.choice(["1e-3", "1e-1", "1", "5"])}


def _algo(n: int):
    from lightworks.tomography.process_tomography_mle import MLETomographyAlgorithm

    return MLETomographyAlgorithm(n)


_ALGOS: dict = {}


def algo(n: int):
    if n not in _ALGOS:
        _ALGOS[n] = _algo(n)
    return _ALGOS[n]


def helpers_present() -> list[str]:
    try:
        a = algo(1)
    except Exception as e:  # noqa: BLE001
        return [f"MLETomographyAlgorithm(1): {type(e).__name__}"]
    return [m for m in ("_tp_proj", "_cp_proj", "_cptp_proj") if not callable(getattr(a, m, None))]


def cptp_start(case: dict) -> np.ndarray:
    rng = np.random.default_rng(case["seed"])
    d = 2 ** case["n"]
    dim = d * d
    # a CPTP point: Choi matrix of a random unitary channel mixture (column-stacking convention is irrelevant here)
    def unitary_choi():
        z = rng.normal(size=(d, d)) + 1j * rng.normal(size=(d, d))
        q, _ = np.linalg.qr(z)
        vec = q.T.reshape(-1, 1)  # sum_a |a> (x) U|a>  laid out as a*d + c  ->  U[c, a]
        return vec @ vec.conj().T

    w = rng.random()
    point = w * unitary_choi() + (1 - w) * unitary_choi()
    h = rng.normal(size=(dim, dim)) + 1j * rng.normal(size=(dim, dim))
    h = (h + h.conj().T) / 2
    sc = float(case["scale"])
    if case["start"] == "cptp-point":
        return point
    if case["start"] == "near":
        return point + 1e-3 * sc * h
    if case["start"] == "far":
        return sc * h
    if case["start"] == "indefinite-tp":
        a = point + sc * h
        pt = ptrace(a, d)
        return a - np.kron((pt - np.eye(d)) / d, np.eye(d))
    psd = h @ h.conj().T
    return sc * psd


def run_case(ctx: Ctx, case: dict) -> list[str]:
    probs: list[str] = []
    n = case["n"]
    d = 2 ** n
    dim = d * d
    al = algo(n)
    kind = case["kind"]
    if kind == "tp":
        m = ctx.model.call({"op": "ptomo", "kind": "tp_proj", "n": n, "A": case["A"]})
        if "error" in m:
            return [f"corr: model refused a tp_proj case: {m['error']}"]
        a = tm.q2mat(case["A"])
        if case["shape"] in ("tp-already", "output"):
            # start from the model's own output: a trace-preserving matrix
            a = tm.q2mat(m["out"])
            m2 = ctx.model.call({"op": "ptomo", "kind": "tp_proj", "n": n, "A": m["out"]})
            if m2["out"] != m["out"]:
                probs.append("model: tpProj is not idempotent on exact data (contradicts theorem tp_proj_idempotent)")
            want = a.copy()
        else:
            want = tm.q2mat(m["out"])
        arg = a.copy()
        got = np.array(al._tp_proj(arg))  # noqa: SLF001
        if got.shape != (dim, dim):
            return [f"oracle: _tp_proj returned shape {got.shape}, expected {(dim, dim)}"]
        if np.abs(got - want).max() > TOL * max(1.0, np.abs(want).max()):
            r, c = np.unravel_index(np.abs(got - want).argmax(), got.shape)
            probs.append(f"corr: _tp_proj entry [{r},{c}] = {got[r, c]:.10g} but the model gives {want[r, c]:.10g}")
        pt = ptrace(got, d)
        if np.abs(pt - np.eye(d)).max() > TOL * max(1.0, np.abs(a).max()):
            probs.append(f"oracle: MLE _tp_proj: the partial trace of the result is not the identity "
                         f"(deviation {np.abs(pt - np.eye(d)).max():.3g})")
        again = np.array(al._tp_proj(got.copy()))  # noqa: SLF001
        if np.abs(again - got).max() > TOL * max(1.0, np.abs(got).max()):
            probs.append("oracle: MLE _tp_proj is not idempotent")
        if not np.array_equal(arg, a):
            probs.append("oracle: MLE _tp_proj modified its argument")
    elif kind == "cp":
        m = ctx.model.call({"op": "ptomo", "kind": "cp_proj", "n": n, "vals": case["vals"], "vecs": case["vecs"]})
        if "error" in m:
            return [f"corr: model refused a cp_proj case: {m['error']}"]
        if not m["unitary"]:
            return ["harness: generated eigenvector matrix is not exactly unitary"]
        a = tm.q2mat(m["A"])
        want = tm.q2mat(m["P"])
        arg = a.copy()
        got = np.array(al._cp_proj(arg))  # noqa: SLF001
        scale = max(1.0, np.abs(a).max())
        if got.shape != (dim, dim):
            return [f"oracle: _cp_proj returned shape {got.shape}, expected {(dim, dim)}"]
        if np.abs(got - want).max() > 1e-8 * scale:
            r, c = np.unravel_index(np.abs(got - want).argmax(), got.shape)
            probs.append(f"corr: _cp_proj entry [{r},{c}] = {got[r, c]:.10g} but the model "
                         f"(vecs diag(max(vals,0)) vecs^dagger) gives {want[r, c]:.10g}")
        if np.abs(got - got.conj().T).max() > 1e-8 * scale:
            probs.append("oracle: MLE _cp_proj: the result is not Hermitian")
        ev = np.linalg.eigvalsh((got + got.conj().T) / 2)
        if ev.min() < -1e-8 * scale:
            probs.append(f"oracle: MLE _cp_proj: the result is not positive semi-definite (eigenvalue {ev.min():.3g})")
        rem = a - got
        evr = np.linalg.eigvalsh((rem + rem.conj().T) / 2)
        if evr.max() > 1e-8 * scale:
            probs.append(f"oracle: MLE _cp_proj removed a part that is not negative semi-definite (eigenvalue {evr.max():.3g}): "
                         "the result is not the nearest positive semi-definite matrix")
        if np.abs(got @ rem).max() > 1e-7 * scale * scale:
            probs.append("oracle: MLE _cp_proj: the part kept and the part removed are not orthogonal")
        if not np.array_equal(arg, a):
            probs.append("oracle: MLE _cp_proj modified its argument")
    elif kind == "step":
        m = ctx.model.call({"op": "ptomo", "kind": "pgdb_step", "n": n, "choi": case["choi"], "proj": case["proj"],
                            "alpha": case["alpha"]})
        if "error" in m:
            return [f"corr: model refused a pgdb_step case: {m['error']}"]
        c0, p0 = tm.q2mat(case["choi"]), tm.q2mat(case["proj"])
        alpha = float(Fraction(case["alpha"]))
        mod = p0 - c0
        out = c0 + alpha * mod
        if np.abs(out - tm.q2mat(m["out"])).max() > TOL * max(1.0, np.abs(out).max()):
            probs.append("corr: choi + alpha*(proj - choi) differs from the model's pgdbStep")
        want_pt = (1 - alpha) * ptrace(c0, d) + alpha * ptrace(p0, d)
        if np.abs(tm.q2mat(m["ptrace_out"]) - want_pt).max() > TOL * max(1.0, np.abs(want_pt).max()):
            probs.append("model: partial trace of a pgdb step is not the convex combination (contradicts pgdb_tp_defect_affine)")
    else:
        a = cptp_start(case)
        arg = a.copy()
        with np.errstate(all="ignore"):
            got = np.array(al._cptp_proj(arg, max_iter=1000))  # noqa: SLF001
        scale = max(1.0, np.abs(a).max())
        if got.shape != (dim, dim):
            return [f"oracle: _cptp_proj returned shape {got.shape}, expected {(dim, dim)}"]
        if not np.all(np.isfinite(got)):
            return ["oracle: MLE _cptp_proj returned non-finite entries"]
        ev = np.linalg.eigvalsh((got + got.conj().T) / 2)
        if ev.min() < -1e-8 * scale or np.abs(got - got.conj().T).max() > 1e-8 * scale:
            probs.append(f"oracle: MLE _cptp_proj: the result is not a positive semi-definite matrix "
                         f"(smallest eigenvalue {ev.min():.3g})")
        dev = np.abs(ptrace(got, d) - np.eye(d)).max()
        # Trace preservation of the result is NOT exact (the loop ends on the CP step).  When the loop ends by its
        # stopping test, ||x_k - y_k||_F = ||q_0 - q_k||_F < 1e-2 with y_k exactly trace preserving, hence every entry
        # of the partial trace is within sqrt(d) * 1e-2 of the identity; when the iteration cap (1000) ends it there is
        # no bound at all.  The clause is therefore evaluated only for starts next to the CPTP set, where Dykstra's
        # iteration stops within a few passes; elsewhere the deviation is recorded, not judged.
        if case["start"] in ("cptp-point", "near"):
            if dev > math.sqrt(d) * 1.0e-2 * 1.05 + 1e-9:
                probs.append(f"oracle: MLE _cptp_proj: the result is not trace preserving within the stopping tolerance "
                             f"(partial trace deviates from the identity by {dev:.3g}, start next to the CPTP set)")
        else:
            ctx.count("proj:cptp:tp-deviation>1e-2" if dev > 1e-2 else "proj:cptp:tp-deviation<=1e-2")
        if case["start"] == "cptp-point" and np.abs(got - a).max() > 1e-6:
            probs.append(f"oracle: MLE _cptp_proj moved a matrix that is already CPTP by {np.abs(got - a).max():.3g}")
        if not np.array_equal(arg, a):
            probs.append("oracle: MLE _cptp_proj modified its argument")
    return probs


DIRECTED = [
    {"stream": "proj", "kind": "tp", "n": 1, "shape": "dense",
     "A": [["1,0", "0,1", "0,0", "2,0"], ["0,0", "1/2,0", "3,0", "0,0"], ["0,0", "0,0", "1,0", "0,0"], ["1,0", "0,0", "0,0", "5,0"]]},
    {"stream": "proj", "kind": "cp", "n": 1, "spectrum": "mixed", "vals": ["-1", "2", "0", "-1/3"],
     "vecs": mat_str([[g(Fraction(3, 5)), g(Fraction(-4, 5)), g(0), g(0)], [g(Fraction(4, 5)), g(Fraction(3, 5)), g(0), g(0)],
                      [g(0), g(0), g(0, 1), g(0)], [g(0), g(0), g(0), g(1)]])},
    {"stream": "proj", "kind": "cptp", "n": 1, "start": "far", "seed": 7, "scale": "1"},
    {"stream": "proj", "kind": "cptp", "n": 2, "start": "near", "seed": 11, "scale": "1"},
    {"stream": "proj", "kind": "cptp", "n": 1, "start": "cptp-point", "seed": 3, "scale": "1"},
]


def run_stream(ctx: Ctx, rng, n_cases: int, report) -> None:
    missing = helpers_present()
    if missing:
        ctx.count("proj:skipped-private-helper-missing")
        ctx.notes.append("proj stream skipped: MLETomographyAlgorithm no longer has " + ", ".join(missing)
                         + " (private helpers; the end-to-end MLE clauses remain)")
        return
    cases = list(DIRECTED) + [None] * n_cases
    for case in cases:
        if ctx.out_of_time():
            break
        if case is None:
            case = gen_case(rng, ctx)
        probs = run_case(ctx, case)
        ctx.count(f"proj:{case['kind']} n={case['n']}")
        sub = case.get("shape") or case.get("spectrum") or case.get("start")
        if sub:
            ctx.count(f"proj:{case['kind']}:{sub}")
        ctx.case(json.dumps(case, sort_keys=True)[:4000], case["kind"] != "step")
        if probs:
            report(ctx, case, probs)
