"""
Entry point:  main.py <Cxx> <quick|thorough> [--replay <file>]

Order of work for one property:
  1. proof obligations  — build LW.Properties.<Cxx>, forbidden-token grep, axiom audit
                          (a failure here is a machinery fault, exit 2, never a violation)
  2. correspondence     — props/<cxx>.py runs generated cases on lightworks (imported from
                          /repo's working tree) and on the Lean model through the driver
  3. verdict            — VIOLATION lines with a replay, KNOWN-FINDING lines, evidence file
"""

from __future__ import annotations

import importlib
import os
import sys
import traceback

import core


def _start_watchdog(repo: str, limit: float) -> None:
    """If the main thread has made no progress (no case registered, no model call, no counter) for `limit`
    seconds AND is currently executing code of the implementation under test, interrupt it: a call into
    lightworks that does not return is reported like an unexpected exception raised there.  Slow harness or
    model code is never interrupted (the time caps handle that)."""
    import signal
    import threading
    import time as _t

    impl_root = os.path.realpath(os.path.join(repo, "lightworks")) + os.sep
    main_id = threading.main_thread().ident

    def on_signal(signum, frame):  # noqa: ARG001
        raise core.ImplementationStall(f"the implementation has not returned for more than {limit:.0f} s")

    signal.signal(signal.SIGUSR1, on_signal)

    def watch() -> None:
        while True:
            _t.sleep(5)
            if _t.time() - core._PROGRESS[0] < limit:
                continue
            fr = sys._current_frames().get(main_id)
            inside = False
            while fr is not None:
                if os.path.realpath(fr.f_code.co_filename).startswith(impl_root):
                    inside = True
                    break
                if fr.f_code.co_filename.startswith(os.path.dirname(os.path.abspath(__file__))):
                    break  # innermost harness frame reached without passing through the implementation
                fr = fr.f_back
            if inside:
                core.heartbeat()
                signal.pthread_kill(main_id, signal.SIGUSR1)

    threading.Thread(target=watch, daemon=True).start()


def main() -> int:
    args = [a for a in sys.argv[1:]]
    if len(args) < 1:
        print("usage: check <Cxx> [quick|thorough] [--replay file]")
        return 2
    prop = args[0]
    tier = os.environ.get("VERIF_TIER") or (args[1] if len(args) > 1 and not args[1].startswith("--") else "quick")
    if len(args) > 1 and args[1] in ("quick", "thorough"):
        tier = args[1]
    replay = None
    if "--replay" in args:
        replay = args[args.index("--replay") + 1]
        # a replay runs under the string-hash seed of the run that recorded it
        try:
            import json

            hs = json.load(open(replay)).get("pythonhashseed")
        except Exception:  # noqa: BLE001
            hs = None
        if hs is not None and os.environ.get("PYTHONHASHSEED") != str(hs) and not os.environ.get("VERIF_REEXEC"):
            os.execve(sys.executable, [sys.executable, "-B", *sys.argv],
                      dict(os.environ, PYTHONHASHSEED=str(hs), VERIF_REEXEC="1"))
    ctx = core.Ctx(prop, tier)
    repo = os.environ.get("LW_REPO", "/repo")
    _start_watchdog(repo, 600 if ctx.thorough else 150)
    # line coverage of the implementation (started before lightworks is imported so that module-level
    # statements are not reported as missing)
    cov = core.ImplCoverage(prop, repo) if (ctx.thorough or os.environ.get("VERIF_COVERAGE")) and not replay else None
    if cov:
        cov.start()
    try:
        mod = importlib.import_module(f"props.{prop.lower()}")
        audit = core.proof_audit(prop, thorough=ctx.thorough and getattr(mod, "LEANCHECKER", True))
        # the implementation under test must be the one in /repo's working tree
        import lightworks

        if not os.path.realpath(lightworks.__file__).startswith(os.path.realpath(repo) + os.sep):
            raise core.MachineryFault(f"lightworks imported from {lightworks.__file__}, not from {repo}")
        try:
            if replay:
                mod.replay(ctx, replay)
            else:
                import time as _t

                t_pass = _t.time()
                mod.run(ctx)
                dur = _t.time() - t_pass
                # the code the model mirrors differs from the pins: further passes with fresh random streams
                # while no violation has been found and a whole pass still fits into the time budget
                budget = float(os.environ.get("VERIF_BUDGET_S") or (1500 if ctx.thorough else 300))
                k = 0
                while (k < ctx.escalation and not ctx.violations and not ctx.thorough
                       and (_t.time() - ctx.t0) + 1.2 * dur < budget):
                    k += 1
                    ctx.reseed(k)
                    mod.run(ctx)
        finally:
            if cov:
                ctx.extra["impl_line_coverage"] = cov.stop()
        return ctx.finish(audit, getattr(mod, "TRUSTED", []), getattr(mod, "ASSUMPTIONS", []))
    except core.MachineryFault as e:
        print(f"MACHINERY-FAULT property={prop}: {e}", flush=True)
        return 2
    except (Exception, core.ImplementationStall):  # noqa: BLE001
        traceback.print_exc()
        if ctx.violations and "audit" in locals() and "mod" in locals():
            # violations with concrete replays were already reported before the harness tripped (e.g. over
            # a nan produced by the broken code): the verdict stands
            ctx.notes.append("the harness raised after reporting violations: " + traceback.format_exc()[-300:])
            return ctx.finish(audit, getattr(mod, "TRUSTED", []), getattr(mod, "ASSUMPTIONS", []))
        # an exception the harness did not anticipate, raised INSIDE the implementation under test (innermost
        # frame in $LW_REPO/lightworks): the implementation refused or crashed on a generated case that the model
        # and the unchanged code handle.  That breaks the correspondence; no minimal input was isolated.
        import sys as _sys

        tb = _sys.exc_info()[2]
        inner = None
        while tb is not None:
            inner = tb.tb_frame.f_code.co_filename
            tb = tb.tb_next
        impl_root = os.path.realpath(os.path.join(repo, "lightworks")) + os.sep
        if inner and os.path.realpath(inner).startswith(impl_root) and "audit" in locals() and "mod" in locals():
            what = ("the implementation raised an exception the check does not expect on a generated case: "
                    + traceback.format_exc().strip().splitlines()[-1][:200])
            ctx.violation(what, {"correspondence": "model/implementation correspondence of " + prop,
                                 "traceback_tail": traceback.format_exc()[-1500:],
                                 "theorems_no_longer_tied_to_code": audit.get("theorems", [])},
                          sig={"kind": "unexpected-implementation-exception"}, found_input=False)
            return ctx.finish(audit, getattr(mod, "TRUSTED", []), getattr(mod, "ASSUMPTIONS", []))
        print(f"MACHINERY-FAULT property={prop}: unexpected exception in the harness", flush=True)
        return 2


if __name__ == "__main__":
    sys.exit(main())
