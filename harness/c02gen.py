"""
Generation helpers used only by props/c02.py.

  * CALL FORMS.  circgen.apply_op issues every public call in one fixed shape (herald(n, i, o),
    bs(m1, m2, reflectivity=…, loss=…, convention=…), add(sub, m, group=g) …).  An op may carry
    {"form": name} in its trailing dict (ignored by the driver, which reads the positional, fully
    resolved arguments): `apply_op` below then issues the SAME call in another accepted shape -
    optional arguments omitted (so that the library fills in its defaults), passed as None, passed by
    keyword, in another keyword order.  The resolved arguments sent to the model are what the
    documentation says the default means in USER mode numbers (herald(n, m) = herald(n, m, m);
    bs(m) = bs(m, m + 1); add(sub) = add(sub, 0); barrier() = all user modes; loss(m) = loss(m, 0)).
  * LAYOUT TRACKING.  `Lay` follows, for every circuit of a program, which full-mode positions are
    private ancillas (the library's bookkeeping of `add`, transcribed; used to steer the generation
    towards prescribed layouts and to label coverage - never as an oracle).
  * HISTORIES.  `History` builds programs in which a parent first ACQUIRES private ancillas (one, two,
    three; ascending / descending order of placement; adjacent; at position 0; at the last position;
    pure-ancilla sub-circuits) and then receives public calls at user modes below / between / above
    them, in every call form, plus nesting with mixed grouping flags.
"""

from __future__ import annotations

import math
from fractions import Fraction

import circgen as cg
from core import CIRCLE, GQ, PYTH, exc_class

# --------------------------------------------------------------------------- call forms


def form_of(op: list) -> str | None:
    return op[-1].get("form") if isinstance(op[-1], dict) else None


def set_form(op: list, form: str | None) -> list:
    if form is None:
        return op
    if isinstance(op[-1], dict):
        op[-1]["form"] = form
    else:
        op.append({"form": form})
    return op


def _extras(op: list) -> dict:
    return op[-1] if isinstance(op[-1], dict) else {}


def forms_for(op: list) -> list[str]:
    """call shapes in which this op can be issued without changing its documented meaning"""
    name = op[0]
    ex = _extras(op)
    if name == "herald":
        fs = ["pos3", "kw", "kw_out", "kw_rev"]
        if op[3] == op[4]:
            fs += ["one", "none", "kw_one", "one", "kw_one"]
        return fs
    if name == "bs":
        fs = ["pos", "kw"]
        adj = isinstance(op[2], int) and op[3] == op[2] + 1
        plain = op[7] is None and "loss" not in ex and op[6] == "Rx" and "conv" not in ex
        if adj:
            fs += ["m2_default", "m2_none", "kw_m1", "m2_default"]
        if plain:
            fs.append("min")
            if adj:
                fs += ["min_m1", "min_m1"]
        return fs
    if name == "ps":
        fs = ["pos", "kw"]
        if op[4] is None and "loss" not in ex:
            fs.append("min")
        return fs
    if name == "loss":
        fs = ["pos", "kw"]
        if Fraction(op[4]) == 0 and "loss" not in ex:
            fs += ["default", "default"]
        return fs
    if name == "barrier":
        return ["kw"] + (["noarg", "noarg"] if op[2] is None else [])
    if name == "swaps":
        return ["kw"]
    if name == "add":
        fs = ["pos", "kw", "named", "kw_named"]
        if op[4] is False:
            fs.append("mode_only")
            if op[3] == 0:
                fs += ["default", "default"]
        if op[3] == 0:
            fs.append("kw_group")
        return fs
    return []


def decorate(ctx, rng, op: list, p: float = 0.6, only: list[str] | None = None) -> list:
    """attach a random applicable call form with probability p (or one of `only` if applicable)"""
    fs = forms_for(op)
    if only is not None:
        fs = [f for f in fs if f in only]
    if fs and (only is not None or rng.random() < p):
        f = rng.choice(fs)
        set_form(op, f)
        ctx.count(f"form:{op[0]}:{f}")
    return op


def _loss_val(lossab, extras):
    if "loss" in extras:
        return extras["loss"]
    if lossab is None:
        return 0
    return float(Fraction(lossab[1]) ** 2)


def apply_op(pool: dict, op: list) -> str:
    """circgen.apply_op with the call issued in the shape named by the op's form"""
    form = form_of(op)
    if form is None:
        return cg.apply_op(pool, op)
    name = op[0]
    ex = _extras(op)
    try:
        c = pool[op[1]]
        if name == "herald":
            n, i, o = op[2], op[3], op[4]
            if form in ("one", "none", "kw_one"):
                assert i == o, f"form {form} needs input_mode == output_mode"
            if form == "pos3":
                c.herald(n, i, o)
            elif form == "one":
                c.herald(n, i)
            elif form == "none":
                c.herald(n, i, None)
            elif form == "kw":
                c.herald(n_photons=n, input_mode=i, output_mode=o)
            elif form == "kw_one":
                c.herald(n_photons=n, input_mode=i)
            elif form == "kw_out":
                c.herald(n, i, output_mode=o)
            elif form == "kw_rev":
                c.herald(output_mode=o, input_mode=i, n_photons=n)
            else:
                raise AssertionError(f"unknown herald form {form}")
        elif name == "bs":
            _, _cid, m1, m2, cc, _s, conv, lossab, _rv, _lv, *_ = op
            refl = ex.get("refl", float(Fraction(cc) ** 2))
            loss = _loss_val(lossab, ex)
            conv = ex.get("conv", conv)
            if form in ("m2_default", "m2_none", "kw_m1", "min_m1"):
                assert m2 == m1 + 1, f"form {form} needs mode_2 == mode_1 + 1"
            if form in ("min", "min_m1"):
                assert loss == 0 and conv == "Rx", f"form {form} needs the default loss and convention"
            if form == "pos":
                c.bs(m1, m2, refl, loss, conv)
            elif form == "kw":
                c.bs(convention=conv, loss=loss, reflectivity=refl, mode_2=m2, mode_1=m1)
            elif form == "m2_default":
                c.bs(m1, reflectivity=refl, loss=loss, convention=conv)
            elif form == "m2_none":
                c.bs(m1, None, refl, loss, conv)
            elif form == "kw_m1":
                c.bs(mode_1=m1, reflectivity=refl, loss=loss, convention=conv)
            elif form == "min":
                c.bs(m1, m2, refl)
            elif form == "min_m1":
                c.bs(m1, reflectivity=refl)
            else:
                raise AssertionError(f"unknown bs form {form}")
        elif name == "ps":
            _, _cid, m, p, lossab, _lv, *_ = op
            g = GQ.parse(p)
            phi = math.atan2(float(g.im), float(g.re))
            loss = _loss_val(lossab, ex)
            if form == "pos":
                c.ps(m, phi, loss)
            elif form == "kw":
                c.ps(loss=loss, phi=phi, mode=m)
            elif form == "min":
                assert loss == 0
                c.ps(m, phi)
            else:
                raise AssertionError(f"unknown ps form {form}")
        elif name == "loss":
            _, _cid, m, _a, b, _lv, *_ = op
            val = ex.get("loss", float(Fraction(b) ** 2))
            if form == "pos":
                c.loss(m, val)
            elif form == "kw":
                c.loss(loss=val, mode=m)
            elif form == "default":
                assert val == 0
                c.loss(m)
            else:
                raise AssertionError(f"unknown loss form {form}")
        elif name == "barrier":
            if form == "noarg":
                assert op[2] is None
                c.barrier()
            elif form == "kw":
                c.barrier(modes=op[2])
            else:
                raise AssertionError(f"unknown barrier form {form}")
        elif name == "swaps":
            assert form == "kw"
            c.mode_swaps(swaps={k: v for k, v in op[2]})
        elif name == "add":
            sub, m, g = pool[op[2]], op[3], op[4]
            if form == "pos":
                c.add(sub, m, g)
            elif form == "kw":
                c.add(group=g, mode=m, circuit=sub)
            elif form == "named":
                c.add(sub, m, g, "blk")
            elif form == "kw_named":
                c.add(sub, mode=m, name="blk", group=g)
            elif form == "mode_only":
                assert g is False
                c.add(sub, m)
            elif form == "default":
                assert g is False and m == 0
                c.add(sub)
            elif form == "kw_group":
                assert m == 0
                c.add(sub, group=g)
            else:
                raise AssertionError(f"unknown add form {form}")
        else:
            raise AssertionError(f"op {name} has no call forms")
    except AssertionError:
        raise
    except Exception as e:  # noqa: BLE001
        return exc_class(e)
    return "ok"


# --------------------------------------------------------------------------- layout tracking


class Lay:
    """where the private ancillas of a circuit sit (full-mode positions), and which USER modes carry
    a declared herald.  User mode numbers never change; full positions do."""

    def __init__(self, n: int) -> None:
        self.n = n  # user modes
        self.anc: list[int] = []  # full positions, in order of creation (the library keeps them so)
        self.hin: set[int] = set()  # user modes with a declared input herald
        self.hout: set[int] = set()

    def map(self, u: int) -> int:
        for i in sorted(self.anc):
            if u >= i:
                u += 1
        return u

    @property
    def total(self) -> int:
        return self.n + len(self.anc)

    def free(self) -> int:
        return self.n - len(self.hin)

    def herald_positions(self) -> list[int]:
        """full positions of all input heralds (declared ones and ancillas)"""
        return sorted(set(self.anc) | {self.map(u) for u in self.hin})

    def add(self, sub: "Lay", m: int) -> None:
        mode = self.map(m)
        sh = sub.herald_positions()
        stot = sub.total
        # the parent's existing ancillas are threaded through the added circuit ...
        for i in sorted(self.anc):
            t = i - mode
            for h in sorted(sh):
                if t > h:
                    t += 1
            if 0 <= t < stot:
                sh = [h + 1 if h >= t else h for h in sh]
                stot += 1
        # ... and its heralds become new ancillas of the parent
        for h in sorted(sh):
            self.anc = [x + 1 if x >= mode + h else x for x in self.anc]
            self.anc.append(mode + h)

    def pattern(self) -> str:
        a = set(self.anc)
        return "".join("a" if k in a else "u" for k in range(self.total))

    def pos_class(self, u: int) -> str:
        if not self.anc:
            return "no-ancilla"
        if not 0 <= u < self.n:
            return "out-of-range"
        f = self.map(u)
        if f < min(self.anc):
            return "below"
        if f > max(self.anc):
            return "above"
        return "between"

    def copy(self) -> "Lay":
        x = Lay(self.n)
        x.anc, x.hin, x.hout = list(self.anc), set(self.hin), set(self.hout)
        return x


# --------------------------------------------------------------------------- histories

NT_PYTH = [(c, s) for c, s in PYTH if 0 < c < 1]  # beam splitters that really mix
NT_CIRCLE = [g for g in CIRCLE if g.im != 0]  # phases that are not +-1
SHAPES = ["hu", "uh", "huh", "uhh", "hhu", "h", "uhu", "hh", "uuh", "huu"]

# (user modes of the parent, [(shape of the heralded sub-circuit, user mode it is added at), ...])
LAYOUTS = [
    (3, [("hu", 1)]),                          # u a u u      one ancilla in the middle
    (3, [("hu", 0)]),                          # a u u u      ancilla at position 0
    (3, [("uh", 2)]),                          # u u u a      ancilla at the last position
    (1, [("hu", 0)]),                          # a u
    (1, [("uh", 0)]),                          # u a
    (3, [("uh", 0), ("uh", 1)]),               # u a u a u    two, placed in ascending order
    (3, [("uh", 1), ("uh", 0)]),               # u a u a u    two, placed in descending order
    (4, [("hu", 3), ("hu", 0)]),               # a u u u a u  descending, first and (nearly) last
    (3, [("uhh", 1)]),                         # u u a a u    adjacent ancillas from one sub-circuit
    (3, [("uh", 0), ("hu", 1)]),               # u a a u u    adjacent ancillas from two additions
    (2, [("huh", 0)]),                         # a u a u
    (2, [("h", 0)]),                           # a u u        sub-circuit without user modes
    (2, [("h", 1), ("h", 0), ("uh", 1)]),      # a u a u a    ancillas everywhere
    (4, [("uhu", 1)]),                         # u u a u u
    (4, [("uhu", 1), ("uhu", 0)]),             # second addition spans the first ancilla
    (4, [("uh", 3), ("hu", 0), ("uhu", 1)]),   # a u u a u u a  first / inside / last
    (5, [("uhh", 3), ("hhu", 0)]),             # a a u u u u a a
    (2, [("uh", 1), ("uh", 1), ("hu", 0)]),    # three ancillas, same place twice
]


class History:
    def __init__(self, ctx, rng) -> None:
        self.ctx = ctx
        self.rng = rng
        self.prog: list = []
        self.lay: dict[str, Lay] = {}
        self.k = 0
        self.probes: list[tuple[str, str]] = []  # (kind, position class) of calls made on a parent with ancillas

    # -- plumbing
    def fresh(self) -> str:
        self.k += 1
        return f"c{self.k}"

    def ids(self) -> list[str]:
        return list(self.lay)

    def new(self, n: int) -> str:
        cid = self.fresh()
        self.prog.append(["new", cid, n])
        self.lay[cid] = Lay(n)
        return cid

    def emit(self, op: list, only: list[str] | None = None, p: float = 0.7, kind: str | None = None,
             at: int | None = None) -> list:
        decorate(self.ctx, self.rng, op, p=p, only=only)
        self.prog.append(op)
        lay = self.lay.get(op[1])
        if kind and lay is not None and lay.anc:
            pc = lay.pos_class(at) if at is not None else "all"
            self.ctx.count(f"probe:{kind}:{pc}")
            f = form_of(op)
            if f and only is not None:  # a call shape chosen on purpose (defaults omitted etc.): form x position
                self.ctx.count(f"probe:{kind}:{f}:{pc}")
        return op

    # -- content
    def fill(self, cid: str, rounds: int = 1, lossy: bool = False) -> None:
        """generic interior that mixes all user modes, so that any mis-wiring shows in the matrix"""
        rng = self.rng
        n = self.lay[cid].n
        for _ in range(rounds):
            for m in range(n - 1):
                c, s = rng.choice(NT_PYTH)
                self.emit(cg.op_bs(cid, m, m + 1, c, s, rng.choice(["Rx", "H"])), p=0.3)
            for m in range(n):
                if rng.random() < 0.7:
                    self.emit(cg.op_ps(cid, m, rng.choice(NT_CIRCLE)), p=0.3)
            if lossy and rng.random() < 0.5:
                a, b = rng.choice(NT_PYTH)
                self.emit(cg.op_loss(cid, rng.randrange(n), a, b), p=0.3)

    def herald(self, cid: str, i: int, o: int, n: int | None = None, only: list[str] | None = None,
               kind: str | None = None) -> None:
        if n is None:
            n = self.rng.choice([0, 1, 1, 2])
        lay = self.lay[cid]
        self.emit(["herald", cid, n, i, o], only=only, kind=kind, at=i)
        if 0 <= i < lay.n and 0 <= o < lay.n and i not in lay.hin and o not in lay.hout:
            lay.hin.add(i)
            lay.hout.add(o)

    def sub(self, shape: str, wiring: str | None = None) -> str:
        """a sub-circuit with input heralds on the 'h' positions of `shape`"""
        rng = self.rng
        sid = self.new(len(shape))
        self.fill(sid, rounds=rng.choice([1, 1, 1, 2]), lossy=rng.random() < 0.15)
        hs = [k for k, ch in enumerate(shape) if ch == "h"]
        wiring = wiring or rng.choice(["same", "same", "perm", "any"])
        if wiring == "same" or (wiring == "perm" and len(hs) < 2):
            outs = list(hs)
        elif wiring == "perm":
            outs = hs[1:] + hs[:1]
        else:
            outs = rng.sample(range(len(shape)), len(hs))
        ns = [rng.choice([0, 1, 1, 2]) for _ in hs]
        if len(hs) >= 2 and len(set(ns)) == 1:
            ns[0] = (ns[0] + 1) % 3
        order = list(range(len(hs)))
        rng.shuffle(order)  # declaration order is arbitrary
        for k in order:
            self.herald(sid, hs[k], outs[k], ns[k])
        self.ctx.count(f"sub_wiring:{wiring}")
        return sid

    def add(self, pid: str, sid: str, m: int, group: bool | None = None, only: list[str] | None = None,
            kind: str | None = None) -> None:
        rng = self.rng
        lp, ls = self.lay[pid], self.lay[sid]
        if group is None:
            group = rng.random() < 0.5
        self.emit(["add", pid, sid, m, group], only=only, kind=kind, at=m)
        if 0 <= m and m + ls.free() <= lp.n and m < lp.n:
            lp.add(ls, m)

    def build_parent(self, n: int, steps: list[tuple[str, int]], pre_herald: bool = False) -> str:
        rng = self.rng
        pid = self.new(n)
        self.fill(pid)
        if pre_herald and n >= 2:
            i = rng.randrange(n)
            self.herald(pid, i, rng.choice([i, rng.randrange(n)]))
        for shape, m in steps:
            self.add(pid, self.sub(shape), m)
            if rng.random() < 0.3:
                self.fill(pid)
        lay = self.lay[pid]
        self.ctx.count(f"layout:{len(lay.anc)}-ancillas")
        if lay.anc:
            if 0 in lay.anc:
                self.ctx.count("layout:ancilla-at-0")
            if lay.total - 1 in lay.anc:
                self.ctx.count("layout:ancilla-last")
            if any(a + 1 in lay.anc for a in lay.anc):
                self.ctx.count("layout:adjacent-ancillas")
            if lay.anc != sorted(lay.anc):
                self.ctx.count("layout:created-out-of-ascending-order")
        return pid

    # -- probes: public calls on a parent that owns ancillas
    def probe_bs_default(self, pid: str, m: int) -> None:
        c, s = self.rng.choice(NT_PYTH)
        lossy = self.rng.random() < 0.12
        op = cg.op_bs(pid, m, m + 1, c, s, self.rng.choice(["Rx", "Rx", "H"]),
                      self.rng.choice(NT_PYTH) if lossy else None)
        self.emit(op, only=["m2_default", "m2_none", "kw_m1", "min_m1"], kind="bs-default-mode_2", at=m)

    def probe_bs(self, pid: str, m1: int, m2: int) -> None:
        c, s = self.rng.choice(NT_PYTH)
        self.emit(cg.op_bs(pid, m1, m2, c, s, self.rng.choice(["Rx", "H"])), kind="bs", at=m1)

    def probe_ps(self, pid: str, m: int) -> None:
        lossy = self.rng.random() < 0.12
        self.emit(cg.op_ps(pid, m, self.rng.choice(NT_CIRCLE), self.rng.choice(NT_PYTH) if lossy else None),
                  kind="ps", at=m)

    def probe_loss(self, pid: str, m: int) -> None:
        if self.rng.random() < 0.4:
            self.emit(cg.op_loss(pid, m, Fraction(1), Fraction(0)), only=["default"], kind="loss-default", at=m)
        else:
            a, b = self.rng.choice(NT_PYTH)
            self.emit(cg.op_loss(pid, m, a, b), kind="loss", at=m)

    def probe_barrier(self, pid: str) -> None:
        n = self.lay[pid].n
        if self.rng.random() < 0.5:
            self.emit(["barrier", pid, None], only=["noarg"], kind="barrier-default")
        else:
            ms = [m for m in range(n) if self.rng.random() < 0.7]
            self.emit(["barrier", pid, ms], kind="barrier-list")

    def probe_swaps(self, pid: str) -> None:
        rng = self.rng
        n = self.lay[pid].n
        if n < 2:
            self.emit(["swaps", pid, []], kind="swaps")
            return
        modes = rng.sample(range(n), rng.randint(2, n))
        tgt = modes[1:] + modes[:1]
        pairs = [[a, b] for a, b in zip(modes, tgt)]
        rng.shuffle(pairs)
        self.emit(["swaps", pid, pairs], kind="swaps", at=min(modes))

    def probe_prims(self, pid: str, every: bool) -> None:
        rng = self.rng
        n = self.lay[pid].n
        ms = list(range(n))
        rng.shuffle(ms)
        for m in ms:
            if every or rng.random() < 0.5:
                self.probe_bs_default(pid, m)  # m = n - 1: mode_2 = n is not a user mode -> rejected
            if every or rng.random() < 0.4:
                self.probe_ps(pid, m)
            if every or rng.random() < 0.3:
                self.probe_loss(pid, m)
            if n >= 2 and rng.random() < 0.3:
                self.probe_bs(pid, m, rng.choice([x for x in range(n) if x != m]))
        self.probe_barrier(pid)
        self.probe_swaps(pid)
        if every:
            self.probe_barrier(pid)

    def probe_heralds_one(self, pid: str, every: bool) -> None:
        """herald(n, m): the output mode defaults to the input mode"""
        rng = self.rng
        lay = self.lay[pid]
        ms = [m for m in range(lay.n) if m not in lay.hin and m not in lay.hout]
        rng.shuffle(ms)
        if not every and len(ms) > 1:
            ms = ms[: rng.randint(1, len(ms))]
        for m in ms:
            self.herald(pid, m, m, only=["one", "none", "kw_one"], kind="herald-one-mode")
        if ms and rng.random() < 0.5:  # a second herald on the same mode is rejected
            self.herald(pid, ms[0], ms[0], only=["one", "none", "kw_one"], kind="herald-one-mode-duplicate")

    def probe_heralds_two(self, pid: str, every: bool) -> None:
        rng = self.rng
        lay = self.lay[pid]
        ins = [m for m in range(lay.n) if m not in lay.hin]
        outs = [m for m in range(lay.n) if m not in lay.hout]
        rng.shuffle(ins)
        rng.shuffle(outs)
        k = min(len(ins), len(outs))
        if not every and k > 1:
            k = rng.randint(1, k)
        for i, o in zip(ins[:k], outs[:k]):
            self.herald(pid, i, o, only=["pos3", "kw", "kw_out", "kw_rev"] if rng.random() < 0.8 else None,
                        kind="herald-two-mode" if i != o else "herald-two-mode-equal")

    def probe_adds(self, pid: str, every: bool) -> None:
        rng = self.rng
        lay = self.lay[pid]
        n = lay.n
        # add(sub): the mode defaults to user mode 0
        q = rng.randint(1, n)
        sid = self.new(q)
        self.fill(sid)
        self.add(pid, sid, 0, group=False, only=["default"], kind="add-default-mode")
        starts = list(range(n))
        rng.shuffle(starts)
        for m in starts if every else starts[:2]:
            q = rng.randint(1, n - m)
            r = rng.random()
            if r < 0.35:
                sid = self.new(q)
                self.fill(sid)
                kind = "add-plain"
            elif r < 0.55 and q >= 2:
                sid = self.fresh()
                self.prog.append(["unitary", sid, cg.mat_json(cg.exact_unitary(rng, q, depth=2 * q))])
                self.lay[sid] = Lay(q)
                kind = "add-unitary"
            else:
                shape = ["u"] * q
                for _ in range(rng.randint(1, 2)):
                    shape.insert(rng.randint(0, len(shape)), "h")
                sid = self.sub("".join(shape))
                kind = "add-heralded"
            self.add(pid, sid, m, kind=kind)
        if rng.random() < 0.5:
            self.emit(["add", pid, sid, n, False], kind="add-out-of-range", at=n)
        # one user mode too many for the place it is added at (whatever ancillas trail the span): rejected
        for m in starts[:2] if every else starts[:1]:
            big = self.new(n - m + 1)
            self.fill(big)
            self.emit(["add", pid, big, m, rng.random() < 0.5], kind="add-oversize", at=m)
        # keyword-only group with the default mode
        sid = self.new(rng.randint(1, n))
        self.fill(sid)
        self.add(pid, sid, 0, only=["kw_group", "default", "kw"], kind="add-default-mode")

    def probe_range(self, pid: str) -> None:
        """mode numbers n_user .. n_modes - 1 exist internally but are not user modes: every call rejects them"""
        rng = self.rng
        n = self.lay[pid].n
        for bad in (n, -1, n + len(self.lay[pid].anc) - 1 if len(self.lay[pid].anc) > 1 else n + 1):
            r = rng.randrange(6)
            if r == 0:
                self.herald(pid, bad, bad, only=["one", "kw_one", "none"], kind="range")
            elif r == 1:
                self.herald(pid, 0, bad, kind="range")
            elif r == 2:
                c, s = rng.choice(NT_PYTH)
                self.emit(cg.op_bs(pid, bad, bad + 1, c, s), kind="range", at=bad)
            elif r == 3:
                self.emit(cg.op_ps(pid, bad, rng.choice(NT_CIRCLE)), kind="range", at=bad)
            elif r == 4:
                self.emit(["barrier", pid, [0, bad]], kind="range", at=bad)
            else:
                self.emit(["swaps", pid, [[0, bad], [bad, 0]]], kind="range", at=bad)
        self.fill(pid)  # and the circuit is still usable afterwards

    def nest(self, pid: str) -> str:
        """the parent (ancillas and declared heralds included) is itself added to a larger circuit"""
        rng = self.rng
        q = self.lay[pid].free()
        n = q + rng.randint(0, 2)
        gp = self.new(max(n, 1))
        self.fill(gp)
        if rng.random() < 0.5 and n >= 1:
            m0 = rng.randrange(n)
            self.add(gp, self.sub(rng.choice(["hu", "uh", "h"]) if n - m0 >= 1 else "h"), m0)
        m = rng.randint(0, max(0, min(self.lay[gp].n - q, self.lay[gp].n - 1)))
        self.add(gp, pid, m, kind="add-parent-with-ancillas")
        if self.lay[gp].n >= 1:
            self.probe_prims(gp, every=False)
        return gp

    def copy(self, pid: str) -> str:
        cid = self.fresh()
        self.prog.append(["copy", cid, pid])
        self.lay[cid] = self.lay[pid].copy()
        self.ctx.count("copy_of_parent_with_ancillas")
        return cid


PROBE_GROUPS = ["prims", "heralds_one", "heralds_two", "adds", "range"]


def directed_history(ctx, rng, layout, group: str) -> tuple[list, list]:
    h = History(ctx, rng)
    n, steps = layout
    pid = h.build_parent(n, steps)
    ctx.count(f"directed:{group}")
    if group == "prims":
        h.probe_prims(pid, every=True)
    elif group == "heralds_one":
        h.probe_heralds_one(pid, every=True)
        h.fill(pid)
    elif group == "heralds_two":
        h.probe_heralds_two(pid, every=True)
        h.fill(pid)
    elif group == "adds":
        h.probe_adds(pid, every=True)
    else:
        h.probe_range(pid)
    return h.prog, h.ids()


def random_layout(rng) -> tuple[int, list]:
    n = rng.choice([1, 2, 2, 3, 3, 3, 4, 4, 5])
    steps = []
    for _ in range(rng.randint(1, 3)):
        shape = rng.choice(SHAPES)
        q = shape.count("u")
        if q > n:
            shape = rng.choice(["h", "hu", "uh"])
            q = shape.count("u")
        steps.append((shape, rng.randint(0, n - q) if q else rng.randint(0, n - 1)))
    return n, steps


def random_history(ctx, rng) -> tuple[list, list]:
    h = History(ctx, rng)
    layout = rng.choice(LAYOUTS) if rng.random() < 0.3 else random_layout(rng)
    pid = h.build_parent(layout[0], layout[1], pre_herald=rng.random() < 0.3)
    target = pid
    if rng.random() < 0.15:
        target = h.copy(pid)  # the calls go to a copy; the original is observed as well
    for _ in range(rng.choice([1, 1, 2])):
        g = rng.choice(PROBE_GROUPS)
        if g == "prims":
            h.probe_prims(target, every=False)
        elif g == "heralds_one":
            h.probe_heralds_one(target, every=False)
        elif g == "heralds_two":
            h.probe_heralds_two(target, every=False)
        elif g == "adds":
            h.probe_adds(target, every=False)
        else:
            h.probe_range(target)
    if rng.random() < 0.35:
        h.nest(target)
    return h.prog, h.ids()


def mixed_group_nesting(ctx, rng, g1: bool, g2: bool, variant: int) -> tuple[list, list]:
    """inner -> middle (group=g1) -> parent (group=g2) at a non-zero / ancilla-shifted mode, the middle
    circuit placed more than once and observed afterwards (it must not have been modified)"""
    h = History(ctx, rng)
    ctx.count(f"mixed_group_nesting:{'G' if g1 else 'g'}{'G' if g2 else 'g'}:v{variant}")
    inner = h.new(rng.randint(2, 3))
    h.fill(inner, rounds=2)
    nm = h.lay[inner].n + rng.randint(0, 1)
    mid = h.new(nm)
    if rng.random() < 0.5:
        h.fill(mid)
    h.add(mid, inner, rng.randint(0, nm - h.lay[inner].n), group=g1)
    if rng.random() < 0.5:
        h.fill(mid)
    top = mid
    if variant == 2:  # one more level, grouped
        top = h.new(nm + 1)
        h.add(top, mid, rng.randint(0, 1), group=not g1)
        h.fill(top)
    nt = h.lay[top].n
    if variant == 1:  # the parent owns ancillas below the placement: user mode 0 is not internal mode 0
        pid = h.build_parent(nt + rng.randint(0, 1), [("hu", 0)] + ([("uh", 1)] if nt >= 2 else []))
    else:
        pid = h.new(nt + rng.randint(1, 2))
        h.fill(pid)
    np_ = h.lay[pid].n
    starts = [m for m in range(np_ - nt + 1)]
    rng.shuffle(starts)
    if variant != 1:
        starts.sort(reverse=True)  # a non-zero mode first
    for m in starts[:2]:
        h.add(pid, top, m, group=g2, kind="add-nested-groups")
    if len(starts) == 1:
        h.add(pid, top, starts[0], group=not g2, kind="add-nested-groups")
    return h.prog, h.ids()
