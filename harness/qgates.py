"""
Helpers shared by the C13 / C12 checks: dual-rail states, the named gates' matrices, evaluation of
the driver's exact tower numbers, heralded amplitude tables of a lightworks circuit.
"""

from __future__ import annotations

import itertools
import math
from fractions import Fraction

import numpy as np

# float values of the tower generators named by the driver (the real/complex embedding under
# which the model's exact numbers are the numbers the code's floats approximate)
GEN_VALUE = {
    "i": 1j,
    "t8": complex(math.cos(math.pi / 4), math.sin(math.pi / 4)),
    "sqrt2": math.sqrt(2.0),
    "sqrt3": math.sqrt(3.0),
    "sqrt7": math.sqrt(7.0),
    "q4": 2.0 ** 0.25,
    "w": math.sqrt(3.0 / math.sqrt(2.0) - 2.0),
}


def basis_values(gens: list[str]) -> np.ndarray:
    """value of each basis monomial; index bit j set <=> generator j (innermost first) present"""
    vals = [GEN_VALUE[g] for g in gens]
    out = []
    for idx in range(1 << len(gens)):
        v = 1.0 + 0j
        for j, g in enumerate(vals):
            if idx >> j & 1:
                v *= g
        out.append(v)
    return np.array(out, dtype=complex)


def tower_value(coeffs: list[str], bvals: np.ndarray) -> complex:
    return complex(sum(float(Fraction(c)) * b for c, b in zip(coeffs, bvals) if c != "0"))


def tower_matrix(rows, gens) -> np.ndarray:
    b = basis_values(gens)
    return np.array([[tower_value(x, b) for x in r] for r in rows], dtype=complex)


# ------------------------------------------------------------------ dual rail


def dual_rail(bits) -> list[int]:
    out: list[int] = []
    for b in bits:
        out += [1, 0] if b == 0 else [0, 1]
    return out


def bit_strings(n: int) -> list[tuple]:
    return list(itertools.product([0, 1], repeat=n))


def is_dual_rail(state) -> bool:
    s = list(state)
    return len(s) % 2 == 0 and all(s[k] + s[k + 1] == 1 for k in range(0, len(s), 2))


def bits_of(state) -> tuple:
    s = list(state)
    return tuple(0 if s[k] == 1 else 1 for k in range(0, len(s), 2))


# ------------------------------------------------------------------ named gates (specification)


def named_single(name: str, par: dict | None = None) -> np.ndarray:
    """textbook matrix of the named single-qubit gate (theta in par where applicable)"""
    par = par or {}
    r = 1 / math.sqrt(2)
    if name == "I":
        return np.eye(2, dtype=complex)
    if name == "H":
        return np.array([[r, r], [r, -r]], dtype=complex)
    if name == "X":
        return np.array([[0, 1], [1, 0]], dtype=complex)
    if name == "Y":
        return np.array([[0, -1j], [1j, 0]])
    if name == "Z":
        return np.diag([1, -1]).astype(complex)
    if name == "S":
        return np.diag([1, 1j])
    if name == "Sadj":
        return np.diag([1, -1j])
    if name == "T":
        return np.diag([1, np.exp(1j * math.pi / 4)])
    if name == "Tadj":
        return np.diag([1, np.exp(-1j * math.pi / 4)])
    if name == "SX":
        return 0.5 * np.array([[1 + 1j, 1 - 1j], [1 - 1j, 1 + 1j]])
    th = par["theta"]
    if name == "P":
        return np.diag([1, np.exp(1j * th)])
    if name == "Rx":
        return np.array([[math.cos(th / 2), -1j * math.sin(th / 2)], [-1j * math.sin(th / 2), math.cos(th / 2)]])
    if name == "Ry":
        return np.array([[math.cos(th / 2), -math.sin(th / 2)], [math.sin(th / 2), math.cos(th / 2)]], dtype=complex)
    if name == "Rz":
        return np.diag([np.exp(-1j * th / 2), np.exp(1j * th / 2)])
    raise KeyError(name)


def named_multi(name: str, target: int | None = None) -> np.ndarray:
    """matrix [out, in] of CZ / CNOT / CCZ / CCNOT / SWAP on the basis bit_strings(n)
    (first bit = first qubit = lowest modes)"""
    nq = 3 if name.startswith("CC") else 2
    basis = bit_strings(nq)
    g = np.zeros((len(basis), len(basis)), dtype=complex)
    for ci, b in enumerate(basis):
        if name in ("CZ", "CZ_Heralded", "CCZ"):
            g[ci, ci] = -1 if all(b) else 1
        elif name in ("CNOT", "CNOT_Heralded", "CCNOT"):
            o = list(b)
            if all(b[k] for k in range(nq) if k != target):
                o[target] ^= 1
            g[basis.index(tuple(o)), ci] = 1
        elif name == "SWAP":
            g[basis.index((b[1], b[0])), ci] = 1
        else:
            raise KeyError(name)
    return g


def qiskit_named(name: str, par: dict | None = None, target: int | None = None):
    """the same matrices from qiskit (reference semantics of the named gates), reordered from
    qiskit's little-endian basis to ours; None when qiskit is unavailable"""
    try:
        from qiskit import QuantumCircuit
        from qiskit.quantum_info import Operator
    except Exception:  # noqa: BLE001
        return None
    par = par or {}
    single = {"I": "id", "H": "h", "X": "x", "Y": "y", "Z": "z", "S": "s", "Sadj": "sdg", "T": "t",
              "Tadj": "tdg", "SX": "sx", "P": "p", "Rx": "rx", "Ry": "ry", "Rz": "rz"}
    if name in single:
        qc = QuantumCircuit(1)
        if name in ("P", "Rx", "Ry", "Rz"):
            getattr(qc, single[name])(par["theta"], 0)
        else:
            getattr(qc, single[name])(0)
        return np.asarray(Operator(qc).data)
    nq = 3 if name.startswith("CC") else 2
    qc = QuantumCircuit(nq)
    if name in ("CZ", "CZ_Heralded"):
        qc.cz(0, 1)
    elif name in ("CNOT", "CNOT_Heralded"):
        qc.cx(1 - target, target)
    elif name == "SWAP":
        qc.swap(0, 1)
    elif name == "CCZ":
        qc.ccz(0, 1, 2)
    elif name == "CCNOT":
        cs = [k for k in range(3) if k != target]
        qc.ccx(cs[0], cs[1], target)
    return qiskit_matrix(qc)


def qiskit_matrix(qc) -> np.ndarray:
    """Operator(qc) in the basis bit_strings(n) with first bit = qubit 0"""
    from qiskit.quantum_info import Operator

    u = np.asarray(Operator(qc).data)
    n = qc.num_qubits
    idx = [sum(b[k] << k for k in range(n)) for b in bit_strings(n)]
    return u[np.ix_(idx, idx)]


# ------------------------------------------------------------------ implementation side


def impl_amplitudes(circ, inputs: list[list[int]]) -> dict:
    """heralded amplitudes {input tuple: {output tuple: amplitude}} from lightworks' Simulator,
    every output the simulator reports (all states with the heralds satisfied)"""
    import lightworks as lw
    from lightworks import emulator as emu

    sim = emu.Simulator(circ)
    res = sim.simulate([lw.State(list(s)) for s in inputs])
    out = {}
    for s in inputs:
        d = res[lw.State(list(s))]
        out[tuple(s)] = {tuple(o): complex(a) for o, a in d.items()}
    return out


def fit_scalar(a: np.ndarray, g: np.ndarray) -> tuple[complex, float]:
    """least-squares common scalar k with a ≈ k·g and the max residual |a − k·g|"""
    den = np.vdot(g.flatten(), g.flatten())
    k = np.vdot(g.flatten(), a.flatten()) / den if den != 0 else 0
    return complex(k), float(np.abs(a - k * g).max())
