"""
Histories over Parameter / ParameterDict / Circuit objects (C10): exact literals, generation,
execution on lightworks, snapshots of the public observables, and the "shadow" rebuild used as the
property oracle (the same construction calls with every Parameter replaced by the plain value it
holds at the time of the read).

An op is a JSON list.  Parameter-related ops are understood by the driver's `c10` handler, every
other op is a circgen op (`new`, `unitary`, `bs`, `ps`, `loss`, `barrier`, `swaps`, `herald`, `add`,
`plus`, `copy`, `unpack`).  Values travel as {"n": "<exact key>", "py": <python number>} or
{"o": <tag>} (non-numeric); the driver reads "n"/"o" only, the implementation gets "py".

Exact-number convention (DESIGN §3.1).  The model needs sqrt/trig results exactly, so
  * reflectivity / loss literals are x = c^2 for a Pythagorean pair (c, s): key = x (a rational),
    views rt = c = sqrt(x), rt1 = s = sqrt(1-x);  out-of-range literals (3/2, -1/4, ...) carry no views;
  * phase literals are phi = atan2(y, x) of a rational circle point g = x + iy: view e = g, and
    key = 100 + diamond-angle(g), an order-preserving rational image of phi (bounds used with phase
    parameters are such angles or the sentinels +-4, +-7, mapped to 100 +- 4, 100 +- 7).
The bound checks only use the order, so any order-embedding of the literals is faithful; that the
keys are ordered like the floats handed to the code is asserted at import time.
"""

from __future__ import annotations

import math
import warnings
from fractions import Fraction

import numpy as np

import circgen as cg
import lightworks as lw
from core import CIRCLE, PYTH, GQ, MachineryFault, exc_class, frac_str, mat_close

warnings.filterwarnings("ignore", category=RuntimeWarning)
np.seterr(all="ignore")

# --------------------------------------------------------------------------- literals


class Lit:
    __slots__ = ("key", "kind", "py", "views")

    def __init__(self, kind: str, key: Fraction, py, views: dict | None = None) -> None:
        self.kind, self.key, self.py, self.views = kind, Fraction(key), py, views or {}

    def v(self) -> dict:
        return {"n": frac_str(self.key), "py": self.py}


def diamond(g: GQ) -> Fraction:
    """order-preserving rational image of atan2(g.im, g.re): (-pi, pi] -> (-2, 2]"""
    x, y = g.re, g.im
    if y >= 0 and x > 0:
        return y / (x + y)              # [0, 1)
    if y > 0:
        return 1 + (-x) / (-x + y)      # [1, 2)
    if y == 0:
        return Fraction(2)              # phi = pi
    if x >= 0:
        return -((-y) / (x - y))        # [-1, 0)
    return -1 - (-x) / (-x - y)         # (-2, -1)


UNIT_IN = [Lit("unit", c * c, float(c * c), {"rt": GQ(c), "rt1": GQ(s)}) for c, s in PYTH]
UNIT_OUT = [Lit("unit", Fraction(a, b), a / b) for a, b in ((3, 2), (-1, 4), (5, 4), (2, 1), (-1, 1), (-1, 2))]
UNIT_INT = {0: Lit("unit", 0, 0, {"rt": GQ(0), "rt1": GQ(1)}), 1: Lit("unit", 1, 1, {"rt": GQ(1), "rt1": GQ(0)})}
PHASE = [Lit("phase", 100 + diamond(g), math.atan2(float(g.im), float(g.re)), {"e": g}) for g in CIRCLE]
PHASE_SENT = [Lit("phase", 100 + q, float(q)) for q in (-7, -4, 4, 7)]
OTHER = ["a", None, "xyz"]

BY_KEY: dict[Fraction, Lit] = {}
for _l in [*UNIT_IN, *UNIT_OUT, *PHASE, *PHASE_SENT]:
    if _l.key in BY_KEY:
        raise MachineryFault(f"literal key {_l.key} is not unique")
    BY_KEY[_l.key] = _l
for _tab in ([*UNIT_IN, *UNIT_OUT], [*PHASE, *PHASE_SENT]):
    _s = sorted(_tab, key=lambda l: l.key)
    if any(not (a.py < b.py) for a, b in zip(_s, _s[1:])):
        raise MachineryFault("literal keys are not ordered like the floats handed to the code")
UNIT_ZERO = BY_KEY[Fraction(0)]
UNIT_ONE = BY_KEY[Fraction(1)]
PHASE_ZERO = BY_KEY[Fraction(100)]
# values a Parameter of the kind may hold / bounds it may be given, in the order of the exact keys
UNIT_SORTED = sorted([*UNIT_IN, *UNIT_OUT], key=lambda l: l.key)
PHASE_SORTED = sorted(PHASE, key=lambda l: l.key)
PHASE_BOUNDS_SORTED = sorted([*PHASE, *PHASE_SENT], key=lambda l: l.key)


def spell(rng, v: dict | None) -> dict | None:
    """the same exact number in another Python spelling: 0 / 0.0 / -0.0 (all falsy), int / float for the
    other integers.  The model only reads the exact key, so every spelling must behave alike."""
    if v is None or "n" not in v:
        return v
    py = v["py"]
    if isinstance(py, bool) or not isinstance(py, (int, float)) or py != py or py in (math.inf, -math.inf):
        return v
    if py == 0:
        return {"n": v["n"], "py": rng.choice([0, 0.0, -0.0])}
    if float(py).is_integer():
        return {"n": v["n"], "py": rng.choice([int(py), float(py)])}
    return v


def v_other(t: int) -> dict:
    return {"o": t}


def py_of(v: dict):
    return OTHER[v["o"]] if "o" in v else v["py"]


def views_for(prog: list) -> list[dict]:
    """rows of the float-function table for every numeric literal mentioned in the program"""
    keys: set[Fraction] = set()

    def walk(x) -> None:
        if isinstance(x, dict):
            if "n" in x:
                keys.add(Fraction(x["n"]))
            for y in x.values():
                walk(y)
        elif isinstance(x, list):
            for y in x:
                walk(y)

    walk(prog)
    rows = []
    for k in sorted(keys):
        lit = BY_KEY.get(k)
        if lit is None:
            raise MachineryFault(f"literal {k} is not in the exact tables")
        rows.append({"k": frac_str(k), **{name: g.s() for name, g in lit.views.items()}})
    return rows


# --------------------------------------------------------------------------- op constructors


def refl_lit(c: Fraction, s: Fraction, valid: bool = True, py=None) -> dict:
    return {"c": frac_str(c), "s": frac_str(s), "valid": valid, "py": float(c * c) if py is None else py}


def loss_lit(a: Fraction, b: Fraction, valid: bool = True, py=None) -> dict:
    return {"a": frac_str(a), "b": frac_str(b), "valid": valid, "py": float(b * b) if py is None else py}


def phi_lit(g: GQ) -> dict:
    return {"e": g.s(), "py": math.atan2(float(g.im), float(g.re))}


PARAM_OPS = ("pnew", "pset", "pmin", "pmax", "dnew", "dset", "dsetp", "dremove")
PCIRC_OPS = ("bsp", "psp", "lossp", "freeze")
# CALLER-OWNED DATA.  What the client does with ITS OWN containers is no call into the library and is not sent to the
# model: the property demands that every library object is exactly what it was afterwards.
#   ["cbox", name, "list" | "tuple", [lo, hi]]     the client makes a container of bounds
#   ["pnew", pid, v, b, {"box": name}]              Parameter(v, bounds=<that container object>); b = its content now
#   ["dnew", d, pairs, {"box": name}]               ParameterDict(**<the client's dict>) (made on first use)
#   ["cmut", name, how, i, lit]                     the client writes into its container afterwards
#                                                   (how: set | clear | append | reverse | pop | setp | ident)
#   ["cscrib", what, target]                        the client writes into an object a library call RETURNED
#                                                   (what: gap | pd_items | pd_params | pd_bounds)
# the dict handed to Circuit.mode_swaps is kept as the box "swaps:<cid>"
CLIENT_OPS = ("cbox", "cmut", "cscrib")


def model_view(prog: list) -> tuple[list, list[int]]:
    """the calls into the library as the model sees them, and their positions in prog"""
    out, idx = [], []
    for k, op in enumerate(prog):
        if op[0] in CLIENT_OPS:
            continue
        if op[0] == "pnew":
            op = op[:4]
        elif op[0] == "dnew":
            op = op[:3]
        out.append(op)
        idx.append(k)
    return out, idx


def box_mut(content: list, how: str, i, new) -> None:
    """the client's write into a LIST it owns (used on the real list and on the generator's record of it)"""
    if how == "set":
        if i < len(content):
            content[i] = new
    elif how == "clear":
        content.clear()
    elif how == "append":
        content.append(new)
    elif how == "reverse":
        content.reverse()
    elif how == "pop":
        if content:
            content.pop(i % len(content))


# --------------------------------------------------------------------------- execution on lightworks


class World:
    def __init__(self) -> None:
        self.params: dict[int, lw.Parameter] = {}
        self.dicts: dict[str, lw.ParameterDict] = {}
        self.circs: dict = {}
        self.boxes: dict = {}   # containers owned by the client


def _arg(w: World | None, a: dict | None, vals: dict | None = None):
    """python argument for a field: a Parameter, its substituted value, or the literal"""
    if a is None:
        return None
    if "p" in a:
        return vals[a["p"]] if vals is not None else w.params[a["p"]]  # type: ignore[union-attr]
    return a["py"]


def apply_pcirc(circs: dict, op: list, w: World | None, vals: dict | None) -> None:
    """bsp / psp / lossp on `circs`; with `vals` every Parameter is replaced by vals[pid]"""
    name = op[0]
    c = circs[op[1]]
    if name == "bsp":
        _, _cid, m1, m2, ra, conv, la = op
        kw = {} if la is None else {"loss": _arg(w, la, vals)}
        c.bs(m1, m2, reflectivity=_arg(w, ra, vals), convention=conv, **kw)
    elif name == "psp":
        _, _cid, m, pa, la = op
        kw = {} if la is None else {"loss": _arg(w, la, vals)}
        c.ps(m, _arg(w, pa, vals), **kw)
    elif name == "lossp":
        _, _cid, m, la = op
        c.loss(m, _arg(w, la, vals))
    else:
        raise AssertionError(name)


def apply_op(w: World, op: list) -> str:
    """run one op on the implementation; 'ok' or the exception class name"""
    name = op[0]
    try:
        if name == "pnew":
            pid, v, b = op[1:4]
            if pid in w.params:
                return "KeyError"
            bounds = None if b is None else [None if x is None else py_of(x) for x in b]
            if len(op) > 4 and op[4].get("box") is not None:
                # the client's own object, not a copy (it holds what the history says unless a library call wrote into it:
                # run_case reports that; a history cut down by the shrinker is vetted by well_formed)
                bounds = w.boxes[op[4]["box"]]
            w.params[pid] = lw.Parameter(py_of(v), bounds=bounds)
        elif name == "pset":
            w.params[op[1]].set(py_of(op[2]))
        elif name == "pmin":
            w.params[op[1]].min_bound = None if op[2] is None else py_of(op[2])
        elif name == "pmax":
            w.params[op[1]].max_bound = None if op[2] is None else py_of(op[2])
        elif name == "dnew":
            src = {k: w.params[pid] for k, pid in op[2]}
            if len(op) > 3 and op[3].get("box") is not None:
                src = w.boxes.setdefault(op[3]["box"], src)
            w.dicts[op[1]] = lw.ParameterDict(**src)
        elif name == "dset":
            w.dicts[op[1]][op[2]] = py_of(op[3])
        elif name == "dsetp":
            w.dicts[op[1]][op[2]] = w.params[op[3]]
        elif name == "dremove":
            w.dicts[op[1]].remove(op[2])
        elif name in ("bsp", "psp", "lossp"):
            apply_pcirc(w.circs, op, w, None)
        elif name == "freeze":
            w.circs[op[1]] = w.circs[op[2]].copy(freeze_parameters=True)
        elif name == "swaps":
            d = {k: v for k, v in op[2]}
            w.boxes["swaps:" + op[1]] = d   # the client keeps the dict it hands over
            w.circs[op[1]].mode_swaps(d)
        elif name in CLIENT_OPS:
            apply_client(w, op)
        else:
            return cg.apply_op(w.circs, op)
    except AssertionError:
        raise
    except Exception as e:  # noqa: BLE001
        return exc_class(e)
    return "ok"


def apply_client(w: World, op: list) -> None:
    """what the client does with its own objects (never a call that may be refused)"""
    name = op[0]
    if name == "cbox":
        vals = [None if x is None else py_of(x) for x in op[3]]
        w.boxes[op[1]] = vals if op[2] == "list" else tuple(vals)
    elif name == "cmut":
        _, box_name, how, i, lit = op
        box = w.boxes.get(box_name)
        if isinstance(box, list):
            box_mut(box, how, i, None if lit is None else py_of(lit))
        elif isinstance(box, dict):
            if how == "clear":
                box.clear()
            elif how == "pop":
                if box:
                    box.pop(list(box)[i % len(box)])
            elif how == "setp":      # the client's dict of Parameters: another Parameter under an existing key
                if box and lit in w.params:
                    box[list(box)[i % len(box)]] = w.params[lit]
            elif how == "append":
                box[f"new{i}"] = w.params[lit] if lit in w.params else lit
            elif how == "ident":     # a mode_swaps dict: rewritten to the identity
                for k in list(box):
                    box[k] = k
        # a tuple cannot be written to
    else:
        _, what, target = op
        try:
            if what == "gap" and target in w.circs:
                for f in (list.clear, list.reverse, lambda l: l.append(lw.Parameter(0.5)), lambda l: l.pop(0) if l else None):
                    f(w.circs[target].get_all_params())
            elif target in w.dicts:
                pd = w.dicts[target]
                if what == "pd_items":
                    pd.items().clear()
                    it = pd.items()
                    if it:
                        it[0] = (it[0][0], 12345)
                elif what == "pd_params":
                    pd.params.clear()
                    pd.params.append("zz")
                elif what == "pd_bounds":
                    b = pd.get_bounds()
                    for k in list(b):
                        b[k] = (5, 6)
                    b.clear()
        except (TypeError, AttributeError):
            pass   # an immutable hand-out refuses the write


def box_snapshot(w: World) -> dict:
    """the client's containers: element values (Parameters by identity)"""
    out = {}
    for name, box in w.boxes.items():
        items = list(box.items()) if isinstance(box, dict) else list(enumerate(box))
        out[name] = (type(box).__name__, [(k, ("P", id(v)) if isinstance(v, lw.Parameter) else v) for k, v in items])
    return out


def box_diff(a: dict, b: dict) -> str | None:
    for name, (ta, ia) in a.items():
        tb, ib = b.get(name, (None, None))
        if ta != tb or len(ia) != len(ib) or any(x[0] != y[0] or not same_val(x[1], y[1]) for x, y in zip(ia, ib)):
            return f"{name}: {[v for _, v in ia]} -> {None if ib is None else [v for _, v in ib]}"
    return None


def run_prog(prog: list) -> tuple[World, list[str]]:
    w = World()
    return w, [apply_op(w, op) for op in prog]


# --------------------------------------------------------------------------- observation


def same_val(a, b) -> bool:
    if a is b:
        return True
    try:
        if isinstance(a, float) and isinstance(b, float) and math.isnan(a) and math.isnan(b):
            return True
        return type(a) is type(b) and bool(a == b)
    except Exception:  # noqa: BLE001
        return False


class Raised:
    """an accessor that raised instead of returning (recorded as the observable, so that the oracles report it with the
    history that led there)"""

    def __init__(self, exc: str) -> None:
        self.exc = exc

    def __eq__(self, o: object) -> bool:
        return isinstance(o, Raised) and o.exc == self.exc

    def __hash__(self) -> int:
        return hash(self.exc)

    def __repr__(self) -> str:
        return f"<raises {self.exc}>"


def _read(f):
    try:
        return f()
    except Exception as e:  # noqa: BLE001
        return Raised(exc_class(e))


def snapshot(w: World) -> dict:
    """public observables of every live object"""
    ident = {id(p): pid for pid, p in w.params.items()}
    params = {pid: (_read(p.get), _read(lambda p=p: p.min_bound), _read(lambda p=p: p.max_bound)) for pid, p in w.params.items()}
    dicts = {}
    for d, pd in w.dicts.items():
        items = dict(pd.items())
        dicts[d] = [(k, ident.get(id(pd[k]), -1), items[k]) for k in pd.keys()]
    circs = {}
    for cid, c in w.circs.items():
        o: dict = {"n": c.n_modes}
        try:
            o["U"] = np.array(c.U)
        except Exception as e:  # noqa: BLE001
            o["err"] = exc_class(e)
        o["params"] = [ident.get(id(p), -1) for p in c.get_all_params()]
        circs[cid] = o
    return {"params": params, "dicts": dicts, "circs": circs}


def same_circ(a: dict, b: dict, tol: float = 1e-12) -> bool:
    if a["n"] != b["n"] or a["params"] != b["params"] or a.get("err") != b.get("err"):
        return False
    if "U" in a:
        ua, ub = a["U"], b["U"]
        if ua.shape != ub.shape:
            return False
        na, nb = np.isnan(ua), np.isnan(ub)
        return bool(np.array_equal(na, nb) and np.all(np.abs(np.where(na, 0, ua) - np.where(nb, 0, ub)) <= tol))
    return True


def snap_diff(a: dict, b: dict) -> str | None:
    """first difference between two snapshots of the same world (None = identical)"""
    for pid, pa in a["params"].items():
        pb = b["params"].get(pid)
        if pb is None or not all(same_val(x, y) for x, y in zip(pa, pb)):
            return f"parameter {pid}: (value, min, max) {pa} -> {pb}"
    for d, ia in a["dicts"].items():
        ib = b["dicts"].get(d)
        if ib is None or len(ia) != len(ib) or any(
                x[0] != y[0] or x[1] != y[1] or not same_val(x[2], y[2]) for x, y in zip(ia, ib)):
            return f"ParameterDict {d}: {ia} -> {ib}"
    for cid, ca in a["circs"].items():
        cb = b["circs"].get(cid)
        if cb is None or not same_circ(ca, cb):
            return f"circuit {cid} (U / get_all_params) changed"
    if set(a["params"]) != set(b["params"]) or set(a["dicts"]) != set(b["dicts"]) or set(a["circs"]) != set(b["circs"]):
        return "set of live objects changed"
    return None


def in_bounds(val, lo, hi) -> bool:
    """the property's reading of `value lies within its bounds` (python comparisons)"""
    try:
        if lo is not None and not (lo <= val):
            return False
        if hi is not None and not (val <= hi):
            return False
    except Exception:  # noqa: BLE001
        return False
    return True


# --------------------------------------------------------------------------- shadow rebuild (oracle)


def shadow(prog: list, results: list[str], hist_vals: list[dict], upto: int, vals: dict, memo: dict):
    """Pool of parameter-free circuits built by the accepted circuit calls prog[0..upto] with every
    Parameter replaced by vals[pid]; a frozen copy taken at call j uses the values held at call j.
    Returns (pool, tainted, diverged): `tainted` = circuits one of whose components rejects the value
    when it is given directly (so the parametrised circuit must fail to compile)."""
    pool: dict = {}
    taint: set = set()
    diverged: list[str] = []
    for j in range(upto + 1):
        op = prog[j]
        name = op[0]
        if results[j] != "ok" or name in PARAM_OPS or name in CLIENT_OPS:
            continue
        if name == "freeze":
            if j not in memo:
                sp, st, sd = shadow(prog, results, hist_vals, j - 1, hist_vals[j], memo)
                memo[j] = (sp[op[2]], op[2] in st, sd)
            c, t, sd = memo[j]
            diverged += sd
            pool[op[1]] = c.copy()
            taint.discard(op[1])
            if t:
                taint.add(op[1])
        elif name in ("bsp", "psp", "lossp"):
            try:
                apply_pcirc(pool, op, None, vals)
            except Exception:  # noqa: BLE001
                taint.add(op[1])
        else:
            r = cg.apply_op(pool, op)
            if r != "ok":
                diverged.append(f"call #{j} {op[:4]} accepted with Parameters but {r} with their values")
            if name == "add":
                if op[2] in taint:
                    taint.add(op[1])
            elif name == "plus":
                taint.discard(op[1])
                if op[2] in taint or op[3] in taint:
                    taint.add(op[1])
            elif name == "copy":
                taint.discard(op[1])
                if op[2] in taint:
                    taint.add(op[1])
            elif name in ("new", "unitary"):
                taint.discard(op[1])
    return pool, taint, diverged


def shadow_check(prog, results, hist_vals, t: int, snap: dict, memo: dict) -> list[tuple[str, str]]:
    """compare every live circuit at time t with its shadow; returns (clause, text) problems"""
    out = []
    pool, taint, diverged = shadow(prog, results, hist_vals, t, hist_vals[t], memo)
    for d in diverged:
        out.append(("shadow", d))
    for cid, obs in snap["circs"].items():
        if cid not in pool:
            out.append(("shadow", f"circuit {cid} missing from the rebuild"))
            continue
        exp_err = cid in taint
        u = None
        if not exp_err:
            try:
                u = np.array(pool[cid].U)
            except Exception:  # noqa: BLE001
                exp_err = True
        if exp_err and "err" not in obs:
            out.append(("invalid_value", f"call #{t}: circuit {cid} holds a parameter value that its component "
                        f"rejects when given directly, but U returns a matrix instead of raising"))
        elif exp_err and obs["err"] != "CircuitCompilationError":
            out.append(("invalid_value", f"call #{t}: circuit {cid}: U raises {obs['err']}, not CircuitCompilationError"))
        elif not exp_err and "err" in obs:
            out.append(("live", f"call #{t}: circuit {cid}: U raises {obs['err']} although the same circuit built "
                        f"from the current values compiles"))
        elif not exp_err and not mat_close(obs["U"], u, 1e-9):
            out.append(("live", f"call #{t}: U of circuit {cid} is not the unitary of the same circuit built from "
                        f"the parameters' current values"))
    return out


# --------------------------------------------------------------------------- generation


def well_formed(prog: list) -> bool:
    """every object is defined before it is used"""
    ps: set = set()
    ds: set = set()
    cs: set = set()

    def pids(a) -> list:
        return [a["p"]] if isinstance(a, dict) and "p" in a else []

    boxes: dict = {}   # the client's containers, as the history says they are at each point

    for op in prog:
        name = op[0]
        if name == "cbox":
            boxes[op[1]] = list(op[3]) if op[2] == "list" else tuple(op[3])
            continue
        if name == "cmut":
            box = boxes.get(op[1])
            if op[1].startswith("swaps:"):
                continue
            if box is None or (op[2] in ("setp", "append") and isinstance(box, dict) and op[4] not in ps):
                return False
            if isinstance(box, list):
                box_mut(box, op[2], op[3], op[4])
            elif isinstance(box, dict):
                keys = list(box)
                if op[2] == "clear":
                    box.clear()
                elif op[2] == "pop" and keys:
                    box.pop(keys[op[3] % len(keys)])
                elif op[2] == "setp" and keys:
                    box[keys[op[3] % len(keys)]] = op[4]
                elif op[2] == "append":
                    box[f"new{op[3]}"] = op[4]
            continue
        if name == "cscrib":
            continue
        if name == "pnew":
            if op[1] in ps:
                return False
            if len(op) > 4 and op[4].get("box") is not None:
                box = boxes.get(op[4]["box"])
                if box is None or isinstance(box, dict) or op[3] is None or list(box) != list(op[3]):
                    return False
            ps.add(op[1])
        elif name in ("pset", "pmin", "pmax"):
            if op[1] not in ps:
                return False
        elif name == "dnew":
            if any(pid not in ps for _, pid in op[2]):
                return False
            if len(op) > 3 and op[3].get("box") is not None:
                have = boxes.setdefault(op[3]["box"], {k: pid for k, pid in op[2]})
                if not isinstance(have, dict) or list(have.items()) != [(k, pid) for k, pid in op[2]]:
                    return False
            ds.add(op[1])
        elif name in ("dset", "dremove"):
            if op[1] not in ds:
                return False
        elif name == "dsetp":
            if op[1] not in ds or op[3] not in ps:
                return False
        elif name in ("bsp", "psp", "lossp"):
            if op[1] not in cs or any(pid not in ps for a in op[2:] for pid in pids(a)):
                return False
        elif name == "freeze":
            if op[2] not in cs:
                return False
            cs.add(op[1])
        elif name in ("new", "unitary"):
            cs.add(op[1])
        elif name == "plus":
            if op[2] not in cs or op[3] not in cs:
                return False
            cs.add(op[1])
        elif name == "copy":
            if op[2] not in cs:
                return False
            cs.add(op[1])
        elif name == "add":
            if op[1] not in cs or op[2] not in cs:
                return False
        elif op[1] not in cs:
            return False
    return True


class Gen:
    """stateful generator of one history; keeps only what is needed to make most calls acceptable"""

    def __init__(self, rng, big: bool, rewrites: bool = True) -> None:
        self.rng = rng
        self.big = big
        self.rewrites = rewrites
        self.prog: list = []
        self.kind: dict[int, str] = {}       # pid -> unit | phase | free
        self.npid = 0
        # steering only (never used as an oracle): what the generator believes the parameter holds
        self.cur: dict[int, Fraction | None] = {}
        self.lo: dict[int, Fraction | None] = {}
        self.hi: dict[int, Fraction | None] = {}
        self.attached: set[int] = set()
        self.dkeys: dict[str, list[str]] = {}
        self.dmap: dict[tuple[str, str], int] = {}
        self.vis: dict[str, int] = {}        # cid -> user-visible modes
        self.her: dict[str, int] = {}        # cid -> own heralds (optimistic)
        self.counts: dict[str, int] = {}
        self.nplus = 0

    def note(self, k: str) -> None:
        self.counts[k] = self.counts.get(k, 0) + 1

    # ---- values
    def value(self, kind: str, p_bad: float = 0.12, pid: int | None = None) -> dict:
        v = self.value_any(kind, p_bad)
        if pid is None or self.rng.random() < 0.6:
            return v
        lo, hi = self.lo.get(pid), self.hi.get(pid)
        for _ in range(8):  # steer towards values the bounds accept
            if "n" in v:
                k = Fraction(v["n"])
                if (lo is None or lo <= k) and (hi is None or k <= hi):
                    return v
            elif lo is None and hi is None:
                return v
            v = self.value_any(kind, p_bad)
        return v

    def value_any(self, kind: str, p_bad: float) -> dict:
        rng = self.rng
        r = rng.random()
        if kind == "phase":
            if r < p_bad / 2:
                return v_other(rng.randrange(len(OTHER)))
            if r < p_bad / 2 + 0.08:
                return spell(rng, PHASE_ZERO.v())
            return rng.choice(PHASE).v()
        if r < p_bad / 2:
            return v_other(rng.randrange(len(OTHER)))
        if r < p_bad or (kind == "free" and r < 0.4):
            return spell(rng, rng.choice(UNIT_OUT).v())
        if r < p_bad + 0.15:
            return spell(rng, rng.choice([UNIT_ZERO, UNIT_ONE]).v())
        return rng.choice(UNIT_IN).v()

    def bound_ok(self, kind: str, side: str, pid: int | None, cur: Fraction | None) -> dict | None:
        b = self.bound(kind, side)
        if self.rng.random() < 0.6:
            return b
        for _ in range(8):  # steer towards bounds the current value satisfies
            if b is None:
                return b
            if "n" in b and cur is not None:
                k = Fraction(b["n"])
                if (side == "min" and k <= cur) or (side == "max" and cur <= k):
                    return b
            b = self.bound(kind, side)
        return b

    def believe_new(self, pid: int, v: dict, b) -> bool:
        """would the constructor accept? (steering only)"""
        cur = Fraction(v["n"]) if "n" in v else None
        if b is None:
            self.cur[pid], self.lo[pid], self.hi[pid] = cur, None, None
            return True
        if len(b) != 2 or cur is None:
            return False
        lo, hi = b
        for x, side in ((lo, "min"), (hi, "max")):
            if x is None:
                continue
            if "o" in x:
                return False
            k = Fraction(x["n"])
            if (side == "min" and cur < k) or (side == "max" and cur > k):
                return False
        self.cur[pid] = cur
        self.lo[pid] = None if lo is None else Fraction(lo["n"])
        self.hi[pid] = None if hi is None else Fraction(hi["n"])
        return True

    def believe_set(self, pid: int, v: dict) -> None:
        lo, hi = self.lo.get(pid), self.hi.get(pid)
        if "n" in v:
            k = Fraction(v["n"])
            if (lo is None or lo <= k) and (hi is None or k <= hi):
                self.cur[pid] = k
        elif lo is None and hi is None:
            self.cur[pid] = None

    def believe_bound(self, pid: int, side: str, b) -> None:
        cur = self.cur.get(pid)
        tab = self.lo if side == "min" else self.hi
        if b is None:
            tab[pid] = None
        elif "n" in b and cur is not None:
            k = Fraction(b["n"])
            if (side == "min" and k <= cur) or (side == "max" and cur <= k):
                tab[pid] = k

    def bound(self, kind: str, side: str) -> dict | None:
        rng = self.rng
        r = rng.random()
        if r < 0.25:
            return None
        if r < 0.29:
            return v_other(rng.choice([0, 2]))
        if kind == "phase":
            if r < 0.55:
                return spell(rng, rng.choice(PHASE_SENT[:2] if side == "min" else PHASE_SENT[2:]).v())
            if r < 0.65:
                return spell(rng, PHASE_ZERO.v())  # a bound that is exactly 0 on either side
            return rng.choice(PHASE).v()
        if r < 0.5:
            # the natural end of [0, 1] for the side, or (1 in 4) the other end: max = 0 / min = 1
            nat = (side == "min") == (rng.random() < 0.75)
            return spell(rng, (UNIT_ZERO if nat else UNIT_ONE).v())
        if r < 0.62:
            return spell(rng, rng.choice(UNIT_OUT).v())
        return rng.choice(UNIT_IN).v()

    # ---- ops
    def new_param(self, kind: str | None = None) -> int | None:
        rng = self.rng
        pid = self.npid
        self.npid += 1
        kind = kind or rng.choice(["unit", "unit", "unit", "phase", "phase", "free"])
        v = self.value(kind, 0.06)
        cur = Fraction(v["n"]) if "n" in v else None
        r = rng.random()
        if r < 0.4:
            b = None
        elif r < 0.9:
            b = [self.bound_ok(kind, "min", None, cur), self.bound_ok(kind, "max", None, cur)]
        elif r < 0.95:
            b = [None, None]
        else:
            b = rng.choice([[], [self.bound(kind, "min")], [None, None, None]])
        self.prog.append(["pnew", pid, v, b])
        self.note("pnew" + ("+bounds" if b is not None else ""))
        if not self.believe_new(pid, v, b):
            self.note("pnew-rejected(expected)")
            return None
        self.kind[pid] = kind
        return pid

    def new_circ(self, n: int | None = None) -> str:
        cid = f"c{len(self.vis)}"
        n = n or self.rng.randint(2, 5 if self.big else 4)
        self.prog.append(["new", cid, n])
        self.vis[cid], self.her[cid] = n, 0
        return cid

    def pick_param(self, kinds: tuple) -> int | None:
        c = [p for p, k in self.kind.items() if k in kinds]
        return self.rng.choice(c) if c else None

    def mode(self, cid: str, bad: bool = False) -> int:
        n = self.vis[cid]
        return self.rng.choice([-1, n, n + 2]) if bad else self.rng.randrange(n)

    def loss_arg(self, p_param: float):
        rng = self.rng
        r = rng.random()
        if r < p_param:
            pid = self.pick_param(("unit",))
            if pid is not None:
                self.attached.add(pid)
                self.note("role:loss")
                return {"p": pid}
        if r < p_param + 0.25:
            a, b = rng.choice(PYTH)
            if b != 0:
                return loss_lit(a, b)
        if r > 0.97:
            return loss_lit(Fraction(0), Fraction(0), valid=False, py=rng.choice([-0.5, 1.25]))
        return None

    def param_component(self, cid: str) -> None:
        rng = self.rng
        bad_mode = rng.random() < 0.05
        kinds = ["bsp", "psp", "lossp"] if self.vis[cid] >= 2 else ["psp", "lossp"]
        name = rng.choice(kinds)
        if name == "bsp":
            m1, m2 = rng.sample(range(self.vis[cid]), 2)
            if bad_mode:
                m2 = rng.choice([m1, self.mode(cid, True)])
            pid = self.pick_param(("unit",)) if rng.random() < 0.8 else None
            if pid is not None:
                ra = {"p": pid}
                self.attached.add(pid)
                self.note("role:reflectivity")
            else:
                c, s = rng.choice(PYTH)
                ra = refl_lit(c, s)
                if rng.random() < 0.05:
                    ra = refl_lit(Fraction(0), Fraction(0), valid=False, py=rng.choice([-0.25, 1.5]))
            self.prog.append(["bsp", cid, m1, m2, ra, rng.choice(["Rx", "H"]), self.loss_arg(0.3)])
        elif name == "psp":
            pid = self.pick_param(("phase",)) if rng.random() < 0.8 else None
            if pid is not None:
                pa = {"p": pid}
                self.attached.add(pid)
                self.note("role:phi")
            else:
                pa = phi_lit(rng.choice(CIRCLE))
            self.prog.append(["psp", cid, self.mode(cid, bad_mode), pa, self.loss_arg(0.3)])
        else:
            la = self.loss_arg(0.8)
            if la is None:
                la = loss_lit(Fraction(1), Fraction(0))  # loss(mode, 0): still a Loss element
            self.prog.append(["lossp", cid, self.mode(cid, bad_mode), la])
        self.note("op:" + name)

    def update(self) -> None:
        rng = self.rng
        pid = rng.choice(list(self.kind))
        kind = self.kind[pid]
        r = rng.random()
        if r < 0.62:
            v = self.value(kind, pid=pid)
            self.prog.append(["pset", pid, v])
            self.believe_set(pid, v)
            self.note("op:pset")
        elif r < 0.78:
            side = rng.choice(["min", "max"])
            b = self.bound_ok(kind, side, pid, self.cur.get(pid))
            self.prog.append(["p" + side, pid, b])
            self.believe_bound(pid, side, b)
            self.note("op:p" + side)
        else:
            self.dict_op(pid)

    def dict_op(self, pid: int) -> None:
        rng = self.rng
        if not self.dkeys or rng.random() < 0.1:
            d = f"d{len(self.dkeys)}"
            items = []
            for k, q in enumerate(rng.sample(list(self.kind), rng.randint(0, min(3, len(self.kind))))):
                items.append([f"k{k}", q])
            self.prog.append(["dnew", d, items])
            self.dkeys[d] = [k for k, _ in items]
            for k, q in items:
                self.dmap[(d, k)] = q
            self.note("op:dnew")
            return
        d = rng.choice(list(self.dkeys))
        keys = self.dkeys[d]
        r = rng.random()
        if r < 0.55 and keys:
            # value update through the dictionary; the key decides which parameter (and its kind)
            k = rng.choice(keys)
            q = self.dict_target(d, k)
            v = self.value(self.kind.get(q, "free"), pid=q)
            self.prog.append(["dset", d, k, v])
            self.believe_set(q, v)
            self.note("op:dset")
        elif r < 0.75:
            k = f"k{len(keys) + rng.randint(0, 1) * 7}" if rng.random() < 0.85 else (keys[0] if keys else "k0")
            self.prog.append(["dsetp", d, k, pid])
            if k not in keys:
                keys.append(k)
                self.dmap[(d, k)] = pid
            self.note("op:dsetp")
        elif r < 0.85:
            self.prog.append(["dset", d, "nokey", self.value("free")])  # new key with a plain value: rejected
            self.note("op:dset-newkey")
        else:
            k = rng.choice([*keys, "nokey"])
            self.prog.append(["dremove", d, k])
            if k in keys:
                keys.remove(k)
                self.dmap.pop((d, k), None)
            self.note("op:dremove")

    def dict_target(self, d: str, k: str) -> int:
        # parameter a dictionary key refers to (an existing key is never re-bound: `pd[k] = Parameter`
        # on an existing key is rejected)
        return self.dmap.get((d, k), -1)

    def structure(self) -> None:
        rng = self.rng
        cids = list(self.vis)
        r = rng.random()
        cid = rng.choice(cids)
        if self.rewrites and rng.random() < 0.08:
            # the two rewrites rebuild the spec; the circuit must stay linked to its Parameters (F22)
            self.prog.append([rng.choice(["compress", "nonadj"]), cid])
            self.note("op:rewrite")
            return
        if r < 0.34 and len(cids) >= 2:
            fits = [c for c in cids if c != cid and 0 < self.vis[c] - self.her[c] <= self.vis[cid]]
            if fits and rng.random() < 0.85:
                sub = rng.choice(fits)
            else:
                sub = rng.choice([c for c in cids if c != cid] if rng.random() < 0.9 else cids)
            p, q = self.vis[cid], self.vis[sub] - self.her[sub]
            if rng.random() < 0.85 and 0 < q <= p:
                m = rng.randint(0, p - q)
            else:
                m = rng.choice([-1, p, max(0, p - q + 1)])
            self.prog.append(["add", cid, sub, m, rng.random() < 0.5])
            self.note("op:add")
        elif r < 0.5:
            new = f"c{len(self.vis)}"
            self.prog.append(["freeze", new, cid])
            self.vis[new], self.her[new] = self.vis[cid], self.her[cid]
            self.note("op:freeze")
        elif r < 0.62:
            new = f"c{len(self.vis)}"
            self.prog.append(["copy", new, cid])
            self.vis[new], self.her[new] = self.vis[cid], self.her[cid]
            self.note("op:copy")
        elif r < 0.7:
            same = [c for c in cids if self.vis[c] == self.vis[cid]]
            other = rng.choice(same)
            new = f"c{len(self.vis)}"
            self.prog.append(["plus", new, cid, other])
            if self.her[cid] == 0 and self.her[other] == 0:
                self.vis[new], self.her[new] = self.vis[cid], 0
            self.note("op:plus")
        elif r < 0.8 and self.vis[cid] - self.her[cid] >= 2:
            n = self.vis[cid]
            i = rng.randrange(n)
            o = i if rng.random() < 0.5 else rng.randrange(n)
            self.prog.append(["herald", cid, rng.choice([0, 1, 1, 2]), i, o])
            self.her[cid] += 1
            self.note("op:herald")
        elif r < 0.84:
            self.prog.append(["unpack", cid])
            self.note("op:unpack")
        elif r < 0.9 and len(cids) < 6:
            self.new_circ()
        else:
            self.prog.append(cg.rand_prim_op(rng, cid, self.vis[cid], p_invalid=0.1))
            self.note("op:literal-component")


    # ------------------------------------------------------------------ directed dimensions
    # (1) boundary numerics: every place where the code tests a number for truthiness or compares it
    # (2) every Parameter-carrying field, at every depth, through every rewrite, rewrite BEFORE update

    def emit_pnew(self, kind: str, v: dict, b, box: str | None = None) -> int | None:
        pid = self.npid
        self.npid += 1
        self.prog.append(["pnew", pid, v, b] if box is None else ["pnew", pid, v, list(b), {"box": box}])
        self.note("pnew" + ("+bounds" if b is not None else ""))
        if not self.believe_new(pid, v, b):
            self.note("pnew-rejected(expected)")
            return None
        self.kind[pid] = kind
        return pid

    def boundary_param(self, kind: str | None = None) -> int | None:
        """a Parameter whose bounds / value sit exactly on a pivot (mostly 0 in one of its spellings)"""
        rng = self.rng
        kind = kind or rng.choice(["unit", "unit", "phase", "phase", "free", "free"])
        vals = PHASE_SORTED if kind == "phase" else UNIT_SORTED
        bnds = PHASE_BOUNDS_SORTED if kind == "phase" else UNIT_SORTED
        zero = PHASE_ZERO if kind == "phase" else UNIT_ZERO
        pivot = zero if rng.random() < 0.65 else rng.choice(vals[1:-1])
        below = [l for l in vals if l.key < pivot.key]
        above = [l for l in vals if l.key > pivot.key]
        shape = rng.choice(["max", "max", "min", "min", "equal", "late", "value"])
        sv = lambda l: None if l is None else spell(rng, l.v())  # noqa: E731
        if shape == "max":      # [.., pivot]: negative range when pivot = 0
            val = pivot if rng.random() < 0.3 else rng.choice(below)
            lows = [l for l in bnds if l.key <= val.key]
            b = [sv(rng.choice([None, val, rng.choice(lows)])), sv(pivot)]
        elif shape == "min":    # [pivot, ..]
            val = pivot if rng.random() < 0.3 else rng.choice(above)
            highs = [l for l in bnds if l.key >= val.key]
            b = [sv(pivot), sv(rng.choice([None, val, rng.choice(highs)]))]
        elif shape == "equal":  # min == max == value
            val, b = pivot, [sv(pivot), sv(pivot)]
        elif shape == "late":   # bounds arrive through the setters only
            val = rng.choice([pivot, rng.choice(vals)])
            b = rng.choice([None, [None, None]])
        else:                   # the VALUE is the pivot; bounds strictly around it or absent
            val = pivot
            b = rng.choice([None, [sv(rng.choice([None, *[l for l in bnds if l.key < pivot.key]])),
                                   sv(rng.choice([None, *[l for l in bnds if l.key > pivot.key]]))]])
        self.note("boundary:new:" + shape + (":zero" if pivot is zero else ""))
        return self.emit_pnew(kind, sv(val), b)

    def emit_set(self, pid: int, v: dict) -> None:
        """value update, directly or through a ParameterDict key that holds the parameter"""
        keys = [dk for dk, q in self.dmap.items() if q == pid]
        if keys and self.rng.random() < 0.45:
            d, k = self.rng.choice(keys)
            self.prog.append(["dset", d, k, v])
            self.note("op:dset")
        else:
            self.prog.append(["pset", pid, v])
            self.note("op:pset")
        self.believe_set(pid, v)

    def emit_bound(self, pid: int, side: str, b: dict | None) -> None:
        self.prog.append(["p" + side, pid, b])
        self.believe_bound(pid, side, b)
        self.note("op:p" + side)

    def boundary_move(self, pid: int) -> None:
        """one call placed relative to the parameter's current value and bounds: just outside, exactly
        on, removal and re-installation of a bound, a bound exactly 0, a bound equal to the value"""
        rng = self.rng
        kind = self.kind[pid]
        vals = PHASE_SORTED if kind == "phase" else UNIT_SORTED
        bnds = PHASE_BOUNDS_SORTED if kind == "phase" else UNIT_SORTED
        zero = PHASE_ZERO if kind == "phase" else UNIT_ZERO
        cur, lo, hi = self.cur.get(pid), self.lo.get(pid), self.hi.get(pid)
        sv = lambda l: None if l is None else spell(rng, l.v())  # noqa: E731

        def near(cands: list, ref, up: bool):
            """mostly the literal next to `ref`, else any"""
            if not cands:
                return None
            if rng.random() < 0.5:
                return cands[0] if up else cands[-1]
            return rng.choice(cands)

        move = rng.choice(["above", "above", "below", "below", "on", "on", "inside", "zero", "other", "drop",
                           "cross", "cross", "pin", "bzero", "bzero", "bany"])
        self.note("boundary:move:" + move)
        if move == "above":      # above the maximum (rejected when there is one)
            ref = hi if hi is not None else cur
            c = [l for l in vals if ref is None or l.key > ref]
            self.emit_set(pid, sv(near(c, ref, True) or rng.choice(vals)))
        elif move == "below":
            ref = lo if lo is not None else cur
            c = [l for l in vals if ref is None or l.key < ref]
            self.emit_set(pid, sv(near(c, ref, False) or rng.choice(vals)))
        elif move == "on":       # exactly on a bound
            c = [BY_KEY[k] for k in (lo, hi) if k is not None and BY_KEY[k] in vals]
            self.emit_set(pid, sv(rng.choice(c) if c else zero))
        elif move == "inside":
            c = [l for l in vals if (lo is None or lo <= l.key) and (hi is None or l.key <= hi)]
            self.emit_set(pid, sv(rng.choice(c) if c else rng.choice(vals)))
        elif move == "zero":
            self.emit_set(pid, sv(zero))
        elif move == "other":    # non-numeric: allowed only while the parameter has no bound at all
            self.emit_set(pid, v_other(rng.randrange(len(OTHER))))
        elif move == "drop":
            self.emit_bound(pid, rng.choice(["min", "max"]), None)
        elif move == "cross":    # a bound the current value violates: rejected, nothing may change
            side = rng.choice(["min", "max"])
            c = [l for l in bnds if cur is not None and (l.key > cur if side == "min" else l.key < cur)]
            self.emit_bound(pid, side, sv(near(c, cur, side == "min") or rng.choice(bnds)))
        elif move == "pin":      # bound == current value
            self.emit_bound(pid, rng.choice(["min", "max"]), sv(BY_KEY[cur]) if cur is not None else sv(zero))
        elif move == "bzero":    # a bound that is exactly 0 (falsy), on the side the value allows mostly
            if cur is not None and rng.random() < 0.8:
                side = "max" if cur <= zero.key else "min"
                if cur == zero.key:
                    side = rng.choice(["min", "max"])
            else:
                side = rng.choice(["min", "max"])
            self.emit_bound(pid, side, sv(zero))
        else:
            self.emit_bound(pid, rng.choice(["min", "max"]), sv(rng.choice(bnds)))

    def attach(self, cid: str, pid: int, role: str | None = None, far: bool | None = None) -> None:
        """one component on `cid` whose `role` field is the Parameter `pid`"""
        rng = self.rng
        n = self.vis[cid]
        kind = self.kind[pid]
        if role is None:
            role = "phi" if kind == "phase" else rng.choice(["refl", "refl", "bsloss", "psloss", "loss"])
        if n < 2 and role in ("refl", "bsloss"):
            role = "loss"
        self.attached.add(pid)
        if role in ("refl", "bsloss"):
            pairs = [(a, b) for a in range(n) for b in range(n) if a != b]
            farp = [p for p in pairs if abs(p[0] - p[1]) >= 2]
            if far is None:
                far = rng.random() < 0.6
            m1, m2 = rng.choice(farp if far and farp else [p for p in pairs if abs(p[0] - p[1]) == 1])
            self.note("bs:non-adjacent" if abs(m1 - m2) >= 2 else "bs:adjacent")
            if role == "refl":
                ra, la = {"p": pid}, self.loss_arg(0.35)
                self.note("role:reflectivity")
            else:
                q = self.pick_param(("unit",)) if rng.random() < 0.5 else None
                c, s = rng.choice(PYTH)
                ra, la = ({"p": q} if q is not None else refl_lit(c, s)), {"p": pid}
                if q is not None:
                    self.attached.add(q)
                    self.note("role:reflectivity")
                self.note("role:loss")
            self.prog.append(["bsp", cid, m1, m2, ra, rng.choice(["Rx", "H"]), la])
            self.note("op:bsp")
        elif role == "phi":
            self.prog.append(["psp", cid, self.mode(cid), {"p": pid}, self.loss_arg(0.35)])
            self.note("role:phi")
            self.note("op:psp")
        elif role == "psloss":
            q = self.pick_param(("phase",)) if rng.random() < 0.5 else None
            pa = {"p": q} if q is not None else phi_lit(rng.choice(CIRCLE))
            if q is not None:
                self.attached.add(q)
                self.note("role:phi")
            self.prog.append(["psp", cid, self.mode(cid), pa, {"p": pid}])
            self.note("role:loss")
            self.note("op:psp")
        else:
            self.prog.append(["lossp", cid, self.mode(cid), {"p": pid}])
            self.note("role:loss")
            self.note("op:lossp")

    def fresh_value(self, pid: int, p_invalid: float = 0.08) -> dict:
        """a value different from the one held, accepted by the bounds if possible, valid for the
        component mostly; exactly 0 / 1 in any spelling now and then"""
        rng = self.rng
        kind = self.kind[pid]
        cur, lo, hi = self.cur.get(pid), self.lo.get(pid), self.hi.get(pid)
        r = rng.random()
        if kind == "phase":
            pool = [PHASE_ZERO] if r < 0.12 else PHASE
        elif r < p_invalid:
            pool = UNIT_OUT
        elif r < p_invalid + 0.2:
            pool = [UNIT_ZERO, UNIT_ONE]
        else:
            pool = UNIT_IN
        c = [l for l in pool if l.key != cur and (lo is None or lo <= l.key) and (hi is None or l.key <= hi)]
        if not c:
            full = PHASE if kind == "phase" else UNIT_IN
            c = [l for l in full if l.key != cur and (lo is None or lo <= l.key) and (hi is None or l.key <= hi)]
        if not c:
            c = [l for l in (PHASE if kind == "phase" else UNIT_IN) if l.key != cur]
        return spell(rng, rng.choice(c).v())

    def fresh_value_new(self, kind: str) -> dict:
        """initial value for an attachable Parameter: valid, and exactly 0 / 1 one time in four"""
        rng = self.rng
        if kind == "phase":
            return spell(rng, (PHASE_ZERO if rng.random() < 0.25 else rng.choice(PHASE)).v())
        if rng.random() < 0.25:
            return spell(rng, rng.choice([UNIT_ZERO, UNIT_ZERO, UNIT_ONE]).v())
        return rng.choice(UNIT_IN).v()

    def add_into(self, cid: str, sub: str, group: bool | None = None) -> None:
        rng = self.rng
        p, q = self.vis[cid], self.vis[sub] - self.her[sub]
        m = rng.randint(0, p - q) if 0 < q <= p else 0
        self.prog.append(["add", cid, sub, m, rng.random() < 0.5 if group is None else group])
        self.note("op:add")

    def derive(self, op: str, src: str, other: str | None = None) -> str:
        """copy / freeze / plus: a new circuit made from `src`"""
        new = f"c{len(self.vis)}"
        if op == "plus":
            self.prog.append(["plus", new, src, other or src])
        else:
            self.prog.append([op, new, src])
        self.vis[new], self.her[new] = self.vis[src], (0 if op == "plus" else self.her[src])
        self.note("op:" + op)
        return new

    def rewrite(self, cid: str, which: str | None = None) -> str:
        """one spec-rebuilding operation; returns the circuit that carries on"""
        rng = self.rng
        which = which or rng.choice(["nonadj", "nonadj", "nonadj", "compress", "compress", "unpack", "copy",
                                     "plus", "add"])
        self.note("rewrite:" + which)
        if which in ("nonadj", "compress", "unpack"):
            self.prog.append([which, cid])
            return cid
        if which == "copy":
            return self.derive("copy", cid)
        if which == "plus":
            # `c + c` doubles the component list (and the size of the exact entries in the model): once per
            # history, and mostly with a small second operand that carries a Parameter of its own
            if self.her[cid] or self.nplus >= 1:
                self.prog.append(["nonadj", cid])
                return cid
            self.nplus += 1
            pids = [p for p, k in self.kind.items() if k != "free"]
            if pids and rng.random() < 0.65:
                d = self.new_circ(self.vis[cid])
                self.attach(d, rng.choice(pids))
                a, b = (cid, d) if rng.random() < 0.5 else (d, cid)
                return self.derive("plus", a, b)
            return self.derive("plus", cid, cid)
        host = self.new_circ(self.vis[cid] - self.her[cid] + rng.randint(0, 1))
        self.add_into(host, cid)
        return host


def _dict_all(g: Gen, d: str = "d0") -> None:
    items = [[f"k{i}", pid] for i, pid in enumerate(g.kind)]
    g.prog.append(["dnew", d, items])
    g.dkeys[d] = [k for k, _ in items]
    for k, q in items:
        g.dmap[(d, k)] = q
    g.note("op:dnew")


def gen_boundary_history(rng, big: bool = False) -> tuple[list, dict]:
    """1-3 Parameters pinned to a pivot (mostly exactly 0), held by a ParameterDict and by a circuit,
    then a walk of calls placed just outside / exactly on / across their bounds"""
    g = Gen(rng, big, True)
    for _ in range(rng.randint(1, 3)):
        g.boundary_param()
    while not g.kind:
        g.boundary_param()
    if rng.random() < 0.75:
        _dict_all(g)
    cid = g.new_circ(rng.randint(2, 3))
    for pid, kind in list(g.kind.items()):
        if kind != "free" and rng.random() < 0.8:
            g.attach(cid, pid)
    for _ in range(rng.randint(6, 18 if big else 13)):
        r = rng.random()
        if r < 0.8:
            g.boundary_move(rng.choice(list(g.kind)))
        elif r < 0.9:
            g.derive(rng.choice(["freeze", "freeze", "copy"]), rng.choice(list(g.vis)))
        else:
            pid = rng.choice(list(g.kind))
            if g.kind[pid] != "free":
                g.attach(rng.choice(list(g.vis)), pid)
    return g.prog, g.counts


def gen_rewrite_history(rng, big: bool = False) -> tuple[list, dict]:
    """Parameters in every field role (beam splitters on non-adjacent modes mostly), nested 0-2 levels
    deep through add (grouped or not), one or more rewrites at some level, and only THEN rounds of
    updates of every attached Parameter, with further rewrites / copies / frozen copies in between"""
    g = Gen(rng, big, True)
    for kind in ("unit", "unit", "phase"):
        v = g.fresh_value_new(kind)
        r = rng.random()
        if r < 0.55:
            b = None
        elif kind == "phase":
            b = [spell(rng, PHASE_SENT[1].v()), spell(rng, PHASE_SENT[2].v())]
        else:
            b = [spell(rng, UNIT_ZERO.v()), spell(rng, UNIT_ONE.v())]
        g.emit_pnew(kind, v, b)
    if rng.random() < 0.5:
        g.emit_pnew("unit", g.fresh_value_new("unit"), None)
    if rng.random() < 0.6:
        _dict_all(g)
    units = [p for p, k in g.kind.items() if k == "unit"]
    phases = [p for p, k in g.kind.items() if k == "phase"]

    def populate(cid: str, k: int) -> None:
        for _ in range(k):
            r = rng.random()
            if r < 0.55 and g.vis[cid] >= 2:
                g.attach(cid, rng.choice(units), rng.choice(["refl", "refl", "refl", "bsloss"]))
            elif r < 0.7:
                g.attach(cid, rng.choice(phases), "phi")
            elif r < 0.85:
                g.attach(cid, rng.choice(units), rng.choice(["psloss", "loss"]))
            else:
                op = cg.rand_prim_op(rng, cid, g.vis[cid])
                g.prog.append(op)
                if op[0] == "swaps" and rng.random() < 0.6:   # something for compress_mode_swaps to merge
                    g.prog.append(["swaps", cid, cg.rand_perm_pairs(rng, rng.sample(range(g.vis[cid]), min(2, g.vis[cid])))])
                g.note("op:literal-component")

    def rewrites(cid: str, lo: int, hi: int) -> str:
        for _ in range(rng.randint(lo, hi)):
            cid = g.rewrite(cid)
        return cid

    top = g.new_circ(rng.randint(3, 5 if big else 4))
    populate(top, rng.randint(2, 4))
    if not g.attached:
        g.attach(top, rng.choice(units), "refl")
    depth = rng.choice([0, 1, 1, 2, 2, 3 if big else 2])
    for _ in range(depth):
        if rng.random() < 0.35:
            top = rewrites(top, 1, 1)            # rewritten, then wired into a larger circuit
        if rng.random() < 0.15 and g.vis[top] - g.her[top] >= 3:
            i = rng.randrange(g.vis[top])
            g.prog.append(["herald", top, rng.choice([0, 1]), i, i])
            g.her[top] += 1
            g.note("op:herald")
        host = g.new_circ(g.vis[top] - g.her[top] + rng.randint(0, 1))
        if rng.random() < 0.5:
            populate(host, 1)
        g.add_into(host, top)
        if rng.random() < 0.5:
            populate(host, 1)
        top = host
    g.note(f"rewrite:depth={depth}")
    top = rewrites(top, 1, 2)
    for rnd in range(rng.randint(1, 2)):
        pids = sorted(g.attached)
        rng.shuffle(pids)
        for pid in pids:
            g.emit_set(pid, g.fresh_value(pid))
        if rnd == 0 and rng.random() < 0.6:
            r = rng.random()
            if r < 0.4:
                g.derive("freeze", top)
            elif r < 0.8:
                top = rewrites(top, 1, 1)
            else:
                g.boundary_move(rng.choice(pids))
    return g.prog, g.counts


def gen_shared_history(rng, big: bool = False) -> tuple[list, dict]:
    """CALLER-OWNED DATA: 2-4 Parameters built from ONE bounds container of the client (a list mostly, a tuple now and
    then) next to controls with a list of their own / without bounds, held by circuits and by ParameterDicts filled from
    one dict of the client; then bound updates on one holder placed between its own value and the value of ANOTHER
    holder (accepted for the one, would exclude the other), rejected updates, value updates of the others inside their
    declared bounds, the client writing into its containers afterwards, further Parameters from the container as it is
    then, and writes into objects the library handed out."""
    g = Gen(rng, big, True)
    kind = rng.choice(["unit", "unit", "unit", "phase", "free"])
    vals = PHASE_SORTED if kind == "phase" else ([l for l in UNIT_SORTED if 0 <= l.key <= 1] if kind == "unit" else UNIT_SORTED)
    bnds = PHASE_BOUNDS_SORTED if kind == "phase" else UNIT_SORTED
    sv = lambda l: None if l is None else spell(rng, l.v())  # noqa: E731
    boxes: dict[str, list] = {}     # name -> content as literals (the generator's record)
    kinds: dict[str, str] = {}
    holders: dict[str, list[int]] = {}

    def new_box() -> str:
        name = f"B{len(boxes)}"
        r = rng.random()
        if r < 0.55:      # the whole range of the role
            lo, hi = (bnds[0], bnds[-1]) if kind != "unit" else (UNIT_ZERO, UNIT_ONE)
        elif r < 0.8:
            i = rng.randrange(0, max(1, len(vals) // 3))
            j = rng.randrange(2 * len(vals) // 3, len(vals))
            lo, hi = vals[i], vals[j]
        elif r < 0.9:
            lo, hi = None, rng.choice(vals[len(vals) // 2:])
        else:
            lo, hi = rng.choice(vals[: len(vals) // 2]), None
        boxes[name] = [sv(lo), sv(hi)]
        kinds[name] = "list" if rng.random() < 0.8 else "tuple"
        holders[name] = []
        g.prog.append(["cbox", name, kinds[name], list(boxes[name])])
        g.note("shared:container:" + kinds[name])
        return name

    def inside(content: list) -> list:
        if len(content) != 2 or any(x is not None and "n" not in x for x in content):
            return list(vals)
        lo, hi = (None if x is None else Fraction(x["n"]) for x in content)
        return [l for l in vals if (lo is None or lo <= l.key) and (hi is None or l.key <= hi)] or list(vals)

    def holder(name: str) -> None:
        if g.npid >= 8:
            return
        c = inside(boxes[name])
        pid = g.emit_pnew(kind, sv(rng.choice(c)), list(boxes[name]), box=name)
        if pid is not None:
            holders[name].append(pid)
        g.note("shared:pnew-from-container")

    box = new_box()
    for _ in range(rng.randint(2, 4)):
        holder(box)
    if rng.random() < 0.4:          # control: equal content, a list of its own
        g.emit_pnew(kind, sv(rng.choice(inside(boxes[box]))), list(boxes[box]))
    if rng.random() < 0.3:
        g.emit_pnew(kind, sv(rng.choice(vals)), None)
    if rng.random() < 0.25:
        b2 = new_box()
        for _ in range(rng.randint(1, 2)):
            holder(b2)
    while not g.kind:
        g.emit_pnew(kind, sv(rng.choice(vals)), None)
    dboxes: list[str] = []
    if rng.random() < 0.7:
        # ParameterDicts filled from ONE dict of the client
        items = [[f"k{i}", pid] for i, pid in enumerate(g.kind)]
        for d in (["d0", "d1"] if rng.random() < 0.5 else ["d0"]):
            g.prog.append(["dnew", d, [list(x) for x in items], {"box": "D0"}])
            g.dkeys[d] = [k for k, _ in items]
            for k, q in items:
                g.dmap[(d, k)] = q
            g.note("op:dnew")
        dboxes.append("D0")
    cid = g.new_circ(rng.randint(2, 3))
    if kind != "free":
        for pid in list(g.kind):
            if rng.random() < 0.8:
                g.attach(cid, pid)
    if rng.random() < 0.3:
        g.prog.append(["swaps", cid, cg.rand_perm_pairs(rng, list(range(g.vis[cid])))])
        dboxes.append("swaps:" + cid)

    def squeeze() -> None:
        """a bound for one holder that its own value satisfies and that lies beyond the value of another holder"""
        name = rng.choice([n for n in holders if holders[n]] or [box])
        hs = [p for p in holders[name] if g.cur.get(p) is not None]
        if not hs:
            return
        pid = rng.choice(hs)
        cur = g.cur[pid]
        side = rng.choice(["min", "max"])
        others = [g.cur[q] for q in hs if q != pid]
        if side == "max":
            c = [l for l in bnds if l.key >= cur and any(o > l.key for o in others)]
        else:
            c = [l for l in bnds if l.key <= cur and any(o < l.key for o in others)]
        if not c:
            c = [l for l in bnds if (l.key >= cur if side == "max" else l.key <= cur)]
            g.note("shared:bound-update:accepted")
        else:
            g.note("shared:bound-update:accepted, beyond the value of another holder")
        g.emit_bound(pid, side, sv(rng.choice(c)))

    for _ in range(rng.randint(7, 16 if big else 12)):
        r = rng.random()
        pid = rng.choice(list(g.kind))
        if r < 0.3:
            squeeze()
        elif r < 0.5:
            # value of a holder, anywhere inside the bounds IT was given (accepted unless its own setters narrowed them)
            lo, hi = g.lo.get(pid), g.hi.get(pid)
            c = [l for l in vals if (lo is None or lo <= l.key) and (hi is None or l.key <= hi)] or vals
            g.emit_set(pid, sv(rng.choice([c[0], c[-1], rng.choice(c)])))
        elif r < 0.62:
            g.boundary_move(pid)
        elif r < 0.76:
            lists = [n for n in boxes if kinds[n] == "list"]
            if lists:
                name = rng.choice(lists)
                how = rng.choice(["set", "set", "set", "clear", "append", "reverse", "pop"])
                i = rng.randrange(2)
                lit = rng.choice([None, v_other(0), sv(rng.choice(bnds)), sv(rng.choice(bnds))])
                g.prog.append(["cmut", name, how, i, lit])
                box_mut(boxes[name], how, i, lit)
                g.note("shared:client-writes-into-bounds-list:" + how)
        elif r < 0.84 and dboxes:
            name = rng.choice(dboxes)
            if name.startswith("swaps:"):
                g.prog.append(["cmut", name, rng.choice(["clear", "pop", "ident"]), rng.randrange(3), None])
            else:
                how = rng.choice(["clear", "pop", "setp", "append"])
                g.prog.append(["cmut", name, how, rng.randrange(3), rng.choice(list(g.kind)) if how in ("setp", "append") else None])
                dboxes.remove(name)   # the dict is not handed over again after the client changed it
            g.note("shared:client-writes-into-dict")
        elif r < 0.9:
            holder(rng.choice(list(boxes)))     # the container as it is NOW (possibly no longer two bounds)
        elif r < 0.95:
            what = rng.choice(["gap", "pd_items", "pd_params", "pd_bounds"])
            g.prog.append(["cscrib", what, cid if what == "gap" else "d0"])
            g.note("shared:client-writes-into-returned-object")
        else:
            g.derive(rng.choice(["freeze", "copy"]), rng.choice(list(g.vis)))
    return g.prog, g.counts


def gen_history(rng, big: bool = False, rewrites: bool = True) -> tuple[list, dict]:
    g = Gen(rng, big, rewrites)
    for _ in range(rng.randint(1, 3)):
        g.new_param()
    while not g.kind:
        g.new_param()
    # make sure both attachable kinds exist most of the time
    if rng.random() < 0.8:
        g.new_param("unit")
    if rng.random() < 0.6:
        g.new_param("phase")
    for _ in range(rng.randint(1, 3)):
        g.new_circ()
    steps = rng.randint(6, 34 if big else 24)
    for _ in range(steps):
        r = rng.random()
        if r < 0.36:
            g.update()
        elif r < 0.66:
            g.param_component(rng.choice(list(g.vis)))
        elif r < 0.7 and g.npid < 8:
            g.new_param()
        else:
            g.structure()
    return g.prog, g.counts


# --------------------------------------------------------------------------- directed corpus (always runs first)


def _n(lit: Lit, py=None) -> dict:
    return {"n": frac_str(lit.key), "py": lit.py if py is None else py}


def corpus() -> list[tuple[str, list]]:
    """Short hand-written histories for the shapes that random generation reaches least often.
    (a) boundary numerics: a bound / value that is exactly 0 in each spelling (0, 0.0, -0.0: all falsy),
        equal bounds, value on a bound, negative range, bounds installed / removed through the setters,
        updates through a ParameterDict;
    (b) one circuit carrying a Parameter in EVERY field role (reflectivity on adjacent, ascending and
        descending non-adjacent modes, phase, loss of a beam splitter / phase shifter / loss element),
        nested 0-2 levels deep, through every spec-rebuilding operation, updated only AFTERWARDS."""
    out: list[tuple[str, list]] = []
    u = {str(l.key): l for l in UNIT_SORTED}
    neg_half, neg_q, neg_one, big = u["-1/2"], u["-1/4"], u["-1"], u["3/2"]
    a, b2 = u["9/25"], u["16/25"]
    ph = PHASE_SORTED
    pneg, ppos, ppos2 = ph[20], ph[45], ph[50]
    lo4, hi4 = PHASE_BOUNDS_SORTED[1], PHASE_BOUNDS_SORTED[-2]
    for zs, z in (("int0", 0), ("0.0", 0.0), ("-0.0", -0.0)):
        Z = _n(UNIT_ZERO, z)
        PZ = _n(PHASE_ZERO, z)
        # maximum exactly 0 over a negative range; direct and ParameterDict updates; removal, re-installation
        out.append((f"max={zs}", [
            ["pnew", 0, _n(neg_half), [_n(neg_one, -1), Z]], ["dnew", "d0", [["k", 0]]],
            ["pset", 0, _n(big)], ["dset", "d0", "k", _n(u["2"], 2)], ["pset", 0, _n(a)], ["pset", 0, Z],
            ["pset", 0, _n(u["121/3721"])], ["pset", 0, v_other(0)], ["pmax", 0, None], ["pset", 0, _n(a)],
            ["pmax", 0, Z], ["dset", "d0", "k", _n(neg_q)], ["pmax", 0, Z], ["pset", 0, _n(a)]]))
        # minimum exactly 0; the other bound absent, so "has bounds" rests on the 0 alone
        out.append((f"min={zs}", [
            ["pnew", 0, _n(a), [Z, None]], ["dnew", "d0", [["k", 0]]],
            ["pset", 0, _n(neg_q)], ["dset", "d0", "k", _n(neg_one, -1)], ["pset", 0, v_other(0)],
            ["pset", 0, v_other(1)], ["pset", 0, Z], ["pmin", 0, None], ["pset", 0, _n(neg_q)],
            ["pmin", 0, Z], ["pset", 0, _n(b2)], ["pmin", 0, Z], ["pset", 0, _n(neg_half)]]))
        out.append((f"max-only={zs}", [
            ["pnew", 0, _n(neg_q), [None, Z]], ["pset", 0, v_other(0)], ["pset", 0, _n(a)],
            ["pset", 0, _n(neg_one, -1)], ["pmin", 0, _n(neg_one, -1.0)], ["pset", 0, _n(u["-1/2"])],
            ["pset", 0, _n(big)]]))
        # min == max == value == 0
        out.append((f"equal={zs}", [
            ["pnew", 0, Z, [Z, _n(UNIT_ZERO, 0.0)]], ["pset", 0, _n(a)], ["pset", 0, _n(neg_q)],
            ["pset", 0, _n(UNIT_ZERO, -0.0)], ["pset", 0, v_other(1)], ["pmin", 0, _n(a)], ["pmax", 0, _n(neg_q)],
            ["pmax", 0, None], ["pset", 0, _n(a)], ["pmin", 0, None], ["pset", 0, v_other(0)]]))
        # the VALUE is exactly 0 and a bound arrives that it violates / that equals it
        out.append((f"value={zs}", [
            ["pnew", 0, Z, None], ["pmin", 0, _n(a)], ["pmax", 0, _n(neg_q)], ["pmin", 0, _n(u["121/3721"])],
            ["pmax", 0, Z], ["pset", 0, _n(a)], ["pmin", 0, _n(UNIT_ZERO, 0)], ["pset", 0, _n(neg_q)],
            ["pnew", 1, Z, [_n(a), None]], ["pnew", 2, Z, [None, _n(neg_q)]], ["pnew", 3, Z, [Z, Z]]]))
        # phase parameter, negative range up to exactly 0, attached to a phase shifter
        out.append((f"phase-max={zs}", [
            ["pnew", 0, pneg.v(), [_n(lo4), PZ]], ["dnew", "d0", [["k", 0]]], ["new", "c0", 2],
            ["psp", "c0", 1, {"p": 0}, None], ["pset", 0, ppos.v()], ["dset", "d0", "k", ppos2.v()],
            ["pset", 0, PZ], ["freeze", "c1", "c0"], ["pset", 0, ph[10].v()], ["pmax", 0, None],
            ["pset", 0, ppos.v()], ["pmax", 0, PZ], ["pmin", 0, PZ], ["pset", 0, pneg.v()]]))
        # a field whose Parameter holds exactly 0 when it is attached / frozen, and becomes non-zero later
        out.append((f"field-at-{zs}", [
            ["pnew", 0, Z, None], ["pnew", 1, Z, [Z, _n(UNIT_ONE, 1)]], ["pnew", 2, PZ, None],
            ["new", "c0", 3], ["bsp", "c0", 0, 2, {"p": 0}, "Rx", {"p": 1}], ["psp", "c0", 1, {"p": 2}, {"p": 1}],
            ["lossp", "c0", 2, {"p": 1}], ["freeze", "c1", "c0"], ["new", "c2", 3], ["add", "c2", "c0", 0, True],
            ["freeze", "c3", "c2"], ["pset", 1, _n(a)], ["pset", 0, _n(b2)], ["pset", 2, ppos.v()],
            ["freeze", "c4", "c2"], ["pset", 1, Z], ["pset", 0, _n(UNIT_ONE, 1)], ["pset", 2, PZ]]))
    # (b) every field role x depth x rewrite, rewrite before update
    vals0 = [u["9/25"], u["16/25"], u["25/169"], u["144/169"], u["64/289"]]
    vals1 = [u["225/289"], u["49/625"], u["576/625"], u["400/841"], u["441/841"]]
    build = [["pnew", i, vals0[i].v(), None if i % 2 else [_n(UNIT_ZERO, 0), _n(UNIT_ONE, 1)]] for i in range(5)]
    build += [["pnew", 5, pneg.v(), None], ["pnew", 6, ppos.v(), [_n(lo4), _n(hi4)]],
              ["dnew", "d0", [[f"k{i}", i] for i in range(7)]],
              ["new", "c0", 4],
              ["bsp", "c0", 3, 0, {"p": 0}, "Rx", {"p": 1}],     # non-adjacent, descending, loss Parameter
              ["psp", "c0", 1, {"p": 5}, {"p": 2}],              # phase + loss Parameter
              ["bsp", "c0", 0, 2, {"p": 3}, "H", None],          # non-adjacent, ascending
              ["swaps", "c0", [[0, 1], [1, 0]]], ["swaps", "c0", [[1, 2], [2, 1]]],
              ["bsp", "c0", 1, 2, {"p": 3}, "Rx", None],         # adjacent, the same Parameter twice
              ["lossp", "c0", 2, {"p": 4}], ["psp", "c0", 3, {"p": 6}, None]]
    updates = [["dset" if i % 2 else "pset", *(["d0", f"k{i}"] if i % 2 else [i]), vals1[i].v()] for i in range(5)]
    updates += [["pset", 5, ppos2.v()], ["dset", "d0", "k6", pneg.v()]]
    nests = {
        "flat": ([], "c0"),
        "group": ([["new", "c1", 5], ["add", "c1", "c0", 1, True]], "c1"),
        "inline": ([["new", "c1", 4], ["add", "c1", "c0", 0, False]], "c1"),
        "group-in-inline": ([["new", "c1", 5], ["add", "c1", "c0", 0, True], ["new", "c2", 6],
                             ["bsp", "c2", 5, 0, {"p": 4}, "H", None], ["add", "c2", "c1", 1, False]], "c2"),
        "group-of-group": ([["new", "c1", 4], ["add", "c1", "c0", 0, True], ["new", "c2", 5],
                            ["add", "c2", "c1", 1, True]], "c2"),
        "heralded": ([["herald", "c0", 0, 1, 1], ["new", "c1", 4], ["add", "c1", "c0", 1, False]], "c1"),
    }
    rewrites = {
        "nonadj": lambda t: [["nonadj", t]],
        "compress": lambda t: [["compress", t]],
        "unpack": lambda t: [["unpack", t]],
        "unpack+nonadj": lambda t: [["unpack", t], ["nonadj", t], ["compress", t]],
        "nonadj-twice": lambda t: [["nonadj", t], ["nonadj", t]],
        "copy": lambda t: [["copy", "x0", t], ["nonadj", "x0"]],
        "plus": lambda t: [["plus", "x0", t, t], ["compress", "x0"]],
        "add": lambda t: [["new", "x0", 7], ["add", "x0", t, 0, True], ["nonadj", "x0"], ["unpack", "x0"]],
        "freeze": lambda t: [["nonadj", t], ["freeze", "x0", t]],
    }
    for nname, (nest, top) in nests.items():
        for rname, rw in rewrites.items():
            if nname == "heralded" and rname == "plus":
                continue
            out.append((f"fields:{nname}:{rname}", [*build, *nest, *rw(top), *updates, ["freeze", "x1", top]]))
    # (c) caller-owned data: one bounds container for several Parameters, one dict for several ParameterDicts, the client
    #     writing into them afterwards, writes into returned objects
    lo_v, hi_v = u["25/169"], u["144/169"]
    mid1, mid2 = u["9/25"], u["16/25"]
    for cname, ckind, zero, one in (("list-int", "list", 0, 1), ("list-float", "list", 0.0, 1.0), ("tuple", "tuple", 0, 1.0)):
        B = [_n(UNIT_ZERO, zero), _n(UNIT_ONE, one)]
        out.append((f"shared-bounds:{cname}", [
            ["cbox", "B0", ckind, list(B)],
            ["pnew", 0, hi_v.v(), list(B), {"box": "B0"}], ["pnew", 1, lo_v.v(), list(B), {"box": "B0"}],
            ["pnew", 2, mid2.v(), list(B), {"box": "B0"}], ["pnew", 3, mid1.v(), list(B)],
            ["dnew", "d0", [["a", 0], ["b", 1]], {"box": "D0"}], ["dnew", "d1", [["a", 0], ["b", 1]], {"box": "D0"}],
            ["new", "c0", 3], ["bsp", "c0", 0, 2, {"p": 0}, "Rx", {"p": 1}], ["lossp", "c0", 1, {"p": 2}],
            ["pmax", 1, mid1.v()],                       # fine for parameter 1; says nothing about 0 and 2
            ["pmin", 1, _n(u["121/3721"])],
            ["pset", 0, _n(u["576/625"])], ["dset", "d1", "a", _n(u["49/625"])], ["pset", 2, hi_v.v()],
            ["pmin", 0, mid1.v()],                       # rejected (value 49/625): nothing may move
            ["pmin", 2, mid2.v()], ["pset", 1, _n(u["64/289"])], ["pset", 1, mid2.v()], ["pset", 3, _n(UNIT_ONE, one)],
            ["cmut", "B0", "set", 1, mid1.v()], ["pset", 0, hi_v.v()], ["cmut", "B0", "set", 0, hi_v.v()],
            ["pset", 1, _n(u["121/3721"])], ["cmut", "B0", "reverse", 0, None], ["cmut", "B0", "set", 0, v_other(0)],
            ["pset", 2, _n(UNIT_ONE, one)], ["cmut", "B0", "clear", 0, None],
            ["pnew", 4, mid1.v(), [] if ckind == "list" else list(B), {"box": "B0"}],
            ["cmut", "B0", "append", 0, None], ["cmut", "B0", "append", 0, mid2.v()],
            ["pnew", 5, mid1.v(), [None, mid2.v()] if ckind == "list" else list(B), {"box": "B0"}],
            ["pmax", 5, hi_v.v()], ["pset", 5, hi_v.v()],
            ["dremove", "d0", "a"], ["dset", "d1", "a", mid1.v()], ["dsetp", "d0", "c", 2],
            ["cmut", "D0", "setp", 0, 3], ["cmut", "D0", "clear", 0, None], ["dset", "d1", "b", _n(u["64/289"])],
            ["cscrib", "gap", "c0"], ["cscrib", "pd_items", "d1"], ["cscrib", "pd_params", "d0"], ["cscrib", "pd_bounds", "d1"],
            ["freeze", "c1", "c0"], ["pset", 0, mid2.v()]]))
    # one-sided containers, a phase Parameter pair sharing a list, the mode_swaps dict
    PB = [_n(lo4), _n(hi4)]
    out.append(("shared-bounds:phase", [
        ["cbox", "B0", "list", list(PB)], ["pnew", 0, pneg.v(), list(PB), {"box": "B0"}],
        ["pnew", 1, ppos2.v(), list(PB), {"box": "B0"}], ["new", "c0", 3], ["psp", "c0", 0, {"p": 0}, None],
        ["psp", "c0", 2, {"p": 1}, None], ["swaps", "c0", [[0, 1], [1, 2], [2, 0]]], ["cmut", "swaps:c0", "ident", 0, None],
        ["pmax", 0, _n(PHASE_ZERO, 0)], ["pset", 1, ppos.v()], ["pmin", 1, _n(PHASE_ZERO, 0.0)], ["pset", 0, ph[10].v()],
        ["cmut", "swaps:c0", "clear", 0, None], ["cmut", "B0", "set", 0, _n(PHASE_ZERO, 0)], ["pset", 0, pneg.v()],
        ["cmut", "B0", "pop", 1, None], ["pset", 1, ppos2.v()], ["cscrib", "gap", "c0"], ["pset", 0, ph[12].v()]]))
    out.append(("shared-bounds:one-sided", [
        ["cbox", "B0", "list", [None, _n(UNIT_ONE, 1)]], ["cbox", "B1", "list", [_n(UNIT_ZERO, 0), None]],
        ["pnew", 0, hi_v.v(), [None, _n(UNIT_ONE, 1)], {"box": "B0"}], ["pnew", 1, lo_v.v(), [None, _n(UNIT_ONE, 1)], {"box": "B0"}],
        ["pnew", 2, hi_v.v(), [_n(UNIT_ZERO, 0), None], {"box": "B1"}], ["pnew", 3, lo_v.v(), [_n(UNIT_ZERO, 0), None], {"box": "B1"}],
        ["pmin", 0, mid2.v()], ["pset", 1, _n(neg_q)], ["pmax", 3, mid1.v()], ["pset", 2, _n(big)], ["pmax", 1, _n(UNIT_ZERO, 0)],
        ["pset", 0, _n(UNIT_ONE, 1)], ["pmin", 2, _n(UNIT_ONE, 1.0)], ["pset", 3, _n(UNIT_ZERO, -0.0)],
        ["cmut", "B0", "set", 0, mid1.v()], ["cmut", "B1", "set", 1, mid1.v()], ["pset", 1, _n(neg_one, -1)], ["pset", 2, _n(u["2"], 2)]]))
    return out
