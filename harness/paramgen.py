"""
Histories over Parameter / ParameterDict / Circuit objects (C10): exact literals, generation,
execution on lightworks, snapshots of the public observables, and the "shadow" rebuild used as the
property oracle (the same construction calls with every Parameter replaced by the plain value it
holds at the time of the read).

An op is a JSON list.  Parameter-related ops are understood by the driver's `c10` handler, every
other op is a circgen op (`new`, `unitary`, `bs`, `ps`, `loss`, `barrier`, `swaps`, `herald`, `add`,
`plus`, `copy`, `unpack`).  Values travel as {"n": "<exact key>", "py": <python number>} or
{"o": <tag>} (non-numeric); the driver reads "n"/"o" only, the implementation gets "py".

Exact-number convention (DESIGN §3.1).  The model needs sqrt/trig results exactly, so
  * reflectivity / loss literals are x = c^2 for a Pythagorean pair (c, s): key = x (a rational),
    views rt = c = sqrt(x), rt1 = s = sqrt(1-x);  out-of-range literals (3/2, -1/4, ...) carry no views;
  * phase literals are phi = atan2(y, x) of a rational circle point g = x + iy: view e = g, and
    key = 100 + diamond-angle(g), an order-preserving rational image of phi (bounds used with phase
    parameters are such angles or the sentinels +-4, +-7, mapped to 100 +- 4, 100 +- 7).
The bound checks only use the order, so any order-embedding of the literals is faithful; that the
keys are ordered like the floats handed to the code is asserted at import time.
"""

from __future__ import annotations

import math
import warnings
from fractions import Fraction

import numpy as np

import circgen as cg
import lightworks as lw
from core import CIRCLE, PYTH, GQ, MachineryFault, exc_class, frac_str, mat_close

warnings.filterwarnings("ignore", category=RuntimeWarning)
np.seterr(all="ignore")

# --------------------------------------------------------------------------- literals


class Lit:
    __slots__ = ("key", "kind", "py", "views")

    def __init__(self, kind: str, key: Fraction, py, views: dict | None = None) -> None:
        self.kind, self.key, self.py, self.views = kind, Fraction(key), py, views or {}

    def v(self) -> dict:
        return {"n": frac_str(self.key), "py": self.py}


def diamond(g: GQ) -> Fraction:
    """order-preserving rational image of atan2(g.im, g.re): (-pi, pi] -> (-2, 2]"""
    x, y = g.re, g.im
    if y >= 0 and x > 0:
        return y / (x + y)              # [0, 1)
    if y > 0:
        return 1 + (-x) / (-x + y)      # [1, 2)
    if y == 0:
        return Fraction(2)              # phi = pi
    if x >= 0:
        return -((-y) / (x - y))        # [-1, 0)
    return -1 - (-x) / (-x - y)         # (-2, -1)


UNIT_IN = [Lit("unit", c * c, float(c * c), {"rt": GQ(c), "rt1": GQ(s)}) for c, s in PYTH]
UNIT_OUT = [Lit("unit", Fraction(a, b), a / b) for a, b in ((3, 2), (-1, 4), (5, 4), (2, 1), (-1, 1), (-1, 2))]
UNIT_INT = {0: Lit("unit", 0, 0, {"rt": GQ(0), "rt1": GQ(1)}), 1: Lit("unit", 1, 1, {"rt": GQ(1), "rt1": GQ(0)})}
PHASE = [Lit("phase", 100 + diamond(g), math.atan2(float(g.im), float(g.re)), {"e": g}) for g in CIRCLE]
PHASE_SENT = [Lit("phase", 100 + q, float(q)) for q in (-7, -4, 4, 7)]
OTHER = ["a", None, "xyz"]

BY_KEY: dict[Fraction, Lit] = {}
for _l in [*UNIT_IN, *UNIT_OUT, *PHASE, *PHASE_SENT]:
    if _l.key in BY_KEY:
        raise MachineryFault(f"literal key {_l.key} is not unique")
    BY_KEY[_l.key] = _l
for _tab in ([*UNIT_IN, *UNIT_OUT], [*PHASE, *PHASE_SENT]):
    _s = sorted(_tab, key=lambda l: l.key)
    if any(not (a.py < b.py) for a, b in zip(_s, _s[1:])):
        raise MachineryFault("literal keys are not ordered like the floats handed to the code")
UNIT_ZERO = BY_KEY[Fraction(0)]
UNIT_ONE = BY_KEY[Fraction(1)]


def v_other(t: int) -> dict:
    return {"o": t}


def py_of(v: dict):
    return OTHER[v["o"]] if "o" in v else v["py"]


def views_for(prog: list) -> list[dict]:
    """rows of the float-function table for every numeric literal mentioned in the program"""
    keys: set[Fraction] = set()

    def walk(x) -> None:
        if isinstance(x, dict):
            if "n" in x:
                keys.add(Fraction(x["n"]))
            for y in x.values():
                walk(y)
        elif isinstance(x, list):
            for y in x:
                walk(y)

    walk(prog)
    rows = []
    for k in sorted(keys):
        lit = BY_KEY.get(k)
        if lit is None:
            raise MachineryFault(f"literal {k} is not in the exact tables")
        rows.append({"k": frac_str(k), **{name: g.s() for name, g in lit.views.items()}})
    return rows


# --------------------------------------------------------------------------- op constructors


def refl_lit(c: Fraction, s: Fraction, valid: bool = True, py=None) -> dict:
    return {"c": frac_str(c), "s": frac_str(s), "valid": valid, "py": float(c * c) if py is None else py}


def loss_lit(a: Fraction, b: Fraction, valid: bool = True, py=None) -> dict:
    return {"a": frac_str(a), "b": frac_str(b), "valid": valid, "py": float(b * b) if py is None else py}


def phi_lit(g: GQ) -> dict:
    return {"e": g.s(), "py": math.atan2(float(g.im), float(g.re))}


PARAM_OPS = ("pnew", "pset", "pmin", "pmax", "dnew", "dset", "dsetp", "dremove")
PCIRC_OPS = ("bsp", "psp", "lossp", "freeze")


# --------------------------------------------------------------------------- execution on lightworks


class World:
    def __init__(self) -> None:
        self.params: dict[int, lw.Parameter] = {}
        self.dicts: dict[str, lw.ParameterDict] = {}
        self.circs: dict = {}


def _arg(w: World | None, a: dict | None, vals: dict | None = None):
    """python argument for a field: a Parameter, its substituted value, or the literal"""
    if a is None:
        return None
    if "p" in a:
        return vals[a["p"]] if vals is not None else w.params[a["p"]]  # type: ignore[union-attr]
    return a["py"]


def apply_pcirc(circs: dict, op: list, w: World | None, vals: dict | None) -> None:
    """bsp / psp / lossp on `circs`; with `vals` every Parameter is replaced by vals[pid]"""
    name = op[0]
    c = circs[op[1]]
    if name == "bsp":
        _, _cid, m1, m2, ra, conv, la = op
        kw = {} if la is None else {"loss": _arg(w, la, vals)}
        c.bs(m1, m2, reflectivity=_arg(w, ra, vals), convention=conv, **kw)
    elif name == "psp":
        _, _cid, m, pa, la = op
        kw = {} if la is None else {"loss": _arg(w, la, vals)}
        c.ps(m, _arg(w, pa, vals), **kw)
    elif name == "lossp":
        _, _cid, m, la = op
        c.loss(m, _arg(w, la, vals))
    else:
        raise AssertionError(name)


def apply_op(w: World, op: list) -> str:
    """run one op on the implementation; 'ok' or the exception class name"""
    name = op[0]
    try:
        if name == "pnew":
            _, pid, v, b = op
            if pid in w.params:
                return "KeyError"
            bounds = None if b is None else [None if x is None else py_of(x) for x in b]
            w.params[pid] = lw.Parameter(py_of(v), bounds=bounds)
        elif name == "pset":
            w.params[op[1]].set(py_of(op[2]))
        elif name == "pmin":
            w.params[op[1]].min_bound = None if op[2] is None else py_of(op[2])
        elif name == "pmax":
            w.params[op[1]].max_bound = None if op[2] is None else py_of(op[2])
        elif name == "dnew":
            w.dicts[op[1]] = lw.ParameterDict(**{k: w.params[pid] for k, pid in op[2]})
        elif name == "dset":
            w.dicts[op[1]][op[2]] = py_of(op[3])
        elif name == "dsetp":
            w.dicts[op[1]][op[2]] = w.params[op[3]]
        elif name == "dremove":
            w.dicts[op[1]].remove(op[2])
        elif name in ("bsp", "psp", "lossp"):
            apply_pcirc(w.circs, op, w, None)
        elif name == "freeze":
            w.circs[op[1]] = w.circs[op[2]].copy(freeze_parameters=True)
        else:
            return cg.apply_op(w.circs, op)
    except AssertionError:
        raise
    except Exception as e:  # noqa: BLE001
        return exc_class(e)
    return "ok"


def run_prog(prog: list) -> tuple[World, list[str]]:
    w = World()
    return w, [apply_op(w, op) for op in prog]


# --------------------------------------------------------------------------- observation


def same_val(a, b) -> bool:
    if a is b:
        return True
    try:
        if isinstance(a, float) and isinstance(b, float) and math.isnan(a) and math.isnan(b):
            return True
        return type(a) is type(b) and bool(a == b)
    except Exception:  # noqa: BLE001
        return False


def snapshot(w: World) -> dict:
    """public observables of every live object"""
    ident = {id(p): pid for pid, p in w.params.items()}
    params = {pid: (p.get(), p.min_bound, p.max_bound) for pid, p in w.params.items()}
    dicts = {}
    for d, pd in w.dicts.items():
        items = dict(pd.items())
        dicts[d] = [(k, ident.get(id(pd[k]), -1), items[k]) for k in pd.keys()]
    circs = {}
    for cid, c in w.circs.items():
        o: dict = {"n": c.n_modes}
        try:
            o["U"] = np.array(c.U)
        except Exception as e:  # noqa: BLE001
            o["err"] = exc_class(e)
        o["params"] = [ident.get(id(p), -1) for p in c.get_all_params()]
        circs[cid] = o
    return {"params": params, "dicts": dicts, "circs": circs}


def same_circ(a: dict, b: dict, tol: float = 1e-12) -> bool:
    if a["n"] != b["n"] or a["params"] != b["params"] or a.get("err") != b.get("err"):
        return False
    if "U" in a:
        ua, ub = a["U"], b["U"]
        if ua.shape != ub.shape:
            return False
        na, nb = np.isnan(ua), np.isnan(ub)
        return bool(np.array_equal(na, nb) and np.all(np.abs(np.where(na, 0, ua) - np.where(nb, 0, ub)) <= tol))
    return True


def snap_diff(a: dict, b: dict) -> str | None:
    """first difference between two snapshots of the same world (None = identical)"""
    for pid, pa in a["params"].items():
        pb = b["params"].get(pid)
        if pb is None or not all(same_val(x, y) for x, y in zip(pa, pb)):
            return f"parameter {pid}: (value, min, max) {pa} -> {pb}"
    for d, ia in a["dicts"].items():
        ib = b["dicts"].get(d)
        if ib is None or len(ia) != len(ib) or any(
                x[0] != y[0] or x[1] != y[1] or not same_val(x[2], y[2]) for x, y in zip(ia, ib)):
            return f"ParameterDict {d}: {ia} -> {ib}"
    for cid, ca in a["circs"].items():
        cb = b["circs"].get(cid)
        if cb is None or not same_circ(ca, cb):
            return f"circuit {cid} (U / get_all_params) changed"
    if set(a["params"]) != set(b["params"]) or set(a["dicts"]) != set(b["dicts"]) or set(a["circs"]) != set(b["circs"]):
        return "set of live objects changed"
    return None


def in_bounds(val, lo, hi) -> bool:
    """the property's reading of `value lies within its bounds` (python comparisons)"""
    try:
        if lo is not None and not (lo <= val):
            return False
        if hi is not None and not (val <= hi):
            return False
    except Exception:  # noqa: BLE001
        return False
    return True


# --------------------------------------------------------------------------- shadow rebuild (oracle)


def shadow(prog: list, results: list[str], hist_vals: list[dict], upto: int, vals: dict, memo: dict):
    """Pool of parameter-free circuits built by the accepted circuit calls prog[0..upto] with every
    Parameter replaced by vals[pid]; a frozen copy taken at call j uses the values held at call j.
    Returns (pool, tainted, diverged): `tainted` = circuits one of whose components rejects the value
    when it is given directly (so the parametrised circuit must fail to compile)."""
    pool: dict = {}
    taint: set = set()
    diverged: list[str] = []
    for j in range(upto + 1):
        op = prog[j]
        name = op[0]
        if results[j] != "ok" or name in PARAM_OPS:
            continue
        if name == "freeze":
            if j not in memo:
                sp, st, sd = shadow(prog, results, hist_vals, j - 1, hist_vals[j], memo)
                memo[j] = (sp[op[2]], op[2] in st, sd)
            c, t, sd = memo[j]
            diverged += sd
            pool[op[1]] = c.copy()
            taint.discard(op[1])
            if t:
                taint.add(op[1])
        elif name in ("bsp", "psp", "lossp"):
            try:
                apply_pcirc(pool, op, None, vals)
            except Exception:  # noqa: BLE001
                taint.add(op[1])
        else:
            r = cg.apply_op(pool, op)
            if r != "ok":
                diverged.append(f"call #{j} {op[:4]} accepted with Parameters but {r} with their values")
            if name == "add":
                if op[2] in taint:
                    taint.add(op[1])
            elif name == "plus":
                taint.discard(op[1])
                if op[2] in taint or op[3] in taint:
                    taint.add(op[1])
            elif name == "copy":
                taint.discard(op[1])
                if op[2] in taint:
                    taint.add(op[1])
            elif name in ("new", "unitary"):
                taint.discard(op[1])
    return pool, taint, diverged


def shadow_check(prog, results, hist_vals, t: int, snap: dict, memo: dict) -> list[tuple[str, str]]:
    """compare every live circuit at time t with its shadow; returns (clause, text) problems"""
    out = []
    pool, taint, diverged = shadow(prog, results, hist_vals, t, hist_vals[t], memo)
    for d in diverged:
        out.append(("shadow", d))
    for cid, obs in snap["circs"].items():
        if cid not in pool:
            out.append(("shadow", f"circuit {cid} missing from the rebuild"))
            continue
        exp_err = cid in taint
        u = None
        if not exp_err:
            try:
                u = np.array(pool[cid].U)
            except Exception:  # noqa: BLE001
                exp_err = True
        if exp_err and "err" not in obs:
            out.append(("invalid_value", f"call #{t}: circuit {cid} holds a parameter value that its component "
                        f"rejects when given directly, but U returns a matrix instead of raising"))
        elif exp_err and obs["err"] != "CircuitCompilationError":
            out.append(("invalid_value", f"call #{t}: circuit {cid}: U raises {obs['err']}, not CircuitCompilationError"))
        elif not exp_err and "err" in obs:
            out.append(("live", f"call #{t}: circuit {cid}: U raises {obs['err']} although the same circuit built "
                        f"from the current values compiles"))
        elif not exp_err and not mat_close(obs["U"], u, 1e-9):
            out.append(("live", f"call #{t}: U of circuit {cid} is not the unitary of the same circuit built from "
                        f"the parameters' current values"))
    return out


# --------------------------------------------------------------------------- generation


def well_formed(prog: list) -> bool:
    """every object is defined before it is used"""
    ps: set = set()
    ds: set = set()
    cs: set = set()

    def pids(a) -> list:
        return [a["p"]] if isinstance(a, dict) and "p" in a else []

    for op in prog:
        name = op[0]
        if name == "pnew":
            if op[1] in ps:
                return False
            ps.add(op[1])
        elif name in ("pset", "pmin", "pmax"):
            if op[1] not in ps:
                return False
        elif name == "dnew":
            if any(pid not in ps for _, pid in op[2]):
                return False
            ds.add(op[1])
        elif name in ("dset", "dremove"):
            if op[1] not in ds:
                return False
        elif name == "dsetp":
            if op[1] not in ds or op[3] not in ps:
                return False
        elif name in ("bsp", "psp", "lossp"):
            if op[1] not in cs or any(pid not in ps for a in op[2:] for pid in pids(a)):
                return False
        elif name == "freeze":
            if op[2] not in cs:
                return False
            cs.add(op[1])
        elif name in ("new", "unitary"):
            cs.add(op[1])
        elif name == "plus":
            if op[2] not in cs or op[3] not in cs:
                return False
            cs.add(op[1])
        elif name == "copy":
            if op[2] not in cs:
                return False
            cs.add(op[1])
        elif name == "add":
            if op[1] not in cs or op[2] not in cs:
                return False
        elif op[1] not in cs:
            return False
    return True


class Gen:
    """stateful generator of one history; keeps only what is needed to make most calls acceptable"""

    def __init__(self, rng, big: bool, rewrites: bool = True) -> None:
        self.rng = rng
        self.big = big
        self.rewrites = rewrites
        self.prog: list = []
        self.kind: dict[int, str] = {}       # pid -> unit | phase | free
        self.npid = 0
        # steering only (never used as an oracle): what the generator believes the parameter holds
        self.cur: dict[int, Fraction | None] = {}
        self.lo: dict[int, Fraction | None] = {}
        self.hi: dict[int, Fraction | None] = {}
        self.attached: set[int] = set()
        self.dkeys: dict[str, list[str]] = {}
        self.dmap: dict[tuple[str, str], int] = {}
        self.vis: dict[str, int] = {}        # cid -> user-visible modes
        self.her: dict[str, int] = {}        # cid -> own heralds (optimistic)
        self.counts: dict[str, int] = {}

    def note(self, k: str) -> None:
        self.counts[k] = self.counts.get(k, 0) + 1

    # ---- values
    def value(self, kind: str, p_bad: float = 0.12, pid: int | None = None) -> dict:
        v = self.value_any(kind, p_bad)
        if pid is None or self.rng.random() < 0.6:
            return v
        lo, hi = self.lo.get(pid), self.hi.get(pid)
        for _ in range(8):  # steer towards values the bounds accept
            if "n" in v:
                k = Fraction(v["n"])
                if (lo is None or lo <= k) and (hi is None or k <= hi):
                    return v
            elif lo is None and hi is None:
                return v
            v = self.value_any(kind, p_bad)
        return v

    def value_any(self, kind: str, p_bad: float) -> dict:
        rng = self.rng
        r = rng.random()
        if kind == "phase":
            if r < p_bad / 2:
                return v_other(rng.randrange(len(OTHER)))
            return rng.choice(PHASE).v()
        if r < p_bad / 2:
            return v_other(rng.randrange(len(OTHER)))
        if r < p_bad or (kind == "free" and r < 0.4):
            return rng.choice(UNIT_OUT).v()
        if r < p_bad + 0.15:
            lit = rng.choice([UNIT_ZERO, UNIT_ONE])
            return UNIT_INT[int(lit.key)].v() if rng.random() < 0.3 else lit.v()
        return rng.choice(UNIT_IN).v()

    def bound_ok(self, kind: str, side: str, pid: int | None, cur: Fraction | None) -> dict | None:
        b = self.bound(kind, side)
        if self.rng.random() < 0.6:
            return b
        for _ in range(8):  # steer towards bounds the current value satisfies
            if b is None:
                return b
            if "n" in b and cur is not None:
                k = Fraction(b["n"])
                if (side == "min" and k <= cur) or (side == "max" and cur <= k):
                    return b
            b = self.bound(kind, side)
        return b

    def believe_new(self, pid: int, v: dict, b) -> bool:
        """would the constructor accept? (steering only)"""
        cur = Fraction(v["n"]) if "n" in v else None
        if b is None:
            self.cur[pid], self.lo[pid], self.hi[pid] = cur, None, None
            return True
        if len(b) != 2 or cur is None:
            return False
        lo, hi = b
        for x, side in ((lo, "min"), (hi, "max")):
            if x is None:
                continue
            if "o" in x:
                return False
            k = Fraction(x["n"])
            if (side == "min" and cur < k) or (side == "max" and cur > k):
                return False
        self.cur[pid] = cur
        self.lo[pid] = None if lo is None else Fraction(lo["n"])
        self.hi[pid] = None if hi is None else Fraction(hi["n"])
        return True

    def believe_set(self, pid: int, v: dict) -> None:
        lo, hi = self.lo.get(pid), self.hi.get(pid)
        if "n" in v:
            k = Fraction(v["n"])
            if (lo is None or lo <= k) and (hi is None or k <= hi):
                self.cur[pid] = k
        elif lo is None and hi is None:
            self.cur[pid] = None

    def believe_bound(self, pid: int, side: str, b) -> None:
        cur = self.cur.get(pid)
        tab = self.lo if side == "min" else self.hi
        if b is None:
            tab[pid] = None
        elif "n" in b and cur is not None:
            k = Fraction(b["n"])
            if (side == "min" and k <= cur) or (side == "max" and cur <= k):
                tab[pid] = k

    def bound(self, kind: str, side: str) -> dict | None:
        rng = self.rng
        r = rng.random()
        if r < 0.25:
            return None
        if r < 0.29:
            return v_other(rng.choice([0, 2]))
        if kind == "phase":
            if r < 0.65:
                return rng.choice(PHASE_SENT[:2] if side == "min" else PHASE_SENT[2:]).v()
            return rng.choice(PHASE).v()
        if r < 0.5:
            return (UNIT_ZERO if side == "min" else UNIT_ONE).v() if rng.random() < 0.6 else \
                UNIT_INT[0 if side == "min" else 1].v()
        if r < 0.62:
            return rng.choice(UNIT_OUT).v()
        return rng.choice(UNIT_IN).v()

    # ---- ops
    def new_param(self, kind: str | None = None) -> int | None:
        rng = self.rng
        pid = self.npid
        self.npid += 1
        kind = kind or rng.choice(["unit", "unit", "unit", "phase", "phase", "free"])
        v = self.value(kind, 0.06)
        cur = Fraction(v["n"]) if "n" in v else None
        r = rng.random()
        if r < 0.4:
            b = None
        elif r < 0.9:
            b = [self.bound_ok(kind, "min", None, cur), self.bound_ok(kind, "max", None, cur)]
        elif r < 0.95:
            b = [None, None]
        else:
            b = rng.choice([[], [self.bound(kind, "min")], [None, None, None]])
        self.prog.append(["pnew", pid, v, b])
        self.note("pnew" + ("+bounds" if b is not None else ""))
        if not self.believe_new(pid, v, b):
            self.note("pnew-rejected(expected)")
            return None
        self.kind[pid] = kind
        return pid

    def new_circ(self, n: int | None = None) -> str:
        cid = f"c{len(self.vis)}"
        n = n or self.rng.randint(2, 5 if self.big else 4)
        self.prog.append(["new", cid, n])
        self.vis[cid], self.her[cid] = n, 0
        return cid

    def pick_param(self, kinds: tuple) -> int | None:
        c = [p for p, k in self.kind.items() if k in kinds]
        return self.rng.choice(c) if c else None

    def mode(self, cid: str, bad: bool = False) -> int:
        n = self.vis[cid]
        return self.rng.choice([-1, n, n + 2]) if bad else self.rng.randrange(n)

    def loss_arg(self, p_param: float):
        rng = self.rng
        r = rng.random()
        if r < p_param:
            pid = self.pick_param(("unit",))
            if pid is not None:
                self.attached.add(pid)
                self.note("role:loss")
                return {"p": pid}
        if r < p_param + 0.25:
            a, b = rng.choice(PYTH)
            if b != 0:
                return loss_lit(a, b)
        if r > 0.97:
            return loss_lit(Fraction(0), Fraction(0), valid=False, py=rng.choice([-0.5, 1.25]))
        return None

    def param_component(self, cid: str) -> None:
        rng = self.rng
        bad_mode = rng.random() < 0.05
        kinds = ["bsp", "psp", "lossp"] if self.vis[cid] >= 2 else ["psp", "lossp"]
        name = rng.choice(kinds)
        if name == "bsp":
            m1, m2 = rng.sample(range(self.vis[cid]), 2)
            if bad_mode:
                m2 = rng.choice([m1, self.mode(cid, True)])
            pid = self.pick_param(("unit",)) if rng.random() < 0.8 else None
            if pid is not None:
                ra = {"p": pid}
                self.attached.add(pid)
                self.note("role:reflectivity")
            else:
                c, s = rng.choice(PYTH)
                ra = refl_lit(c, s)
                if rng.random() < 0.05:
                    ra = refl_lit(Fraction(0), Fraction(0), valid=False, py=rng.choice([-0.25, 1.5]))
            self.prog.append(["bsp", cid, m1, m2, ra, rng.choice(["Rx", "H"]), self.loss_arg(0.3)])
        elif name == "psp":
            pid = self.pick_param(("phase",)) if rng.random() < 0.8 else None
            if pid is not None:
                pa = {"p": pid}
                self.attached.add(pid)
                self.note("role:phi")
            else:
                pa = phi_lit(rng.choice(CIRCLE))
            self.prog.append(["psp", cid, self.mode(cid, bad_mode), pa, self.loss_arg(0.3)])
        else:
            la = self.loss_arg(0.8)
            if la is None:
                la = loss_lit(Fraction(1), Fraction(0))  # loss(mode, 0): still a Loss element
            self.prog.append(["lossp", cid, self.mode(cid, bad_mode), la])
        self.note("op:" + name)

    def update(self) -> None:
        rng = self.rng
        pid = rng.choice(list(self.kind))
        kind = self.kind[pid]
        r = rng.random()
        if r < 0.62:
            v = self.value(kind, pid=pid)
            self.prog.append(["pset", pid, v])
            self.believe_set(pid, v)
            self.note("op:pset")
        elif r < 0.78:
            side = rng.choice(["min", "max"])
            b = self.bound_ok(kind, side, pid, self.cur.get(pid))
            self.prog.append(["p" + side, pid, b])
            self.believe_bound(pid, side, b)
            self.note("op:p" + side)
        else:
            self.dict_op(pid)

    def dict_op(self, pid: int) -> None:
        rng = self.rng
        if not self.dkeys or rng.random() < 0.1:
            d = f"d{len(self.dkeys)}"
            items = []
            for k, q in enumerate(rng.sample(list(self.kind), rng.randint(0, min(3, len(self.kind))))):
                items.append([f"k{k}", q])
            self.prog.append(["dnew", d, items])
            self.dkeys[d] = [k for k, _ in items]
            for k, q in items:
                self.dmap[(d, k)] = q
            self.note("op:dnew")
            return
        d = rng.choice(list(self.dkeys))
        keys = self.dkeys[d]
        r = rng.random()
        if r < 0.55 and keys:
            # value update through the dictionary; the key decides which parameter (and its kind)
            k = rng.choice(keys)
            q = self.dict_target(d, k)
            v = self.value(self.kind.get(q, "free"), pid=q)
            self.prog.append(["dset", d, k, v])
            self.believe_set(q, v)
            self.note("op:dset")
        elif r < 0.75:
            k = f"k{len(keys) + rng.randint(0, 1) * 7}" if rng.random() < 0.85 else (keys[0] if keys else "k0")
            self.prog.append(["dsetp", d, k, pid])
            if k not in keys:
                keys.append(k)
                self.dmap[(d, k)] = pid
            self.note("op:dsetp")
        elif r < 0.85:
            self.prog.append(["dset", d, "nokey", self.value("free")])  # new key with a plain value: rejected
            self.note("op:dset-newkey")
        else:
            k = rng.choice([*keys, "nokey"])
            self.prog.append(["dremove", d, k])
            if k in keys:
                keys.remove(k)
                self.dmap.pop((d, k), None)
            self.note("op:dremove")

    def dict_target(self, d: str, k: str) -> int:
        # parameter a dictionary key refers to (an existing key is never re-bound: `pd[k] = Parameter`
        # on an existing key is rejected)
        return self.dmap.get((d, k), -1)

    def structure(self) -> None:
        rng = self.rng
        cids = list(self.vis)
        r = rng.random()
        cid = rng.choice(cids)
        if self.rewrites and rng.random() < 0.08:
            # the two rewrites rebuild the spec; the circuit must stay linked to its Parameters (F22)
            self.prog.append([rng.choice(["compress", "nonadj"]), cid])
            self.note("op:rewrite")
            return
        if r < 0.34 and len(cids) >= 2:
            fits = [c for c in cids if c != cid and 0 < self.vis[c] - self.her[c] <= self.vis[cid]]
            if fits and rng.random() < 0.85:
                sub = rng.choice(fits)
            else:
                sub = rng.choice([c for c in cids if c != cid] if rng.random() < 0.9 else cids)
            p, q = self.vis[cid], self.vis[sub] - self.her[sub]
            if rng.random() < 0.85 and 0 < q <= p:
                m = rng.randint(0, p - q)
            else:
                m = rng.choice([-1, p, max(0, p - q + 1)])
            self.prog.append(["add", cid, sub, m, rng.random() < 0.5])
            self.note("op:add")
        elif r < 0.5:
            new = f"c{len(self.vis)}"
            self.prog.append(["freeze", new, cid])
            self.vis[new], self.her[new] = self.vis[cid], self.her[cid]
            self.note("op:freeze")
        elif r < 0.62:
            new = f"c{len(self.vis)}"
            self.prog.append(["copy", new, cid])
            self.vis[new], self.her[new] = self.vis[cid], self.her[cid]
            self.note("op:copy")
        elif r < 0.7:
            same = [c for c in cids if self.vis[c] == self.vis[cid]]
            other = rng.choice(same)
            new = f"c{len(self.vis)}"
            self.prog.append(["plus", new, cid, other])
            if self.her[cid] == 0 and self.her[other] == 0:
                self.vis[new], self.her[new] = self.vis[cid], 0
            self.note("op:plus")
        elif r < 0.8 and self.vis[cid] - self.her[cid] >= 2:
            n = self.vis[cid]
            i = rng.randrange(n)
            o = i if rng.random() < 0.5 else rng.randrange(n)
            self.prog.append(["herald", cid, rng.choice([0, 1, 1, 2]), i, o])
            self.her[cid] += 1
            self.note("op:herald")
        elif r < 0.84:
            self.prog.append(["unpack", cid])
            self.note("op:unpack")
        elif r < 0.9 and len(cids) < 6:
            self.new_circ()
        else:
            self.prog.append(cg.rand_prim_op(rng, cid, self.vis[cid], p_invalid=0.1))
            self.note("op:literal-component")


def gen_history(rng, big: bool = False, rewrites: bool = True) -> tuple[list, dict]:
    g = Gen(rng, big, rewrites)
    for _ in range(rng.randint(1, 3)):
        g.new_param()
    while not g.kind:
        g.new_param()
    # make sure both attachable kinds exist most of the time
    if rng.random() < 0.8:
        g.new_param("unit")
    if rng.random() < 0.6:
        g.new_param("phase")
    for _ in range(rng.randint(1, 3)):
        g.new_circ()
    steps = rng.randint(6, 34 if big else 24)
    for _ in range(steps):
        r = rng.random()
        if r < 0.36:
            g.update()
        elif r < 0.66:
            g.param_component(rng.choice(list(g.vis)))
        elif r < 0.7 and g.npid < 8:
            g.new_param()
        else:
            g.structure()
    return g.prog, g.counts
