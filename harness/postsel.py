"""
The PostSelection object (C05 / C07) against LW.Model.PostSel: random histories of `add` calls (single values and
sequences, ints / integral floats / numpy ints / non-integral floats / negatives, modes that already carry a rule)
and assignments to `multi_rules`, then `validate` on random states (also too short ones).  Compared with the model:
the outcome of every call, the stored rules, the `modes` listing, `multi_rules`, every `validate` result.  Oracle on
the implementation alone: `validate` is the conjunction of "photons over the rule's modes is one of the allowed
totals" (the meaning of post-selection in the properties' statements), evaluated independently.
Theorems: LW/Properties/PostSel.lean.
"""

from __future__ import annotations

import json

import numpy as np

import lightworks as lw
from core import Ctx


def rand_val(rng, hi: int, p_bad: float):
    """(python value, model json)"""
    r = rng.random()
    if r < p_bad / 2:
        return 0.5 + rng.randrange(3), "frac"
    if r < p_bad:
        k = -rng.randint(1, 3)
        return (k, k) if rng.random() < 0.6 else (float(k), {"f": k})
    k = rng.randint(0, hi)
    form = rng.choice(["int", "int", "int", "float", "np"])
    if form == "float":
        return float(k), {"f": k}
    if form == "np":
        return np.int64(k), {"f": k}  # not an `int` instance: goes through the conversion branch like 2.0
    return k, k


def rand_arg(rng, hi: int, p_bad: float):
    if rng.random() < 0.4:
        return rand_val(rng, hi, p_bad)
    vals = [rand_val(rng, hi, p_bad / 2) for _ in range(rng.randint(0, 3))]
    py = [v[0] for v in vals]
    return (tuple(py) if rng.random() < 0.7 else py), [v[1] for v in vals]


def gen_case(rng) -> dict:
    n = rng.randint(2, 5)
    multi = rng.random() < 0.4
    ops = []
    for _ in range(rng.randint(1, 6)):
        if rng.random() < 0.12:
            ops.append(["multi", rng.random() < 0.5])
        else:
            p_bad = 0.25 if rng.random() < 0.4 else 0.0
            m = rand_arg(rng, n - 1 if rng.random() < 0.9 else n + 1, p_bad)
            c = rand_arg(rng, 3, p_bad)
            ops.append(["add", m, c])
    states = []
    for _ in range(rng.randint(2, 6)):
        ln = n if rng.random() < 0.85 else rng.randint(0, n)
        states.append([rng.choice([0, 0, 1, 1, 2, 3]) for _ in range(ln)])
    return {"multi": multi, "ops": ops, "states": states}


def to_model(case: dict) -> dict:
    ops = [[o[0], o[1][1], o[2][1]] if o[0] == "add" else o for o in case["ops"]]
    return {"op": "postsel", "multi": case["multi"], "ops": ops, "states": case["states"]}


def describe(case: dict) -> dict:
    return {"multi": case["multi"],
            "ops": [[o[0], repr(o[1][0]), repr(o[2][0])] if o[0] == "add" else o for o in case["ops"]],
            "states": case["states"]}


def run_case(ctx: Ctx, case: dict) -> list[str]:
    probs: list[str] = []
    m = ctx.model.call(to_model(case))
    if "error" in m:
        return [f"harness: model refused a postsel request: {m['error']}"]
    ps = lw.PostSelection(multi_rules=case["multi"])
    for k, o in enumerate(case["ops"]):
        if o[0] == "multi":
            ps.multi_rules = o[1]
            got = "ok"
        else:
            before = ([r.as_tuple() for r in ps.rules], list(ps.modes))
            try:
                ps.add(o[1][0], o[2][0])
                got = "ok"
            except Exception as e:  # noqa: BLE001
                got = type(e).__name__
                after = ([r.as_tuple() for r in ps.rules], list(ps.modes))
                if before != after:
                    probs.append(f"oracle: PostSelection.add({o[1][0]!r}, {o[2][0]!r}) raised {got} but changed the "
                                 f"stored rules / modes {before} -> {after}")
        if got != m["outcomes"][k]:
            probs.append(f"corr: call #{k} {o[0]}({'' if o[0] == 'multi' else repr(o[1][0]) + ', ' + repr(o[2][0])}) "
                         f"impl={got} model={m['outcomes'][k]}")
            return probs
    rules = [[[int(x) for x in r.as_tuple()[0]], [int(x) for x in r.as_tuple()[1]]] for r in ps.rules]
    if rules != m["rules"]:
        probs.append(f"corr: stored rules impl={rules} model={m['rules']}")
    if [int(x) for x in ps.modes] != m["modes"]:
        probs.append(f"corr: modes listing impl={list(ps.modes)} model={m['modes']}")
    if bool(ps.multi_rules) != m["multi"]:
        probs.append(f"corr: multi_rules impl={ps.multi_rules} model={m['multi']}")
    for s, want in zip(case["states"], m["validate"]):
        try:
            got = str(bool(ps.validate(lw.State(s)))).lower()
        except Exception as e:  # noqa: BLE001
            got = type(e).__name__
        if got != want:
            probs.append(f"corr: validate({s}) impl={got} model={want} with rules {rules}")
        if all(mm < len(s) for r in rules for mm in r[0]):
            indep = all(sum(s[mm] for mm in r[0]) in r[1] for r in rules)
            if got != str(indep).lower():
                probs.append(f"oracle: PostSelection.validate({s}) = {got} with rules {rules}, but the state "
                             f"{'satisfies' if indep else 'violates'} the rules (photons over each rule's modes in the allowed totals)")
    return probs


def _py(v):
    return 0.5 if v == "frac" else float(v["f"]) if isinstance(v, dict) else v


def replay_case(ctx: Ctx, rp: dict) -> list[str]:
    """re-run a recorded history (values rebuilt from their model form: {"f": k} -> float(k), "frac" -> 0.5)"""
    mreq = rp["postsel_model"]
    ops = []
    for o in mreq["ops"]:
        if o[0] == "add":
            args = []
            for a in o[1:3]:
                args.append(((tuple(_py(x) for x in a), a) if isinstance(a, list) else (_py(a), a)))
            ops.append(["add", *args])
        else:
            ops.append(o)
    return run_case(ctx, {"multi": mreq["multi"], "ops": ops, "states": mreq["states"]})


def run_stream(ctx: Ctx, rng, n_cases: int) -> None:
    for i in range(n_cases):
        if ctx.out_of_time():
            break
        case = gen_case(rng)
        probs = run_case(ctx, case)
        ctx.count("postsel:histories")
        if any(o[0] == "multi" for o in case["ops"]):
            ctx.count("postsel:multi_rules-assigned")
        ctx.case(json.dumps(describe(case), default=str), True, sample=describe(case) if i == 0 else None)
        if probs:
            oracle = [p for p in probs if p.startswith("oracle")]
            rp = {"postsel": describe(case), "postsel_model": to_model(case), "problems": probs}
            if oracle:
                ctx.violation(oracle[0], rp, sig={"kind": "postsel"})
            else:
                ctx.disagreement(probs[0], rp)
