"""
Tomography helpers shared by the C15 / C16 checks: exact scalars of Q(i, sqrt2), qubit-level gate
programs (generation + construction of the lightworks circuit), noiseless experiment callbacks
(exact outcome frequencies from the implementation's own Simulator amplitudes or Sampler
probability distribution), identification of the measurement setting of a requested circuit.

A gate program is a JSON list understood by the driver's `tomo` handler:
  ["H", q] (named: I H X Y Z S Sadj T Tadj SX)      ["U", q, 2x2 matrix of Q2 strings]
  ["CZ", q1, q2, {"impl": "ps"|"her"}]   ["CNOT", ctrl, tgt, {"impl": ...}]   ["SWAP", q1, q2]
Two-qubit gates act on adjacent qubits (|q1 - q2| = 1), as the library's gates do.
"""

from __future__ import annotations

import itertools
import math
from fractions import Fraction

import numpy as np

import circgen as cg
import lightworks as lw
from core import frac_str
from lightworks import emulator, qubit

SQRT2 = math.sqrt(2.0)
NAMED = {"I": qubit.I, "H": qubit.H, "X": qubit.X, "Y": qubit.Y, "Z": qubit.Z, "S": qubit.S,
         "Sadj": qubit.Sadj, "T": qubit.T, "Tadj": qubit.Tadj, "SX": qubit.SX}
SETTING_OPS = "XYZ"


# --------------------------------------------------------------------------- exact scalars


def q2c(s: str) -> complex:
    """'a.re,a.im,b.re,b.im' (a + b*sqrt2) -> complex float"""
    p = [Fraction(x) for x in s.split(",")]
    p += [Fraction(0)] * (4 - len(p))
    return complex(float(p[0]) + float(p[2]) * SQRT2, float(p[1]) + float(p[3]) * SQRT2)


def q2mat(rows) -> np.ndarray:
    return np.array([[q2c(x) for x in r] for r in rows], dtype=complex)


def gq_to_q2s(g) -> str:
    return g.s()  # 're,im' is accepted by the driver's Q2 parser


def float_exact(x: float) -> str:
    """the float as the exact rational it denotes"""
    return frac_str(Fraction(float(x)))


# --------------------------------------------------------------------------- gate programs


def rand_gate_program(rng, n: int, max_len: int, max_her: int = 2) -> list:
    """qubit-level program that the exact model can follow.  If a post-selected two-qubit gate is
    present the entangling gates form a forest over the logical qubits (so that the final
    dual-rail post-selection implements the product of the gates)."""
    k = rng.randint(0, max_len)
    prog: list = []
    if n >= 2 and rng.random() < 0.5:
        # superposition on some qubits first, so that the entangling gates entangle
        for q in range(n):
            if rng.random() < 0.6:
                prog.append([rng.choice(["H", "SX"]), q])
    for _ in range(k):
        r = rng.random()
        if n >= 2 and r < 0.28:
            q = rng.randrange(n - 1)
            impl = "ps" if rng.random() < 0.6 else "her"
            if rng.random() < 0.4:
                prog.append(["CZ", q, q + 1, {"impl": impl}])
            else:
                c, t = (q, q + 1) if rng.random() < 0.5 else (q + 1, q)
                prog.append(["CNOT", c, t, {"impl": impl}])
        elif n >= 2 and r < 0.34:
            q1, q2 = rng.sample(range(n), 2)
            prog.append(["SWAP", q1, q2])
        elif r < 0.66 and r >= 0.62:
            # a rotation by a TINY exact angle (sin ~ 2/m, m = 4e8 .. 2e9): Pauli expectation values of magnitude 1e-9 .. 1e-8
            # that are not zero
            m = rng.choice([4 * 10**8, 10**9, 2 * 10**9])
            c, s_ = Fraction(m * m - 1, m * m + 1), Fraction(2 * m, m * m + 1)
            sgn = rng.choice([1, -1])
            rows = [[f"{c}", f"{-sgn * s_}"], [f"{sgn * s_}", f"{c}"]]
            prog.append(["U", rng.randrange(n), rows])
        elif r < 0.62:
            u = cg.exact_unitary(rng, 2, depth=rng.randint(1, 3))
            prog.append(["U", rng.randrange(n), [[gq_to_q2s(x) for x in row] for row in u]])
        else:
            prog.append([rng.choice(list(NAMED)), rng.randrange(n)])
    return legalise(prog, n, max_her)


def legalise(prog: list, n: int, max_her: int) -> list:
    """enforce the forest rule and the bound on heralded gates (cost)"""
    out = []
    any_ps = any(g[0] in ("CZ", "CNOT") and g[3]["impl"] == "ps" for g in prog)
    parent = list(range(n))
    pos = list(range(n))  # pos[p] = logical qubit currently on position p

    def find(x):
        while parent[x] != x:
            x = parent[x]
        return x

    n_her = 0
    for g in prog:
        if g[0] == "SWAP":
            pos[g[1]], pos[g[2]] = pos[g[2]], pos[g[1]]
            out.append(g)
        elif g[0] in ("CZ", "CNOT"):
            a, b = find(pos[g[1]]), find(pos[g[2]])
            if any_ps:
                if a == b:
                    continue  # would close a cycle: drop the gate
                parent[a] = b
            if g[3]["impl"] == "her":
                if n_her >= max_her:
                    if any_ps:
                        g = [g[0], g[1], g[2], {"impl": "ps"}]
                    else:
                        continue
                else:
                    n_her += 1
            out.append(g)
        else:
            out.append(g)
    return out


def build_base(n: int, prog: list) -> lw.Circuit:
    c = lw.Circuit(2 * n)
    for g in prog:
        name = g[0]
        if name == "U":
            c.add(lw.Unitary(q2mat(g[2])), 2 * g[1])
        elif name in NAMED:
            c.add(NAMED[name](), 2 * g[1])
        elif name == "CZ":
            gate = qubit.CZ() if g[3]["impl"] == "ps" else qubit.CZ_Heralded()
            c.add(gate, 2 * min(g[1], g[2]))
        elif name == "CNOT":
            tq = 1 if g[2] > g[1] else 0
            gate = qubit.CNOT(tq) if g[3]["impl"] == "ps" else qubit.CNOT_Heralded(tq)
            c.add(gate, 2 * min(g[1], g[2]))
        elif name == "SWAP":
            q1, q2 = g[1], g[2]
            c.add(qubit.SWAP((2 * q1, 2 * q1 + 1), (2 * q2, 2 * q2 + 1)), 0)
        elif name == "MODEU":  # arbitrary unitary on all visible modes (not followed by the model)
            c.add(lw.Unitary(cg.mat_np([[cg.GQ.parse(x) for x in r] for r in g[1]])), 0)
        elif name == "PRIM":  # a primitive construction call of circgen on the visible modes
            pool = {"c": c}
            cg.apply_op(pool, g[1])
        elif name == "HERU":
            c.add(heralded_unitary(g), 0)
        else:
            raise AssertionError(f"unknown gate {name}")
    return c


def heralded_unitary(g: list):
    """["HERU", matrix on 2n + k modes, [[photons, in mode, out mode], ...]]: a user-made sub-circuit with k heralds on ANY
    of its modes (also between the two rails of a qubit, input and output on different modes); added at mode 0 of the
    base circuit it leaves 2n visible modes.  Not followed by the model."""
    sub = lw.Unitary(cg.mat_np([[cg.GQ.parse(x) for x in r] for r in g[1]]))
    for ph, mi, mo in g[2]:
        sub.herald(ph, mi, mo)
    return sub


def rand_heralded_unitary(rng, n: int) -> list:
    k = rng.choice([1, 1, 2])
    m = 2 * n + k
    ins = rng.sample(range(m), k)
    outs = list(ins) if rng.random() < 0.6 else rng.sample(range(m), k)
    return ["HERU", cg.mat_json(cg.exact_unitary(rng, m, depth=rng.randint(m, 2 * m))),
            [[rng.choice([0, 0, 0, 1]), i, o] for i, o in zip(ins, outs)]]


def extend_base(c: lw.Circuit, prog: list) -> None:
    """apply the gates of `prog` IN PLACE to an existing base circuit with 2n visible modes (same
    construction calls as build_base, which starts from an empty circuit); used by multi-step
    histories that mutate a base circuit a tomography object was already built on"""
    for g in prog:
        name = g[0]
        if name == "U":
            c.add(lw.Unitary(q2mat(g[2])), 2 * g[1])
        elif name in NAMED:
            c.add(NAMED[name](), 2 * g[1])
        elif name == "CZ":
            gate = qubit.CZ() if g[3]["impl"] == "ps" else qubit.CZ_Heralded()
            c.add(gate, 2 * min(g[1], g[2]))
        elif name == "CNOT":
            tq = 1 if g[2] > g[1] else 0
            gate = qubit.CNOT(tq) if g[3]["impl"] == "ps" else qubit.CNOT_Heralded(tq)
            c.add(gate, 2 * min(g[1], g[2]))
        elif name == "SWAP":
            q1, q2 = g[1], g[2]
            c.add(qubit.SWAP((2 * q1, 2 * q1 + 1), (2 * q2, 2 * q2 + 1)), 0)
        elif name == "MODEU":
            c.add(lw.Unitary(cg.mat_np([[cg.GQ.parse(x) for x in r] for r in g[1]])), 0)
        elif name == "PRIM":
            cg.apply_op({"c": c}, g[1])
        elif name == "HERU":
            c.add(heralded_unitary(g), 0)
        else:
            raise AssertionError(f"unknown gate {name}")


def model_prog(prog: list, in_bits: list[int]) -> list:
    """program for the model: the experiment's input state as X gates, then the gates"""
    return [["X", q] for q, b in enumerate(in_bits) if b] + [g for g in prog]


def forest_ok(prog: list) -> bool:
    """the rule `legalise` enforces: if a post-selected two-qubit gate is present, the entangling gates form a forest over
    the logical qubits (only then does the final dual-rail post-selection implement the PRODUCT of the gates: two
    post-selected gates sharing both qubits, or closing a cycle, do not compose to a product of gates)"""
    ent = [g for g in prog if g[0] in ("CZ", "CNOT")]
    if not any(g[3]["impl"] == "ps" for g in ent):
        return True
    n = 1 + max([max(g[1], g[2]) for g in prog if g[0] in ("CZ", "CNOT", "SWAP")] + [0])
    parent = list(range(n))
    pos = list(range(n))

    def find(x):
        while parent[x] != x:
            x = parent[x]
        return x

    for g in prog:
        if g[0] == "SWAP":
            pos[g[1]], pos[g[2]] = pos[g[2]], pos[g[1]]
        elif g[0] in ("CZ", "CNOT"):
            a, b = find(pos[g[1]]), find(pos[g[2]])
            if a == b:
                return False
            parent[a] = b
    return True


def is_modelable(prog: list) -> bool:
    """the exact qubit-level model follows the program: no mode-level pieces, and the post-selected gates compose (a wild
    program or a shrunk one may break the forest rule: it is then judged by the oracles alone)"""
    return all(g[0] not in ("MODEU", "PRIM", "HERU") for g in prog) and forest_ok(prog)


# --------------------------------------------------------------------------- states / settings


def dual_rail(n: int, b: int) -> list[int]:
    out = []
    for q in range(n):
        bit = (b >> (n - 1 - q)) & 1
        out += [0, 1] if bit else [1, 0]
    return out


def dual_rail_states(n: int) -> list:
    return [lw.State(dual_rail(n, b)) for b in range(2**n)]


def input_state(in_bits: list[int]):
    s = []
    for b in in_bits:
        s += [0, 1] if b else [1, 0]
    return lw.State(s)


def all_settings(n: int) -> list[str]:
    return [",".join(t) for t in itertools.product(SETTING_OPS, repeat=n)]


def visible_modes(c) -> list[int]:
    her = c.heralds["output"]
    return [m for m in range(c.n_modes) if m not in her]


def embed_blocks(dim: int, vis: list[int], blocks: list[np.ndarray]) -> np.ndarray:
    e = np.eye(dim, dtype=complex)
    for q, blk in enumerate(blocks):
        a, b = vis[2 * q], vis[2 * q + 1]
        e[np.ix_([a, b], [a, b])] = blk
    return e


def expected_ufull(base_ufull: np.ndarray, vis: list[int], blocks: list[np.ndarray]) -> np.ndarray:
    return embed_blocks(base_ufull.shape[0], vis, blocks) @ base_ufull


PAULI_NP = {"X": np.array([[0, 1], [1, 0]], dtype=complex), "Y": np.array([[0, -1j], [1j, 0]]),
            "Z": np.array([[1, 0], [0, -1]], dtype=complex)}


def appended_blocks(circ, base_ufull: np.ndarray, vis: list[int], n: int, tol: float = 1e-9):
    """W = U_full(circ) . U_full(base)^-1 must act as independent 2x2 unitaries on the qubit mode
    pairs and as the identity elsewhere; returns the n blocks, or None"""
    try:
        uf = np.array(circ.U_full)
    except Exception:  # noqa: BLE001
        return None
    if uf.shape != base_ufull.shape:
        return None
    w = uf @ np.linalg.inv(base_ufull)
    blocks = [w[np.ix_([vis[2 * q], vis[2 * q + 1]], [vis[2 * q], vis[2 * q + 1]])] for q in range(n)]
    if not np.all(np.abs(w - embed_blocks(w.shape[0], vis, blocks)) <= tol):
        return None
    return blocks


def identify_setting(circ, base_ufull: np.ndarray, vis: list[int], n: int, tol: float = 1e-9):
    """semantic identification of the measurement setting of a requested circuit: the circuit must
    be the base followed by single-qubit unitaries B_q with  B_q^dagger Z B_q = P_q,  P_q in
    {X, Y, Z}.  Returns (setting string or None, blocks or None)."""
    blocks = appended_blocks(circ, base_ufull, vis, n, tol)
    if blocks is None:
        return None, None
    labels = []
    for b in blocks:
        if not np.all(np.abs(b.conj().T @ b - np.eye(2)) <= tol):
            return None, blocks
        obs = b.conj().T @ PAULI_NP["Z"] @ b
        lab = [k for k, p in PAULI_NP.items() if np.all(np.abs(obs - p) <= tol)]
        if len(lab) != 1:
            return None, blocks
        labels.append(lab[0])
    return ",".join(labels), blocks


# --------------------------------------------------------------------------- noiseless experiments


def strip_heralds(state, heralds_out: dict) -> list[int] | None:
    s = list(state)
    for m, k in heralds_out.items():
        if s[m] != k:
            return None
    return [x for m, x in enumerate(s) if m not in heralds_out]


def is_dual_rail(s: list[int]) -> bool:
    return len(s) % 2 == 0 and all(s[i] + s[i + 1] == 1 for i in range(0, len(s), 2))


def exact_frequencies(circ, in_state, n: int, source: str = "sim", backend: str = "permanent") -> dict:
    """{tuple(dual-rail output): probability} of one circuit, noiseless, un-normalised (the
    post-selection / heralding success probability is the total)"""
    if source == "sim":
        outs = dual_rail_states(n)
        res = emulator.Simulator(circ).simulate(in_state, outs)
        amps = np.array(res.array)[0]
        return {tuple(dual_rail(n, b)): float(abs(amps[b]) ** 2) for b in range(2**n)}
    pd = emulator.Sampler(circ, in_state, backend=backend).probability_distribution
    her = circ.heralds["output"]
    out: dict = {}
    for st, p in pd.items():
        s = list(st)
        if len(s) == circ.n_modes and her:
            s = strip_heralds(st, her)
            if s is None:
                continue
        if is_dual_rail(s):
            out[tuple(s)] = out.get(tuple(s), 0.0) + float(p)
    for b in range(2**n):
        out.setdefault(tuple(dual_rail(n, b)), 0.0)
    return out


def reference_state(base, in_state, n: int) -> np.ndarray:
    """dual-rail amplitude vector the base circuit prepares (implementation's Simulator)"""
    res = emulator.Simulator(base).simulate(in_state, dual_rail_states(n))
    return np.array(res.array)[0].astype(complex)
