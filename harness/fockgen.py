"""Shared helpers for the emulator properties (C03-C07, C11): circuit generation for the
emulator, exact/independent reference computations on the implementation's own U_full."""

from __future__ import annotations

import itertools
import math
from fractions import Fraction

import numpy as np

import circgen as cg
from core import GQ
from props.c02 import Gen


def gen_circuit(ctx, rng, max_depth: int = 2, lossless: bool | None = None, max_n: int = 5,
                max_herald_photons: int = 2):
    """program building circuit 'c1' (possibly with heralded sub-circuits and loss); retried until it
    mixes modes (a beam splitter or unitary block) and carries few herald photons, so that the photon
    budget of the exact model is left to the user input"""
    prog = None
    for _ in range(8):
        g = Gen(ctx, rng)
        g.circuit(rng.choice(list(range(max_depth + 1))), max_n=max_n)
        prog = g.prog
        if lossless:
            prog = [op for op in prog if not is_lossy(op)]
        hp = sum(op[2] for op in prog if op[0] == "herald")
        if hp <= max_herald_photons and any(op[0] in ("bs", "unitary") for op in prog):
            break
    return prog


def is_lossy(op) -> bool:
    if op[0] == "loss":
        return True
    if op[0] == "bs" and op[7]:
        return True
    return bool(op[0] == "ps" and op[4])


def build_impl(prog: list) -> dict:
    pool: dict = {}
    for op in prog:
        cg.apply_op(pool, op)
    return pool


def rand_state(rng, modes: int, photons: int) -> list[int]:
    s = [0] * modes
    for _ in range(photons):
        if modes:
            s[rng.randrange(modes)] += 1
    return s


def naive_perm(a: np.ndarray) -> complex:
    """permanent by Ryser's formula (independent of thewalrus)"""
    n = a.shape[0]
    if n == 0:
        return 1.0
    tot = 0
    for mask in range(1, 1 << n):
        cols = [j for j in range(n) if mask >> j & 1]
        rs = a[:, cols].sum(axis=1)
        tot += (-1) ** (n - len(cols)) * np.prod(rs)
    return complex(tot)


def herald_photons(c) -> int:
    return sum(c.heralds["input"].values())


def ref_amplitude(u: np.ndarray, in_full: list[int], out_full: list[int]) -> complex:
    """the property's formula evaluated on the implementation's own U_full"""
    x = [i for i, k in enumerate(out_full) for _ in range(k)]
    y = [i for i, k in enumerate(in_full) for _ in range(k)]
    if len(x) != len(y):
        return 0
    sub = u[np.ix_(x, y)]
    norm = math.prod(math.factorial(k) for k in in_full) * math.prod(math.factorial(k) for k in out_full)
    return naive_perm(sub) / math.sqrt(norm)


def add_heralds(state: list[int], heralds: dict) -> list[int]:
    n = len(state) + len(heralds)
    out, cnt = [], 0
    for i in range(n):
        if i in heralds:
            out.append(heralds[i])
        else:
            out.append(state[cnt])
            cnt += 1
    return out


def fock_all(modes: int, photons: int):
    if modes == 0:
        if photons == 0:
            yield []
        return
    if modes == 1:
        yield [photons]
        return
    for v in range(photons + 1):
        for rest in fock_all(modes - 1, photons - v):
            yield [*rest, v]
