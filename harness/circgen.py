"""
Circuit construction programs: generation (exact parameters), execution on lightworks, and
observation.  An op is the JSON list understood by the driver's `circ` handler; trailing dict
elements carry implementation-only literals (e.g. an out-of-range float) and are ignored by the
driver.
"""

from __future__ import annotations

import math
import operator
import zlib
from fractions import Fraction

import numpy as np

import lightworks as lw
from core import CIRCLE, GQ, PYTH, exc_class, frac_str

# --------------------------------------------------------------------------- exact unitaries


def exact_unitary(rng, n: int, depth: int | None = None) -> list[list[GQ]]:
    """n x n unitary over Gaussian rationals: product of Givens rotations and phases"""
    u = [[GQ(1) if i == j else GQ(0) for j in range(n)] for i in range(n)]
    if depth is None:
        depth = rng.randint(0, 2 * n)
    for _ in range(depth):
        if n >= 2 and rng.random() < 0.75:
            i, j = rng.sample(range(n), 2)
            c, s = rng.choice(PYTH)
            ph = rng.choice(CIRCLE)
            # rows i, j <- [[c, -s*conj(ph)], [s*ph, c]]
            for k in range(n):
                a, b = u[i][k], u[j][k]
                u[i][k] = GQ(c) * a + (-(GQ(s) * ph.conj())) * b
                u[j][k] = GQ(s) * ph * a + GQ(c) * b
        else:
            i = rng.randrange(n)
            ph = rng.choice(CIRCLE)
            for k in range(n):
                u[i][k] = ph * u[i][k]
    if rng.random() < 0.3:  # permute rows: sparse / permutation-like
        perm = list(range(n))
        rng.shuffle(perm)
        u = [u[p] for p in perm]
    return u


def mat_json(u) -> list[list[str]]:
    return [[x.s() for x in row] for row in u]


def mat_np(u) -> np.ndarray:
    return np.array([[complex(x) for x in row] for row in u], dtype=complex)


# --------------------------------------------------------------------------- op constructors


def op_bs(cid, m1, m2, c, s, conv="Rx", loss=None, refl_lit=None, loss_lit=None):
    """c,s: Fractions with c^2+s^2=1; loss: None or (a,b) Fractions"""
    extras = {}
    if refl_lit is not None:
        extras["refl"] = refl_lit
    if loss_lit is not None:
        extras["loss"] = loss_lit
    return ["bs", cid, m1, m2, frac_str(c), frac_str(s), conv,
            None if loss is None else [frac_str(loss[0]), frac_str(loss[1])],
            refl_lit is None, loss_lit is None, extras]


def op_ps(cid, m, p: GQ, loss=None, loss_lit=None):
    return ["ps", cid, m, p.s(), None if loss is None else [frac_str(loss[0]), frac_str(loss[1])],
            loss_lit is None, {} if loss_lit is None else {"loss": loss_lit}]


def op_loss(cid, m, a, b, loss_lit=None):
    return ["loss", cid, m, frac_str(a), frac_str(b), loss_lit is None,
            {} if loss_lit is None else {"loss": loss_lit}]


# --------------------------------------------------------------------------- execution on lightworks


def _f(x: str) -> Fraction:
    return Fraction(x)


def _loss_val(lossab, extras) -> float:
    if "loss" in extras:
        return extras["loss"]
    if lossab is None:
        return 0
    return float(_f(lossab[1]) ** 2)


def _sp(op: list, k: int, m):
    """spelling of a mode number: a third of the integer mode arguments are handed over as numpy integers (fixed per
    op and position, so that a replay repeats it); anything that is not a plain int is passed as it is"""
    if type(m) is not int:
        return m
    h = zlib.crc32(f"{op!r}#{k}".encode()) % 6
    return np.int64(m) if h == 0 else np.int32(m) if h == 1 else m


def apply_op(pool: dict, op: list) -> str:
    """run one op on the implementation; returns 'ok' or the exception class name"""
    name = op[0]
    try:
        if name == "new":
            pool[op[1]] = lw.Circuit(_sp(op, 2, op[2]))
        elif name == "unitary":
            u = np.array([[complex(GQ.parse(x)) for x in r] for r in op[2]], dtype=complex)
            # dtype of the array handed over: a real matrix is given as float64, an integer one (permutations, signs) as
            # int64, for a third of the blocks each (fixed per op); the values are the same
            h = zlib.crc32(f"{op!r}#dtype".encode()) % 3
            if h and not np.any(u.imag):
                if h == 2 and np.all(u.real == np.round(u.real)):
                    u = u.real.astype(np.int64)
                else:
                    u = u.real.astype(np.float64)
            pool[op[1]] = lw.Unitary(u)
        elif name == "bs":
            _, cid, m1, m2, c, _s, conv, lossab, _rv, _lv, *rest = op
            extras = rest[0] if rest else {}
            refl = extras.get("refl", float(_f(c) ** 2))
            pool[cid].bs(_sp(op, 1, m1), _sp(op, 2, m2), reflectivity=refl, loss=_loss_val(lossab, extras),
                         convention=extras.get("conv", conv))
        elif name == "ps":
            _, cid, m, p, lossab, _lv, *rest = op
            extras = rest[0] if rest else {}
            g = GQ.parse(p)
            pool[cid].ps(_sp(op, 1, m), math.atan2(float(g.im), float(g.re)), loss=_loss_val(lossab, extras))
        elif name == "loss":
            _, cid, m, _a, b, _lv, *rest = op
            extras = rest[0] if rest else {}
            pool[cid].loss(_sp(op, 1, m), extras.get("loss", float(_f(b) ** 2)))
        elif name == "barrier":
            pool[op[1]].barrier(op[2])
        elif name == "swaps":
            pool[op[1]].mode_swaps({_sp(op, 2 * i, k): _sp(op, 2 * i + 1, v) for i, (k, v) in enumerate(op[2])})
        elif name == "herald":
            pool[op[1]].herald(op[2], _sp(op, 3, op[3]), _sp(op, 4, op[4]))
        elif name == "add":
            pool[op[1]].add(pool[op[2]], _sp(op, 3, op[3]), group=op[4])
        elif name == "plus":
            # the sum is spelled in every way Python offers (fixed per target name, so that a replay repeats it):
            # `a + b`, `operator.add(a, b)`, and the augmented form on a second name bound to the left operand
            # (`total = a; total += b`), which must rebind `total` and leave `a` alone
            how = zlib.crc32(str(op[1]).encode()) % 3
            if how == 0:
                pool[op[1]] = pool[op[2]] + pool[op[3]]
            elif how == 1:
                pool[op[1]] = operator.add(pool[op[2]], pool[op[3]])
            else:
                total = pool[op[2]]
                total += pool[op[3]]
                pool[op[1]] = total
        elif name == "copy":
            pool[op[1]] = pool[op[2]].copy()
        elif name == "unpack":
            pool[op[1]].unpack_groups()
        elif name == "compress":
            pool[op[1]].compress_mode_swaps()
        elif name == "nonadj":
            pool[op[1]].remove_non_adjacent_bs()
        else:
            raise AssertionError(f"unknown op {name}")
    except AssertionError:
        raise
    except Exception as e:  # noqa: BLE001
        return exc_class(e)
    return "ok"


def observe(c) -> dict:
    """public observables of a circuit (never private representation)"""
    out = {"n": c.n_modes, "input_modes": c.input_modes,
           "in_heralds": [[k, v] for k, v in c.heralds["input"].items()],
           "out_heralds": [[k, v] for k, v in c.heralds["output"].items()]}
    try:
        out["U_full"] = np.array(c.U_full)
        out["U"] = np.array(c.U)
    except Exception as e:  # noqa: BLE001
        out["U_error"] = exc_class(e)
    return out


# --------------------------------------------------------------------------- random primitive ops


def rand_perm_pairs(rng, modes: list[int]) -> list[list[int]]:
    tgt = list(modes)
    rng.shuffle(tgt)
    pairs = [[a, b] for a, b in zip(modes, tgt)]
    rng.shuffle(pairs)  # dict insertion order is arbitrary
    return pairs


def rand_prim_op(rng, cid: str, n_user: int, p_invalid: float = 0.0, allow_loss: bool = True) -> list:
    """one primitive construction call on a circuit with n_user visible modes"""
    kinds = ["bs", "ps", "barrier", "swaps"] + (["loss", "bs_loss", "ps_loss"] if allow_loss else [])
    if n_user < 2:
        kinds = [k for k in kinds if k not in ("bs", "bs_loss")]
    kind = rng.choice(kinds)
    invalid = rng.random() < p_invalid

    def mode():
        return rng.randrange(n_user)

    def bad_mode():
        return rng.choice([-1, n_user, n_user + 1, -n_user, n_user + 3])

    if kind in ("bs", "bs_loss"):
        m1, m2 = rng.sample(range(n_user), 2)
        c, s = rng.choice(PYTH)
        conv = rng.choice(["Rx", "H"])
        loss = rng.choice(PYTH) if kind == "bs_loss" else None
        if loss is not None and loss[1] == 0:
            loss = None
        kw = {}
        if invalid:
            w = rng.choice(["m1", "m2", "same", "refl", "loss", "conv"])
            if w == "m1":
                m1 = bad_mode()
            elif w == "m2":
                m2 = bad_mode()
            elif w == "same":
                m2 = m1
            elif w == "refl":
                kw["refl_lit"] = rng.choice([-0.25, 1.5, 1.0000001])
            elif w == "loss":
                kw["loss_lit"] = rng.choice([-0.25, 1.5])
            else:
                kw["refl_lit"] = 0.5
                conv = "Ry"
        op = op_bs(cid, m1, m2, c, s, conv, loss, **kw)
        if conv == "Ry":
            op[6] = "Rx"  # the driver only knows valid conventions; reflValid=False marks the ValueError
            op[-1]["conv"] = "Ry"
        return op
    if kind in ("ps", "ps_loss"):
        m = mode()
        p = rng.choice(CIRCLE)
        loss = rng.choice(PYTH) if kind == "ps_loss" else None
        if loss is not None and loss[1] == 0:
            loss = None
        kw = {}
        if invalid:
            if rng.random() < 0.5:
                m = bad_mode()
            else:
                kw["loss_lit"] = rng.choice([-0.5, 2.0])
        return op_ps(cid, m, p, loss, **kw)
    if kind == "loss":
        m = mode()
        a, b = rng.choice(PYTH)
        kw = {}
        if invalid:
            if rng.random() < 0.5:
                m = bad_mode()
            else:
                kw["loss_lit"] = rng.choice([-0.5, 1.25])
        return op_loss(cid, m, a, b, **kw)
    if kind == "barrier":
        if rng.random() < 0.3:
            ms = None
        else:
            ms = [m for m in range(n_user) if rng.random() < 0.6]
            if invalid:
                ms = [*ms, bad_mode()]
        return ["barrier", cid, ms]
    # swaps
    k = rng.randint(0, n_user)
    modes = rng.sample(range(n_user), k)
    pairs = rand_perm_pairs(rng, modes)
    if invalid and pairs:
        w = rng.choice(["incomplete", "range"])
        if w == "incomplete":
            free = [m for m in range(n_user) if m not in modes]
            if free:
                pairs[0] = [pairs[0][0], free[0]]
            else:
                pairs = pairs[1:] if len(pairs) > 1 else [[0, 1]] if n_user > 1 else [[0, 5]]
        else:
            pairs.append([n_user + 1, n_user + 1])
    return ["swaps", cid, pairs]


def well_formed(prog: list) -> bool:
    """every circuit id is defined before it is used"""
    defined: set = set()
    for op in prog:
        name = op[0]
        if name in ("new", "unitary"):
            defined.add(op[1])
        elif name in ("plus",):
            if op[2] not in defined or op[3] not in defined:
                return False
            defined.add(op[1])
        elif name == "copy":
            if op[2] not in defined:
                return False
            defined.add(op[1])
        elif name == "add":
            if op[1] not in defined or op[2] not in defined:
                return False
        elif op[1] not in defined:
            return False
    return True
