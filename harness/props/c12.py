"""
C12 — Qiskit conversion preserves the circuit's unitary, or refuses.

Model: LW.Model.QConvert (decision logic of qiskit_convert.py: gate dispatch, qubit->mode map,
adjacency swaps, post_selection_analyzer — the REPAIRED rule —, refusal paths, and the bookkeeping
of the converted circuit through the `Circ` model).  Theorems: LW/Properties/C12.lean.

Per generated qiskit circuit and both values of allow_post_selection:
  corr   : outcome (converted / exception class), input modes, heralds, post-selection rules, and
           U_full of the returned circuit against a circuit rebuilt from the MODEL's plan with the
           library's own gates (so a wrong gate variant / target / mode / swap shows up);
  oracle : the property itself on the implementation — Simulator amplitudes from every dual-rail
           basis input to every accepted output (heralds + returned rules) are one common non-zero
           scalar times qiskit.quantum_info.Operator(qc) (qiskit ordering handled), accepted
           outputs outside the qubit subspace have amplitude 0; a circuit of supported 1- and
           2-qubit gates is never refused.
A failing circuit is shrunk (ddmin over instructions) before it is reported.
"""

from __future__ import annotations

import json
import math

import numpy as np

import qgates as qg
from core import Ctx, MachineryFault, ddmin, exc_class

TRUSTED = [
    "Lean 4.33 kernel; Mathlib v4.33 as compiled on this image",
    "axioms: subset of {propext, Classical.choice, Quot.sound} (audited per theorem on every run)",
    "hand-written model LW.Model.QConvert tied to the code by this correspondence check",
    "qiskit.quantum_info.Operator as the reference semantics of a qiskit circuit; QuantumCircuit.data as "
    "the instruction list both the code and the model read",
    "lightworks.emulator.Simulator / thewalrus.perm as the implementation's amplitude evaluation",
    "C13 (gate tables) and C02 (Circuit.add routing) for the gates the plan refers to",
    "driver JSON parser and harness comparison code",
]
ASSUMPTIONS = [
    "correspondence: 1-4 qubits (5 in thorough), <= 8 instructions, <= 3 cx/cz gates per circuit (4 in "
    "post-selection mode; one fewer on 5 qubits) because every heralded gate adds two photons to the "
    "simulation; theorems are unbounded",
    "rotation angles are floats seen only by the implementation and by qiskit; no decision depends on them",
    "instructions with repeated qubits, classical bits or parameters that are not numbers are outside the model",
]

TOL = 1e-9
SINGLE = ["h", "x", "y", "z", "s", "sdg", "t", "tdg", "sx"]
ROT = ["rx", "ry", "rz", "p"]
SPECIAL_ANGLES = [0.0, math.pi, -math.pi, math.pi / 2, 2 * math.pi, math.pi / 4, -math.pi / 3, 1e-9]


# ------------------------------------------------------------------ generation


def gen_circuit(rng, nmax: int, lmax: int, her_max: int, malformed: bool) -> dict:
    n = rng.randint(1, nmax)
    aps = rng.random() < 0.6
    length = rng.randint(0, lmax)
    instrs = []
    n_two = 0
    for _ in range(length):
        r = rng.random()
        if n >= 3 and r < (0.22 if aps else 0.04):
            qs = rng.sample(range(n), 3)
            if rng.random() < 0.8:  # adjacent triple, any order
                b = rng.randint(0, n - 3)
                qs = [b, b + 1, b + 2]
                rng.shuffle(qs)
            instrs.append([rng.choice(["ccx", "ccz"]), qs, None])
        elif n >= 2 and r < 0.55 and n_two < (her_max + 1 if aps else her_max) - (1 if n >= 5 else 0):
            qs = rng.sample(range(n), 2)
            g = rng.choice(["cx", "cx", "cz", "cz", "swap"])
            if g != "swap":
                n_two += 1
            instrs.append([g, qs, None])
        elif r < 0.8:
            instrs.append([rng.choice(SINGLE), [rng.randrange(n)], None])
        else:
            th = rng.choice(SPECIAL_ANGLES) if rng.random() < 0.25 else rng.uniform(-2 * math.pi, 2 * math.pi)
            instrs.append([rng.choice(ROT), [rng.randrange(n)], th])
    if malformed and n >= 1:
        pos = rng.randint(0, len(instrs))
        k = rng.randint(0, 5)
        if k == 0 or n == 1:
            bad = [rng.choice(["id", "reset", "u"]), [rng.randrange(n)], None]
        elif k == 1:
            bad = [rng.choice(["cy", "ch", "iswap", "rzz"]), rng.sample(range(n), 2), None]
        elif k == 2:
            bad = ["barrier", list(range(n)), None]
        elif k == 3 and n >= 4:
            bad = ["mcx", rng.sample(range(n), 4), None]
        elif k == 4 and n >= 4:
            qs = rng.sample(range(n), 3)  # most likely not adjacent
            bad = [rng.choice(["ccx", "ccz"]), qs, None]
        elif n >= 3:
            bad = ["cswap", rng.sample(range(n), 3), None]
        else:
            bad = ["cy", rng.sample(range(n), 2), None]
        instrs.insert(pos, bad)
    return {"n": n, "aps": aps, "instrs": instrs}


def directed_cases() -> list[dict]:
    """small structured circuits around the post-selection analysis (multi-qubit gate followed by
    gates on subsets of its qubits), both modes"""
    out = []
    for first in (["ccx", [0, 1, 2]], ["ccz", [2, 0, 1]], ["ccx", [2, 1, 0]]):
        for later in ([], [["cx", [0, 1]]], [["cz", [1, 2]]], [["cx", [2, 3]]], [["cx", [3, 0]]],
                      [["h", [0]], ["cx", [1, 3]]], [["swap", [0, 1]]], [["cx", [0, 1]], ["cx", [1, 2]]],
                      [["ccz", [1, 2, 3]]]):
            ins = [[first[0], first[1], None]] + [[g, q, None] for g, q in later]
            n = 1 + max(q for _, qs, _ in ins for q in qs)
            out.append({"n": max(n, 3), "aps": True, "instrs": ins})
    for ins in ([["cx", [0, 1]], ["cx", [0, 1]]], [["cz", [0, 1]], ["h", [0]], ["cx", [1, 0]]],
                [["cx", [0, 2]], ["cz", [2, 1]]], [["cx", [3, 0]]], [["cz", [0, 3]], ["cx", [1, 2]]]):
        for aps in (True, False):
            full = [[g, q, None] for g, q in ins]
            out.append({"n": 1 + max(q for _, qs, _ in full for q in qs), "aps": aps, "instrs": full})
    return out


def build_qc(case: dict):
    from qiskit import QuantumCircuit

    regs = case.get("regs")
    if regs:
        # several quantum registers: a qubit's position in the circuit differs from its index in its register
        from qiskit import QuantumRegister

        qc = QuantumCircuit(*[QuantumRegister(k, f"r{j}") for j, k in enumerate(regs)])
    else:
        qc = QuantumCircuit(case["n"])
    for name, qs, th in case["instrs"]:
        if name in ROT or name == "rzz":
            getattr(qc, name)(0.37 if th is None else th, *qs)
        elif name == "u":
            qc.u(0.1, 0.2, 0.3, *qs)
        elif name == "barrier":
            qc.barrier(*qs)
        elif name == "mcx":
            qc.mcx(qs[:-1], qs[-1])
        else:
            getattr(qc, name)(*qs)
    return qc


def instr_view(qc) -> list:
    """what the converter reads: operation.name and the qubit indices"""
    return [[inst.operation.name, [qc.find_bit(q).index for q in inst.qubits]] for inst in qc.data]


# ------------------------------------------------------------------ implementation side


def convert_impl(qc, aps: bool):
    from lightworks import qubit

    try:
        circ, ps = qubit.qiskit_converter(qc, allow_post_selection=aps)
        return "ok", circ, ps
    except Exception as e:  # noqa: BLE001
        return exc_class(e), None, None


def amplitude_matrix(circ, ps, n: int):
    """A[out, in] on the dual-rail basis, the largest accepted amplitude outside the qubit
    subspace, from the Simulator (all outputs with the heralds satisfied, then the rules)"""
    import lightworks as lw

    bits = qg.bit_strings(n)
    inputs = [qg.dual_rail(b) for b in bits]
    amps = qg.impl_amplitudes(circ, inputs)
    a = np.zeros((len(bits), len(bits)), dtype=complex)
    leak = 0.0
    for ci, ins in enumerate(inputs):
        for o, amp in amps[tuple(ins)].items():
            if ps is not None and not ps.validate(lw.State(list(o))):
                continue
            if qg.is_dual_rail(o):
                a[bits.index(qg.bits_of(o)), ci] = amp
            else:
                leak = max(leak, abs(amp))
    return a, leak


def oracle(case: dict, qc=None) -> list[str]:
    """the property's clauses on the implementation alone"""
    qc = qc or build_qc(case)
    res, circ, ps = convert_impl(qc, case["aps"])
    names = [i[0] for i in instr_view(qc)]
    if res != "ok":
        if all(g in SINGLE + ROT + ["cx", "cz", "swap"] for g in names):
            return [f"oracle: a circuit of supported one- and two-qubit gates is refused ({res})"]
        return []
    if circ.input_modes != 2 * case["n"]:
        return [f"oracle: converted circuit has {circ.input_modes} input modes for {case['n']} qubits"]
    a, leak = amplitude_matrix(circ, ps, case["n"])
    v = qg.qiskit_matrix(qc)
    k, resid = qg.fit_scalar(a, v)
    probs = []
    if resid > TOL:
        probs.append(f"oracle: accepted amplitudes are not a common scalar times qiskit's unitary "
                     f"(max residual {resid:.3e}, |scalar|^2 {abs(k) ** 2:.3e})")
    elif abs(k) < 1e-6:
        probs.append("oracle: the common scalar is zero")
    if leak > TOL:
        probs.append(f"oracle: an accepted output outside the qubit subspace has amplitude {leak:.3e}")
    return probs


def build_from_plan(case: dict, plan: list):
    """the circuit the MODEL's plan describes, assembled from the library's own gates"""
    import lightworks as lw
    from lightworks import qubit

    fixed = {"h": qubit.H, "x": qubit.X, "y": qubit.Y, "z": qubit.Z, "s": qubit.S, "sdg": qubit.Sadj,
             "t": qubit.T, "tdg": qubit.Tadj, "sx": qubit.SX}
    rot = {"rx": qubit.Rx, "ry": qubit.Ry, "rz": qubit.Rz, "p": qubit.P}
    c = lw.Circuit(2 * case["n"])
    qc = build_qc(case)
    for p in plan:
        if p[0] == "single":
            _, name, idx, mode = p
            g = fixed[name]() if name in fixed else rot[name](float(qc.data[idx].operation.params[0]))
            c.add(g, mode)
        elif p[0] == "swap":
            _, a, b = p
            c.add(qubit.SWAP((2 * a, 2 * a + 1), (2 * b, 2 * b + 1)), 0)
        elif p[0] == "two":
            _, name, ps, t, mode = p
            if name == "cx":
                g = qubit.CNOT(t) if ps else qubit.CNOT_Heralded(t)
            else:
                g = qubit.CZ() if ps else qubit.CZ_Heralded()
            c.add(g, mode)
        else:
            _, name, t, mode = p
            c.add(qubit.CCNOT(t) if name == "ccx" else qubit.CCZ(), mode)
    return c


def run_case(ctx: Ctx, case: dict, with_oracle: bool = True) -> list[str]:
    probs: list[str] = []
    qc = build_qc(case)
    view = instr_view(qc)
    res, circ, ps = convert_impl(qc, case["aps"])
    m = ctx.model.call({"op": "qconv", "n": case["n"], "aps": case["aps"], "instrs": view})
    if with_oracle:
        probs += oracle(case, qc)
    if m["result"] != res:
        probs.append(f"corr: conversion outcome impl={res} model={m['result']}")
        return probs
    if res != "ok":
        ctx.count("refused:" + res)
        return probs
    her = circ.heralds
    if circ.input_modes != m["n"] or circ.n_modes != m["n_full"]:
        probs.append(f"corr: modes impl={circ.input_modes}/{circ.n_modes} model={m['n']}/{m['n_full']}")
    if sorted(her["input"].items()) != sorted(map(tuple, m["in_heralds"])) or \
            sorted(her["output"].items()) != sorted(map(tuple, m["out_heralds"])):
        probs.append("corr: heralds of the converted circuit differ from the model's")
    rules = None if ps is None else sorted((tuple(r.modes), tuple(r.n_photons)) for r in ps.rules)
    want = None if m["ps_qubits"] is None else sorted(((2 * q, 2 * q + 1), (1,)) for q in m["ps_qubits"])
    if rules != want:
        probs.append(f"corr: post-selection rules impl={rules} model={want}")
    ref = build_from_plan(case, m["plan"])
    uf, ur = np.asarray(circ.U_full), np.asarray(ref.U_full)
    if uf.shape != ur.shape or np.abs(uf - ur).max() > TOL or ref.heralds != her:
        probs.append("corr: the returned circuit differs from the circuit described by the model's plan")
    for p in m["plan"]:
        ctx.count("plan:" + p[0] + (":" + ("ps" if p[2] else "heralded") if p[0] == "two" else ""))
    if any(p[0] == "swap" for p in m["plan"]) and any(g in ("cx", "cz") and abs(q[0] - q[1]) > 1 for g, q in view):
        ctx.count("non_adjacent_two_qubit_gate")
    if any(g in ("cx", "cz") and q[0] > q[1] for g, q in view):
        ctx.count("control_above_target")
    return probs


def shrink(ctx: Ctx, case: dict, pred) -> dict:
    def fails(sub):
        return bool(pred({"n": case["n"], "aps": case["aps"], "instrs": sub}))

    small = ddmin(case["instrs"], fails) if len(case["instrs"]) > 1 else case["instrs"]
    out = {"n": case["n"], "aps": case["aps"], "instrs": small}
    # drop unused top qubits
    used = [q for _, qs, _ in small for q in qs]
    n_min = (max(used) + 1) if used else 1
    if n_min < out["n"]:
        cand = dict(out, n=n_min)
        try:
            if pred(cand):
                out = cand
        except Exception:  # noqa: BLE001
            pass
    return out


def describe(case: dict) -> str:
    return "; ".join(f"{g}({','.join(map(str, q))})" for g, q, _ in case["instrs"]) + \
        f"  [{case['n']} qubits, allow_post_selection={case['aps']}]"


_SEEN_SHAPES: set = set()


def report(ctx: Ctx, case: dict, probs: list[str]) -> None:
    orc = [p for p in probs if p.startswith("oracle")]
    if orc:
        small = shrink(ctx, case, lambda c: [p for p in oracle(c) if p.startswith("oracle")])
        sp = oracle(small) or orc
        names = sorted({g for g, _, _ in small["instrs"]})
        # one report per distinct shape of the shrunk circuit (arity sequence, mode, clause)
        shape = (tuple(len(q) for _, q, _ in small["instrs"]), small["aps"], sp[0].split(":")[1].strip()[:40])
        if shape in _SEEN_SHAPES:
            ctx.count("further_failing_circuits_of_a_reported_shape")
            return
        _SEEN_SHAPES.add(shape)
        ctx.violation(f"{sp[0]} :: {describe(small)}", {"case": small, "problems": sp, "original": case},
                      sig={"kind": sp[0].split(":")[1].strip()[:40], "gates": names, "aps": small["aps"]})
    else:
        small = shrink(ctx, case, lambda c: run_case(ctx, c, with_oracle=False))
        sp = run_case(ctx, small, with_oracle=False) or probs
        ctx.disagreement(f"{sp[0]} :: {describe(small)}", {"case": small, "problems": sp})


def self_test(ctx: Ctx) -> None:
    """basis-order handling: cx(0,1) and cx(1,0) are told apart; a wrong circuit is flagged"""
    import lightworks as lw
    from lightworks import qubit

    case = {"n": 2, "aps": False, "instrs": [["cx", [0, 1], None]]}
    if oracle(case):
        raise MachineryFault("self-test: the oracle rejects the conversion of cx(0,1): " + str(oracle(case)))
    qc = build_qc(case)
    wrong = lw.Circuit(4)
    wrong.add(qubit.CNOT_Heralded(0), 0)
    a, _ = amplitude_matrix(wrong, None, 2)
    _, resid = qg.fit_scalar(a, qg.qiskit_matrix(qc))
    if resid < 1e-3:
        raise MachineryFault("self-test: a CNOT with the wrong target is not distinguished from cx(0,1)")
    ctx.count("selftest:wrong_target_detected")


def run(ctx: Ctx) -> None:
    ctx.rule = ("random qiskit circuits over the 18 supported gates (1-4 qubits, 5 in thorough; <= 8 instructions; "
                "adjacent and non-adjacent qubits, both control/target orders, both values of "
                "allow_post_selection) + directed circuits around the post-selection analysis + ~15% circuits with "
                "an unsupported / unplaceable instruction; non-trivial = converted circuit with >= 1 multi-qubit "
                "gate whose full amplitude matrix was compared with qiskit's Operator; distinct = distinct "
                "(instruction list, mode)")
    self_test(ctx)
    rng = ctx.rng
    cases = [dict(c, _kind="directed") for c in directed_cases()]
    # directed: gates on the second / third register of a multi-register circuit (finding F33)
    for aps in (True, False):
        cases.append({"n": 4, "aps": aps, "regs": [2, 2], "_kind": "directed",
                      "instrs": [["x", [2], None], ["h", [3], None], ["cx", [2, 3], None]]})
        cases.append({"n": 3, "aps": aps, "regs": [1, 1, 1], "_kind": "directed",
                      "instrs": [["h", [1], None], ["cz", [1, 2], None], ["s", [2], None]]})
    for _ in range(ctx.n(110, 1500)):
        if ctx.out_of_time():
            break
        mal = rng.random() < 0.15
        c = gen_circuit(rng, ctx.n(4, 5), 8, ctx.n(2, 3), mal)
        c["_kind"] = "malformed" if mal else "random"
        if c["n"] >= 2 and rng.random() < 0.4:
            # the same instructions on a circuit built from several registers
            cuts = sorted(rng.sample(range(1, c["n"]), rng.randint(1, min(2, c["n"] - 1))))
            c["regs"] = [b - a for a, b in zip([0, *cuts], [*cuts, c["n"]])]
        cases.append(c)
    for i, case in enumerate(cases):
        kind = case.pop("_kind")
        probs = run_case(ctx, case)
        ctx.count("stream:" + kind)
        ctx.count("mode:" + ("post_selection" if case["aps"] else "heralded_only"))
        ctx.count("registers:" + ("several" if case.get("regs") else "one"))
        multi = sum(1 for g, qs, _ in case["instrs"] if len(qs) >= 2)
        key = json.dumps(case, sort_keys=True)
        ctx.case(key, multi >= 1 and kind != "malformed", sample=case if i in (3, 40, 60) else None)
        if probs:
            ctx.count("cases_with_problems")
            report(ctx, case, probs)


def replay(ctx: Ctx, path: str) -> None:
    data = json.load(open(path))
    case = data["replay"]["case"]
    probs = run_case(ctx, case)
    ctx.case("replay", True, sample=case)
    for p in probs:
        print("replay:", p)
    orc = [p for p in probs if p.startswith("oracle")]
    if orc:
        ctx.violation(f"{orc[0]} :: {describe(case)}", {"case": case, "problems": probs}, sig={"kind": "replay"})
    elif probs:
        ctx.disagreement(probs[0], {"case": case, "problems": probs})
