"""
C12 — Qiskit conversion preserves the circuit's unitary, or refuses.

Model: LW.Model.QConvert (decision logic of qiskit_convert.py: gate dispatch, qubit->mode map,
adjacency swaps, post_selection_analyzer — the REPAIRED rule —, refusal paths, and the bookkeeping
of the converted circuit through the `Circ` model).  Theorems: LW/Properties/C12.lean.

Per generated qiskit circuit and both values of allow_post_selection:
  corr   : outcome (converted / exception class), input modes, heralds, post-selection rules, and
           U_full of the returned circuit against a circuit rebuilt from the MODEL's plan with the
           library's own gates (so a wrong gate variant / target / mode / swap shows up);
  oracle : the property itself on the implementation — Simulator amplitudes from every dual-rail
           basis input to every accepted output (heralds + returned rules) are one common non-zero
           scalar times qiskit.quantum_info.Operator(qc) (qiskit ordering handled), accepted
           outputs outside the qubit subspace have amplitude 0; a circuit of supported 1- and
           2-qubit gates is never refused.
A failing circuit is shrunk (ddmin over instructions) before it is reported.

Two further dimensions (round 4):
  * the OPTION `allow_post_selection` is supplied in every truthy / falsy form a client can hand over (bool,
    int 0/1/2, float, numpy bools — constants and results of comparisons —, numpy ints, 0-d arrays, None;
    keyword or positional).  The model is asked with the option's truth value; the oracle is evaluated with
    the circuit and the rules the call RETURNED (post-selected gates inside with `None` rules leak amplitude
    out of the qubit subspace); a value that is refused (TypeError / ValueError) while the plain bool is
    accepted is tolerated and counted (oracle-only).
  * DECORATED instructions: every way qiskit turns a supported gate name into another operation — open
    controls (`ctrl_state`, all values, int and str), `.inverse()`, `.power(k)`, `.control(m)` (plain and
    annotated), labels, parameter forms (unbound Parameter, bound expression, numpy scalars, ints),
    measure / reset / barrier / delay / id / GlobalPhaseGate / if_test, the circuit's global phase, and
    library gates whose names are near misses of supported ones.  The instruction list the converter reads
    (operation.name, qubits) goes to the model as it is; the oracle demands: refused, or the amplitude
    oracle holds against qiskit's Operator; a converted circuit for which qiskit defines no unitary is a
    violation.
"""

from __future__ import annotations

import json
import math

import numpy as np

import qgates as qg
from core import Ctx, MachineryFault, ddmin, exc_class

TRUSTED = [
    "Lean 4.33 kernel; Mathlib v4.33 as compiled on this image",
    "axioms: subset of {propext, Classical.choice, Quot.sound} (audited per theorem on every run)",
    "hand-written model LW.Model.QConvert tied to the code by this correspondence check",
    "qiskit.quantum_info.Operator as the reference semantics of a qiskit circuit; QuantumCircuit.data as "
    "the instruction list both the code and the model read",
    "lightworks.emulator.Simulator / thewalrus.perm as the implementation's amplitude evaluation",
    "C13 (gate tables) and C02 (Circuit.add routing) for the gates the plan refers to",
    "driver JSON parser and harness comparison code",
]
ASSUMPTIONS = [
    "correspondence: 1-4 qubits (5 in thorough), <= 8 instructions, <= 3 cx/cz gates per circuit (4 in "
    "post-selection mode; one fewer on 5 qubits) because every heralded gate adds two photons to the "
    "simulation; theorems are unbounded",
    "rotation angles are floats seen only by the implementation and by qiskit; no decision depends on them",
    "instructions with repeated qubits, classical bits or parameters that are not numbers are outside the model "
    "(circuits with an unbound Parameter are checked by the oracle only)",
    "allow_post_selection reaches the model as its truth value; non-bool forms of the option are an "
    "implementation-side dimension",
]

TOL = 1e-9
SINGLE = ["h", "x", "y", "z", "s", "sdg", "t", "tdg", "sx"]
ROT = ["rx", "ry", "rz", "p"]
SPECIAL_ANGLES = [0.0, math.pi, -math.pi, math.pi / 2, 2 * math.pi, math.pi / 4, -math.pi / 3, 1e-9,
                  # angles that coincide with a special value after rounding to a few decimals, but not as rotations
                  4e-4, 1e-4, -3e-4, 2 * math.pi + 3e-4, -2 * math.pi + 4.5e-4, 4 * math.pi + 4e-4, math.pi - 3e-4,
                  math.pi / 2 + 4e-4, 2e-6]


# ------------------------------------------------------------------ generation


def gen_circuit(rng, nmax: int, lmax: int, her_max: int, malformed: bool) -> dict:
    n = rng.randint(1, nmax)
    aps = rng.random() < 0.6
    length = rng.randint(0, lmax)
    instrs = []
    n_two = 0
    for _ in range(length):
        r = rng.random()
        if n >= 3 and r < (0.22 if aps else 0.04):
            qs = rng.sample(range(n), 3)
            if rng.random() < 0.8:  # adjacent triple, any order
                b = rng.randint(0, n - 3)
                qs = [b, b + 1, b + 2]
                rng.shuffle(qs)
            instrs.append([rng.choice(["ccx", "ccz"]), qs, None])
        elif n >= 2 and r < 0.55 and n_two < (her_max + 1 if aps else her_max) - (1 if n >= 5 else 0):
            qs = rng.sample(range(n), 2)
            g = rng.choice(["cx", "cx", "cz", "cz", "swap"])
            if g != "swap":
                n_two += 1
            instrs.append([g, qs, None])
        elif r < 0.8:
            instrs.append([rng.choice(SINGLE), [rng.randrange(n)], None])
        else:
            th = rng.choice(SPECIAL_ANGLES) if rng.random() < 0.25 else rng.uniform(-2 * math.pi, 2 * math.pi)
            instrs.append([rng.choice(ROT), [rng.randrange(n)], th])
    if malformed and n >= 1:
        pos = rng.randint(0, len(instrs))
        k = rng.randint(0, 5)
        if k == 0 or n == 1:
            bad = [rng.choice(["id", "reset", "u"]), [rng.randrange(n)], None]
        elif k == 1:
            bad = [rng.choice(["cy", "ch", "iswap", "rzz"]), rng.sample(range(n), 2), None]
        elif k == 2:
            bad = ["barrier", list(range(n)), None]
        elif k == 3 and n >= 4:
            bad = ["mcx", rng.sample(range(n), 4), None]
        elif k == 4 and n >= 4:
            qs = rng.sample(range(n), 3)  # most likely not adjacent
            bad = [rng.choice(["ccx", "ccz"]), qs, None]
        elif n >= 3:
            bad = ["cswap", rng.sample(range(n), 3), None]
        else:
            bad = ["cy", rng.sample(range(n), 2), None]
        instrs.insert(pos, bad)
    return {"n": n, "aps": aps, "instrs": instrs}


# ------------------------------------------------------------------ the option allow_post_selection

APS_FORMS = ["bool", "int", "np_bool", "np_cmp", "np_int", "float", "int2", "np_0d", "none"]


def aps_value(case: dict):
    """the object handed to the converter as allow_post_selection: the truth value case["aps"] in the
    form case["aps_as"] (default: the Python bool itself)"""
    b = bool(case["aps"])
    form = case.get("aps_as", "bool")
    if form == "bool":
        return b
    if form == "int":
        return 1 if b else 0
    if form == "np_bool":
        return np.True_ if b else np.False_
    if form == "np_cmp":  # the result of a comparison on numpy data
        k = np.asarray([len(q) for _, q, _ in case["instrs"]] + [0])
        return (k.max() >= 0) if b else (k.max() < 0)
    if form == "np_int":
        return np.int64(1 if b else 0)
    if form == "float":
        return 1.0 if b else 0.0
    if form == "int2":  # truthy, but not equal to True
        return 2 if b else 0
    if form == "np_0d":
        return np.asarray(b)
    if form == "none":
        return True if b else None
    raise MachineryFault(f"unknown form of allow_post_selection: {form}")


# ------------------------------------------------------------------ decorated instructions

# library gates whose names are near misses of supported names / share a prefix with them
NEAR_MISS = {  # name -> (number of qubits, number of parameters)
    "sxdg": (1, 0), "id": (1, 0), "u": (1, 3), "r": (1, 2), "cs": (2, 0), "csdg": (2, 0), "csx": (2, 0),
    "ch": (2, 0), "cy": (2, 0), "cp": (2, 1), "crx": (2, 1), "cry": (2, 1), "crz": (2, 1), "rxx": (2, 1),
    "ryy": (2, 1), "rzz": (2, 1), "rzx": (2, 1), "dcx": (2, 0), "ecr": (2, 0), "iswap": (2, 0),
    "cswap": (3, 0), "rccx": (3, 0),
}
ONE_Q = SINGLE + ROT
MULTI = {"cx": 2, "cz": 2, "swap": 2, "ccx": 3, "ccz": 3}
OPS = ["measure", "reset", "barrier", "barrier_one", "delay", "id", "global_phase", "if_test"]
PARAM_FORMS = ["unbound", "bound_expr", "np_float32", "np_float64", "int"]


def _gate_obj(name: str, theta: float, label=None):
    from qiskit.circuit import library as lib

    cls = {"h": lib.HGate, "x": lib.XGate, "y": lib.YGate, "z": lib.ZGate, "s": lib.SGate, "sdg": lib.SdgGate,
           "t": lib.TGate, "tdg": lib.TdgGate, "sx": lib.SXGate, "rx": lib.RXGate, "ry": lib.RYGate,
           "rz": lib.RZGate, "p": lib.PhaseGate, "cx": lib.CXGate, "cz": lib.CZGate, "swap": lib.SwapGate,
           "ccx": lib.CCXGate, "ccz": lib.CCZGate}[name]
    kw = {} if label is None else {"label": label}
    return cls(theta, **kw) if name in ROT else cls(**kw)


def apply_deco(qc, name: str, qs: list, d: dict) -> None:
    """append the decorated instruction described by d (JSON-able) to qc"""
    kind = d["deco"]
    theta = d.get("theta", 0.37)
    if kind == "ctrl_state":  # cx / cz / ccx / ccz / cswap / ch / cy with an explicit control state
        getattr(qc, name)(*qs, ctrl_state=d["v"])
    elif kind in ("inverse", "power", "control", "label"):
        g = _gate_obj(name, theta, label="lbl" if kind == "label" else None)
        if kind == "inverse":
            g = g.inverse(annotated=bool(d.get("annotated")))
        elif kind == "power":
            g = g.power(d["k"], annotated=bool(d.get("annotated")))
        elif kind == "control":
            g = g.control(d.get("m", 1), ctrl_state=d.get("v"), annotated=d.get("annotated"))
        qc.append(g, qs)
    elif kind == "param":
        from qiskit.circuit import Parameter

        form = d["form"]
        if form == "unbound":
            par = Parameter("a")
        elif form == "bound_expr":
            a = Parameter("a")
            par = (2 * a + 0.25).bind({a: (theta - 0.25) / 2})
        elif form == "np_float32":
            par = np.float32(theta)
        elif form == "np_float64":
            par = np.float64(theta)
        else:
            par = int(round(theta))
        getattr(qc, name)(par, *qs)
    elif kind == "near":
        getattr(qc, name)(*([0.3, 0.2, 0.1][:NEAR_MISS[name][1]]), *qs)
    elif kind == "op":
        if name == "measure":
            qc.measure(qs[0], 0)
        elif name == "reset":
            qc.reset(qs[0])
        elif name in ("barrier", "barrier_one"):
            qc.barrier(*qs)
        elif name == "delay":
            qc.delay(10, qs[0])
        elif name == "id":
            qc.id(qs[0])
        elif name == "global_phase":
            from qiskit.circuit.library import GlobalPhaseGate

            qc.append(GlobalPhaseGate(theta), [])
        elif name == "if_test":
            with qc.if_test((qc.clbits[0], 1)):
                getattr(qc, d.get("body", "x"))(*qs)
        else:
            raise MachineryFault(f"unknown op {name}")
    else:
        raise MachineryFault(f"unknown decoration {kind}")


def gen_deco(rng, n: int, aps: bool) -> list:
    """one decorated instruction on an n-qubit circuit"""
    r = rng.random()
    if r < 0.3 and n >= 2:  # explicit control state
        names = ["cx", "cz", "ch", "cy"] + (["ccx", "ccz", "cswap"] if n >= 3 else [])
        name = rng.choice(names)
        k = 3 if name in ("ccx", "ccz", "cswap") else 2
        if k == 3 and rng.random() < 0.7:
            b = rng.randint(0, n - 3)
            qs = [b, b + 1, b + 2]
            rng.shuffle(qs)
        else:
            qs = rng.sample(range(n), k)
        nc = 2 if name in ("ccx", "ccz") else 1
        v = rng.randrange(2 ** nc)
        if rng.random() < 0.3:
            v = format(v, f"0{nc}b")
        return [name, qs, {"deco": "ctrl_state", "v": v}]
    if r < 0.45:
        cand = [g for g in ONE_Q + list(MULTI) if MULTI.get(g, 1) <= n]
        name = rng.choice(cand)
        d = {"deco": "inverse", "annotated": rng.random() < 0.3}
        if name in ROT:
            d["theta"] = round(rng.uniform(-3, 3), 3)
        return [name, rng.sample(range(n), MULTI.get(name, 1)), d]
    if r < 0.6:
        cand = [g for g in ONE_Q + list(MULTI) if MULTI.get(g, 1) <= n]
        name = rng.choice(cand)
        d = {"deco": "power", "k": rng.choice([2, -1, 0.5, 0, 1, 3, -2, 1.5]), "annotated": rng.random() < 0.25}
        if name in ROT:
            d["theta"] = round(rng.uniform(-3, 3), 3)
        return [name, rng.sample(range(n), MULTI.get(name, 1)), d]
    if r < 0.75 and n >= 2:
        m = 2 if (n >= 3 and rng.random() < 0.3) else 1
        cand = [g for g in ONE_Q + ["cx", "cz", "swap"] if MULTI.get(g, 1) + m <= n and (m == 1 or g in ONE_Q)]
        name = rng.choice(["x", "z"]) if rng.random() < 0.4 else rng.choice(cand)
        d = {"deco": "control", "m": m}
        if rng.random() < 0.5:
            d["v"] = rng.randrange(2 ** m)
        if rng.random() < 0.25:
            d["annotated"] = True
        if name in ROT:
            d["theta"] = round(rng.uniform(-3, 3), 3)
        k = MULTI.get(name, 1) + m
        if k == 3 and rng.random() < 0.7:
            b = rng.randint(0, n - 3)
            qs = [b, b + 1, b + 2]
            rng.shuffle(qs)
        else:
            qs = rng.sample(range(n), k)
        return [name, qs, d]
    if r < 0.85:
        return [rng.choice(ROT), [rng.randrange(n)],
                {"deco": "param", "form": rng.choice(PARAM_FORMS), "theta": round(rng.uniform(-3, 3), 3)}]
    if r < 0.93:
        name = rng.choice(OPS)
        qs = list(range(n)) if name == "barrier" else ([] if name == "global_phase" else [rng.randrange(n)])
        d = {"deco": "op", "theta": round(rng.uniform(-3, 3), 3)}
        if name == "if_test":
            d["body"] = rng.choice(["x", "h", "z"])
        return [name, qs, d]
    if r < 0.96:
        name = rng.choice([g for g in ONE_Q + list(MULTI) if MULTI.get(g, 1) <= n])
        d = {"deco": "label"}
        if name in ROT:
            d["theta"] = round(rng.uniform(-3, 3), 3)
        return [name, rng.sample(range(n), MULTI.get(name, 1)), d]
    cand = [g for g, (k, _) in NEAR_MISS.items() if k <= n]
    name = rng.choice(cand)
    return [name, rng.sample(range(n), NEAR_MISS[name][0]), {"deco": "near"}]


def directed_deco_cases() -> list[dict]:
    """the corpus of decorated instructions: every open-control state of every controlled gate the converter
    knows (and of the controlled swap), every supported gate inverted / raised to a power / controlled /
    labelled, every parameter form, every non-unitary or structural instruction, the near-miss names"""
    out = []

    def add(n, aps, instrs, **kw):
        out.append(dict({"n": n, "aps": aps, "instrs": instrs}, **kw))

    for aps in (True, False):
        for name, qs in (("cx", [0, 1]), ("cx", [1, 0]), ("cz", [0, 1]), ("cx", [0, 2])):
            for v in (0, 1, "0", "1"):
                add(max(qs) + 1, aps, [[name, qs, {"deco": "ctrl_state", "v": v}]])
        # in context: the open-controlled gate after a superposition on its control, before a plain gate
        add(2, aps, [["h", [0], None], ["cx", [0, 1], {"deco": "ctrl_state", "v": 0}], ["cz", [0, 1], None]])
        add(2, aps, [["h", [1], None], ["cz", [1, 0], {"deco": "ctrl_state", "v": 0}], ["h", [0], None]])
        for v in (0, 1):
            add(3, aps, [["cswap", [0, 1, 2], {"deco": "ctrl_state", "v": v}]])
            add(2, aps, [["ch", [0, 1], {"deco": "ctrl_state", "v": v}]])
    for name in ("ccx", "ccz"):
        for qs in ([0, 1, 2], [2, 0, 1]):
            for v in (0, 1, 2, 3, "01", "11"):
                add(3, True, [[name, qs, {"deco": "ctrl_state", "v": v}]])
        add(3, False, [[name, [0, 1, 2], {"deco": "ctrl_state", "v": 1}]])
    for name in ONE_Q + list(MULTI):
        k = MULTI.get(name, 1)
        aps = k == 3 or name in ("h", "s", "cx")
        for ann in (False, True):
            add(k, aps, [[name, list(range(k)), {"deco": "inverse", "annotated": ann, "theta": 0.61}]])
        for p in ((2, -1, 0.5, 0) if k == 1 else (2, -1)):
            add(k, aps, [[name, list(range(k)), {"deco": "power", "k": p, "theta": 0.61}]])
        add(k, aps, [[name, list(range(k)), {"deco": "power", "k": 2, "annotated": True, "theta": 0.61}]])
        add(k, aps, [[name, list(range(k)), {"deco": "label", "theta": 0.61}]])
        if k <= 2:
            for d in ({}, {"v": 0}, {"annotated": True}):
                add(k + 1, True, [[name, list(range(k + 1)), dict({"deco": "control", "m": 1, "theta": 0.61}, **d)]])
        if name in ("x", "z", "h", "p"):
            for v in (None, 0, 1, 2, 3):
                d = {"deco": "control", "m": 2, "theta": 0.61}
                if v is not None:
                    d["v"] = v
                add(3, True, [[name, [0, 1, 2], d]])
    for name in ROT:
        for form in PARAM_FORMS:
            add(1, name == "rx", [[name, [0], {"deco": "param", "form": form, "theta": 1.3}]])
            add(2, True, [["h", [0], None], ["cx", [0, 1], None],
                          [name, [1], {"deco": "param", "form": form, "theta": -2.0}]])
    for name in OPS:
        qs = [0, 1] if name == "barrier" else ([] if name == "global_phase" else [0])
        for aps in (True, False):
            add(2, aps, [["h", [0], None], [name, qs, {"deco": "op", "theta": 0.9, "body": "x"}], ["cx", [0, 1], None]])
            add(2, aps, [[name, qs, {"deco": "op", "theta": 0.9, "body": "x"}]])
    for aps in (True, False):
        add(2, aps, [["h", [0], None], ["cx", [0, 1], None], ["rz", [1], 0.4]], global_phase=0.7)
        add(2, aps, [["h", [0], None], ["cz", [1, 0], None]], global_phase=-math.pi)
    for name, (k, _) in NEAR_MISS.items():
        add(k, k == 3 or name in ("cs", "sxdg"), [[name, list(range(k)), {"deco": "near"}]])
    return out


def directed_aps_cases() -> list[dict]:
    """every form of the option on circuits with post-selectable gates (2- and 3-qubit), on a circuit whose
    entangling gates cannot all be post-selected, and on circuits without entangling gates"""
    out = []
    circuits = [
        (2, [["cx", [0, 1], None]]),
        (3, [["h", [0], None], ["cx", [0, 1], None], ["ry", [2], 0.7], ["cz", [1, 2], None]]),
        (2, [["cx", [0, 1], None], ["h", [0], None], ["cz", [1, 0], None]]),
        (3, [["ccx", [0, 1, 2], None]]),
        (3, [["h", [2], None], ["ccz", [2, 0, 1], None]]),
        (2, [["h", [0], None], ["swap", [0, 1], None]]),
    ]
    for form in APS_FORMS[1:]:
        for ci, (n, ins) in enumerate(circuits):
            for aps in (True, False):
                if not aps and ci in (1, 4):
                    continue
                out.append({"n": n, "aps": aps, "aps_as": form, "instrs": [list(i) for i in ins],
                            "call": "pos" if (ci + len(form)) % 2 else "kw"})
    return out


def directed_cases() -> list[dict]:
    """small structured circuits around the post-selection analysis (multi-qubit gate followed by
    gates on subsets of its qubits), both modes"""
    out = []
    for first in (["ccx", [0, 1, 2]], ["ccz", [2, 0, 1]], ["ccx", [2, 1, 0]]):
        for later in ([], [["cx", [0, 1]]], [["cz", [1, 2]]], [["cx", [2, 3]]], [["cx", [3, 0]]],
                      [["h", [0]], ["cx", [1, 3]]], [["swap", [0, 1]]], [["cx", [0, 1]], ["cx", [1, 2]]],
                      [["ccz", [1, 2, 3]]]):
            ins = [[first[0], first[1], None]] + [[g, q, None] for g, q in later]
            n = 1 + max(q for _, qs, _ in ins for q in qs)
            out.append({"n": max(n, 3), "aps": True, "instrs": ins})
    # three-qubit gates on qubits that are NOT neighbours, every triple of 4 qubits in every argument order and every
    # triple of 5 qubits in two orders (refused today; a converter that routes them must route them correctly), alone
    # and after a superposition so that a permutation of the qubits left behind shows in the amplitudes
    import itertools

    for n in (4, 5):
        for tri in itertools.combinations(range(n), 3):
            if tri[2] - tri[0] == 2:
                continue
            orders = list(itertools.permutations(tri)) if n == 4 else [tri, (tri[2], tri[0], tri[1])]
            for k, qs in enumerate(orders):
                g = "ccx" if (k + sum(tri)) % 2 else "ccz"
                pre = [["h", [tri[1]], None], ["ry", [tri[0]], 0.7]] if k % 2 else []
                out.append({"n": n, "aps": True, "instrs": [*pre, [g, list(qs), None]]})
    # rotations by angles that differ from a whole number of turns (or from pi, pi/2) only in the 4th decimal and beyond
    for g in ROT:
        for th in (4e-4, 2 * math.pi + 3e-4, -2 * math.pi + 4.5e-4, math.pi - 3e-4):
            out.append({"n": 1, "aps": g in ("rx", "p"), "instrs": [["h", [0], None], [g, [0], th], ["h", [0], None]]})
        out.append({"n": 2, "aps": True, "instrs": [["h", [0], None], [g, [0], 3e-4], ["cx", [0, 1], None], [g, [1], -2e-4]]})
    # two entangling gates that meet on the same qubits only through a swap in between (post-selection analysis)
    for g1 in ("cx", "cz"):
        for g2 in ("cx", "cz"):
            for a, sw, b in (([0, 1], [1, 2], [0, 2]), ([1, 0], [0, 2], [2, 1]), ([0, 2], [2, 1], [1, 0]), ([1, 2], [0, 1], [2, 0])):
                out.append({"n": 3, "aps": True, "instrs": [["h", [a[0]], None], [g1, a, None], ["swap", sw, None], [g2, b, None]]})
    for ins in ([["cx", [0, 1]], ["cx", [0, 1]]], [["cz", [0, 1]], ["h", [0]], ["cx", [1, 0]]],
                [["cx", [0, 2]], ["cz", [2, 1]]], [["cx", [3, 0]]], [["cz", [0, 3]], ["cx", [1, 2]]]):
        for aps in (True, False):
            full = [[g, q, None] for g, q in ins]
            out.append({"n": 1 + max(q for _, qs, _ in full for q in qs), "aps": aps, "instrs": full})
    return out


def build_qc(case: dict):
    from qiskit import QuantumCircuit

    regs = case.get("regs")
    if regs:
        # several quantum registers: a qubit's position in the circuit differs from its index in its register
        from qiskit import QuantumRegister

        qc = QuantumCircuit(*[QuantumRegister(k, f"r{j}") for j, k in enumerate(regs)])
    else:
        qc = QuantumCircuit(case["n"])
    if any(name in ("measure", "if_test") for name, _, th in case["instrs"] if isinstance(th, dict)):
        from qiskit import ClassicalRegister

        qc.add_register(ClassicalRegister(1, "c"))
    if case.get("global_phase") is not None:
        qc.global_phase = case["global_phase"]
    for name, qs, th in case["instrs"]:
        if isinstance(th, dict):
            apply_deco(qc, name, qs, th)
        elif name in ROT or name == "rzz":
            getattr(qc, name)(0.37 if th is None else th, *qs)
        elif name == "u":
            qc.u(0.1, 0.2, 0.3, *qs)
        elif name == "barrier":
            qc.barrier(*qs)
        elif name == "mcx":
            qc.mcx(qs[:-1], qs[-1])
        else:
            getattr(qc, name)(*qs)
    return qc


def instr_view(qc) -> list:
    """what the converter reads: operation.name and the qubit indices"""
    return [[inst.operation.name, [qc.find_bit(q).index for q in inst.qubits]] for inst in qc.data]


# ------------------------------------------------------------------ implementation side


def convert_impl(qc, aps, call: str | None = None):
    from lightworks import qubit

    try:
        if call == "pos":
            circ, ps = qubit.qiskit_converter(qc, aps)
        else:
            circ, ps = qubit.qiskit_converter(qc, allow_post_selection=aps)
        return "ok", circ, ps
    except Exception as e:  # noqa: BLE001
        return exc_class(e), None, None


def amplitude_matrix(circ, ps, n: int):
    """A[out, in] on the dual-rail basis, the largest accepted amplitude outside the qubit
    subspace, from the Simulator (all outputs with the heralds satisfied, then the rules)"""
    import lightworks as lw

    bits = qg.bit_strings(n)
    inputs = [qg.dual_rail(b) for b in bits]
    amps = qg.impl_amplitudes(circ, inputs)
    a = np.zeros((len(bits), len(bits)), dtype=complex)
    leak = 0.0
    for ci, ins in enumerate(inputs):
        for o, amp in amps[tuple(ins)].items():
            if ps is not None and not ps.validate(lw.State(list(o))):
                continue
            if qg.is_dual_rail(o):
                a[bits.index(qg.bits_of(o)), ci] = amp
            else:
                leak = max(leak, abs(amp))
    return a, leak


def reference_unitary(qc):
    """qiskit's Operator of the circuit in our basis order, or (None, reason) when qiskit defines none
    (measurement, reset, classical control, unbound parameters ...)"""
    try:
        return qg.qiskit_matrix(qc), None
    except Exception as e:  # noqa: BLE001
        return None, exc_class(e)


def oracle(case: dict, qc=None, info: dict | None = None) -> list[str]:
    """the property's clauses on the implementation alone"""
    info = {} if info is None else info
    qc = qc or build_qc(case)
    res, circ, ps = convert_impl(qc, aps_value(case), case.get("call"))
    info["res"] = res
    names = [i[0] for i in instr_view(qc)]
    v, no_unitary = reference_unitary(qc)
    if res != "ok":
        if case.get("aps_as", "bool") != "bool" and res in ("TypeError", "ValueError") \
                and convert_impl(qc, bool(case["aps"]))[0] == "ok":
            info["aps_value_refused"] = True  # the VALUE of the option is refused, not the circuit
            return []
        if v is not None and all(g in SINGLE + ROT + ["cx", "cz", "swap"] for g in names):
            return [f"oracle: a circuit of supported one- and two-qubit gates is refused ({res})"]
        return []
    if v is None:
        return [f"oracle: a circuit for which qiskit defines no unitary ({no_unitary}) is converted instead of refused"]
    if circ.input_modes != 2 * case["n"]:
        return [f"oracle: converted circuit has {circ.input_modes} input modes for {case['n']} qubits"]
    a, leak = amplitude_matrix(circ, ps, case["n"])
    k, resid = qg.fit_scalar(a, v)
    probs = []
    if resid > TOL:
        probs.append(f"oracle: accepted amplitudes are not a common scalar times qiskit's unitary "
                     f"(max residual {resid:.3e}, |scalar|^2 {abs(k) ** 2:.3e})")
    elif abs(k) < 1e-6:
        probs.append("oracle: the common scalar is zero")
    if leak > TOL:
        probs.append(f"oracle: an accepted output outside the qubit subspace has amplitude {leak:.3e}")
    return probs


def build_from_plan(case: dict, plan: list):
    """the circuit the MODEL's plan describes, assembled from the library's own gates"""
    import lightworks as lw
    from lightworks import qubit

    fixed = {"h": qubit.H, "x": qubit.X, "y": qubit.Y, "z": qubit.Z, "s": qubit.S, "sdg": qubit.Sadj,
             "t": qubit.T, "tdg": qubit.Tadj, "sx": qubit.SX}
    rot = {"rx": qubit.Rx, "ry": qubit.Ry, "rz": qubit.Rz, "p": qubit.P}
    c = lw.Circuit(2 * case["n"])
    qc = build_qc(case)
    for p in plan:
        if p[0] == "single":
            _, name, idx, mode = p
            g = fixed[name]() if name in fixed else rot[name](float(qc.data[idx].operation.params[0]))
            c.add(g, mode)
        elif p[0] == "swap":
            _, a, b = p
            c.add(qubit.SWAP((2 * a, 2 * a + 1), (2 * b, 2 * b + 1)), 0)
        elif p[0] == "two":
            _, name, ps, t, mode = p
            if name == "cx":
                g = qubit.CNOT(t) if ps else qubit.CNOT_Heralded(t)
            else:
                g = qubit.CZ() if ps else qubit.CZ_Heralded()
            c.add(g, mode)
        else:
            _, name, t, mode = p
            c.add(qubit.CCNOT(t) if name == "ccx" else qubit.CCZ(), mode)
    return c


def outside_model(qc) -> bool:
    from qiskit.circuit import ParameterExpression

    return any(isinstance(p, ParameterExpression) for inst in qc.data for p in inst.operation.params)


def run_case(ctx: Ctx, case: dict, with_oracle: bool = True, info: dict | None = None) -> list[str]:
    probs: list[str] = []
    info = {} if info is None else info
    qc = build_qc(case)
    view = instr_view(qc)
    res, circ, ps = convert_impl(qc, aps_value(case), case.get("call"))
    info["res"] = res
    if with_oracle:
        probs += oracle(case, qc, info)
    if outside_model(qc):
        # an unbound Parameter: no decision of the model depends on angles, the implementation cannot
        # evaluate the gate; the refusal-or-correct clause is checked by the oracle alone
        ctx.count("unbound_parameter:oracle-only")
        return probs
    if res != "ok" and case.get("aps_as", "bool") != "bool" and res in ("TypeError", "ValueError") \
            and convert_impl(qc, bool(case["aps"]))[0] == "ok":
        ctx.count("aps_value_refused:oracle-only")
        return probs
    m = ctx.model.call({"op": "qconv", "n": case["n"], "aps": bool(case["aps"]), "instrs": view})
    if m["result"] != res:
        probs.append(f"corr: conversion outcome impl={res} model={m['result']}")
        return probs
    if res != "ok":
        ctx.count("refused:" + res)
        return probs
    her = circ.heralds
    if circ.input_modes != m["n"] or circ.n_modes != m["n_full"]:
        probs.append(f"corr: modes impl={circ.input_modes}/{circ.n_modes} model={m['n']}/{m['n_full']}")
    if sorted(her["input"].items()) != sorted(map(tuple, m["in_heralds"])) or \
            sorted(her["output"].items()) != sorted(map(tuple, m["out_heralds"])):
        probs.append("corr: heralds of the converted circuit differ from the model's")
    rules = None if ps is None else sorted((tuple(r.modes), tuple(r.n_photons)) for r in ps.rules)
    want = None if m["ps_qubits"] is None else sorted(((2 * q, 2 * q + 1), (1,)) for q in m["ps_qubits"])
    if rules != want:
        probs.append(f"corr: post-selection rules impl={rules} model={want}")
    ref = build_from_plan(case, m["plan"])
    uf, ur = np.asarray(circ.U_full), np.asarray(ref.U_full)
    if uf.shape != ur.shape or np.abs(uf - ur).max() > TOL or ref.heralds != her:
        probs.append("corr: the returned circuit differs from the circuit described by the model's plan")
    for p in m["plan"]:
        ctx.count("plan:" + p[0] + (":" + ("ps" if p[2] else "heralded") if p[0] == "two" else ""))
    if any(p[0] == "swap" for p in m["plan"]) and any(g in ("cx", "cz") and abs(q[0] - q[1]) > 1 for g, q in view):
        ctx.count("non_adjacent_two_qubit_gate")
    if any(g in ("cx", "cz") and q[0] > q[1] for g, q in view):
        ctx.count("control_above_target")
    return probs


def shrink(ctx: Ctx, case: dict, pred) -> dict:
    # the other dimensions of the case (registers, form of the option, call style, global phase) are kept
    # while the instruction list is minimised, then dropped one by one where the failure does not need them
    base = {k: v for k, v in case.items() if k != "instrs"}

    def fails(sub):
        return bool(pred(dict(base, instrs=sub)))

    small = ddmin(case["instrs"], fails) if len(case["instrs"]) > 1 else case["instrs"]
    out = dict(base, instrs=small)

    def attempt(cand):
        try:
            return bool(pred(cand))
        except MachineryFault:
            raise
        except Exception:  # noqa: BLE001
            return False

    for key in ("regs", "aps_as", "call", "global_phase"):
        if key in out:
            cand = {k: v for k, v in out.items() if k != key}
            if attempt(cand):
                out = cand
    # drop unused top qubits
    used = [q for _, qs, _ in small for q in qs]
    n_min = (max(used) + 1) if used else 1
    if n_min < out["n"] and "regs" not in out:
        cand = dict(out, n=n_min)
        if attempt(cand):
            out = cand
    return out


def describe(case: dict) -> str:
    def one(g, q, th):
        d = ""
        if isinstance(th, dict):
            d = "{" + ",".join(f"{k}={v}" for k, v in th.items() if k != "theta" or g in ROT) + "}"
        elif isinstance(th, (int, float)):
            d = f"[{th:.9g}]"
        return f"{g}{d}({','.join(map(str, q))})"

    extra = "".join(f", {k}={case[k]}" for k in ("regs", "global_phase", "call") if case.get(k) is not None)
    return "; ".join(one(g, q, th) for g, q, th in case["instrs"]) + \
        f"  [{case['n']} qubits, allow_post_selection={aps_value(case)!r}{extra}]"


_SEEN_SHAPES: set = set()


def report(ctx: Ctx, case: dict, probs: list[str]) -> None:
    orc = [p for p in probs if p.startswith("oracle")]
    if orc:
        small = shrink(ctx, case, lambda c: [p for p in oracle(c) if p.startswith("oracle")])
        sp = oracle(small) or orc
        names = sorted({g for g, _, _ in small["instrs"]})
        # one report per distinct shape of the shrunk circuit (arity sequence, mode, clause)
        decos = sorted({th["deco"] for _, _, th in small["instrs"] if isinstance(th, dict)})
        shape = (tuple(len(q) for _, q, _ in small["instrs"]), small["aps"], sp[0].split(":")[1].strip()[:40],
                 tuple(decos), small.get("aps_as", "bool") == "bool")
        if shape in _SEEN_SHAPES:
            ctx.count("further_failing_circuits_of_a_reported_shape")
            return
        _SEEN_SHAPES.add(shape)
        ctx.violation(f"{sp[0]} :: {describe(small)}", {"case": small, "problems": sp, "original": case},
                      sig={"kind": sp[0].split(":")[1].strip()[:40], "gates": names, "aps": small["aps"],
                           **({"decorations": decos} if decos else {}),
                           **({"aps_as": small["aps_as"]} if small.get("aps_as", "bool") != "bool" else {})})
    else:
        small = shrink(ctx, case, lambda c: run_case(ctx, c, with_oracle=False))
        sp = run_case(ctx, small, with_oracle=False) or probs
        ctx.disagreement(f"{sp[0]} :: {describe(small)}", {"case": small, "problems": sp})


def self_test(ctx: Ctx) -> None:
    """basis-order handling: cx(0,1) and cx(1,0) are told apart; a wrong circuit is flagged"""
    import lightworks as lw
    from lightworks import qubit

    case = {"n": 2, "aps": False, "instrs": [["cx", [0, 1], None]]}
    if oracle(case):
        raise MachineryFault("self-test: the oracle rejects the conversion of cx(0,1): " + str(oracle(case)))
    qc = build_qc(case)
    wrong = lw.Circuit(4)
    wrong.add(qubit.CNOT_Heralded(0), 0)
    a, _ = amplitude_matrix(wrong, None, 2)
    _, resid = qg.fit_scalar(a, qg.qiskit_matrix(qc))
    if resid < 1e-3:
        raise MachineryFault("self-test: a CNOT with the wrong target is not distinguished from cx(0,1)")
    ctx.count("selftest:wrong_target_detected")


def run(ctx: Ctx) -> None:
    ctx.rule = ("random qiskit circuits over the 18 supported gates (1-4 qubits, 5 in thorough; <= 8 instructions; "
                "adjacent and non-adjacent qubits, both control/target orders, both values of "
                "allow_post_selection) + directed circuits around the post-selection analysis + ~15% circuits with "
                "an unsupported / unplaceable instruction; non-trivial = converted circuit with >= 1 multi-qubit "
                "gate whose full amplitude matrix was compared with qiskit's Operator; distinct = distinct "
                "(instruction list, mode); + the option allow_post_selection in 9 truthy / falsy forms (directed on 6 "
                "circuits, random on half of the random circuits, keyword / positional) + decorated instructions "
                "(corpus of open controls, inverse, power, control, labels, parameter forms, non-unitary and "
                "structural instructions, near-miss names; random circuits with 1-2 decorated instructions)")
    self_test(ctx)
    rng = ctx.rng
    cases = [dict(c, _kind="directed") for c in directed_cases()]
    # directed: gates on the second / third register of a multi-register circuit (finding F33)
    for aps in (True, False):
        cases.append({"n": 4, "aps": aps, "regs": [2, 2], "_kind": "directed",
                      "instrs": [["x", [2], None], ["h", [3], None], ["cx", [2, 3], None]]})
        cases.append({"n": 3, "aps": aps, "regs": [1, 1, 1], "_kind": "directed",
                      "instrs": [["h", [1], None], ["cz", [1, 2], None], ["s", [2], None]]})
    cases += [dict(c, _kind="directed_option") for c in directed_aps_cases()]
    cases += [dict(c, _kind="directed_decorated") for c in directed_deco_cases()]
    for _ in range(ctx.n(60, 600)):
        # random circuits (shorter, one heralded gate fewer) with one or two decorated instructions inserted
        c = gen_circuit(rng, ctx.n(4, 5), 5, ctx.n(2, 3) - 1, False)
        for _k in range(rng.choice([1, 1, 2])):
            c["instrs"].insert(rng.randint(0, len(c["instrs"])), gen_deco(rng, c["n"], c["aps"]))
        if rng.random() < 0.15:
            c["global_phase"] = round(rng.uniform(-3, 3), 3)
        c["_kind"] = "decorated"
        cases.append(c)
    for _ in range(ctx.n(110, 1500)):
        if ctx.out_of_time():
            break
        mal = rng.random() < 0.15
        c = gen_circuit(rng, ctx.n(4, 5), 8, ctx.n(2, 3), mal)
        c["_kind"] = "malformed" if mal else "random"
        if c["n"] >= 2 and rng.random() < 0.4:
            # the same instructions on a circuit built from several registers
            cuts = sorted(rng.sample(range(1, c["n"]), rng.randint(1, min(2, c["n"] - 1))))
            c["regs"] = [b - a for a, b in zip([0, *cuts], [*cuts, c["n"]])]
        if rng.random() < 0.5:
            c["aps_as"] = rng.choice(APS_FORMS[1:])
            if rng.random() < 0.3:
                c["call"] = "pos"
        cases.append(c)
    for i, case in enumerate(cases):
        if ctx.out_of_time():
            break
        kind = case.pop("_kind")
        info: dict = {}
        probs = run_case(ctx, case, info=info)
        ctx.count("stream:" + kind)
        ctx.count("option_form:" + case.get("aps_as", "bool") + (":truthy" if case["aps"] else ":falsy"))
        ctx.count("call:" + case.get("call", "kw"))
        for _g, _q, th in case["instrs"]:
            if isinstance(th, dict):
                ctx.count("decoration:" + th["deco"] + (":" + _g if th["deco"] in ("op", "ctrl_state") else "")
                          + (":converted" if info.get("res") == "ok" else ":refused"))
        ctx.count("mode:" + ("post_selection" if case["aps"] else "heralded_only"))
        ctx.count("registers:" + ("several" if case.get("regs") else "one"))
        multi = sum(1 for g, qs, _ in case["instrs"] if len(qs) >= 2)
        key = json.dumps(case, sort_keys=True)
        nontrivial = multi >= 1 and kind != "malformed"
        if "decorated" in kind:  # non-trivial: converted with >= 1 multi-qubit gate, or a decorated multi-qubit refused
            nontrivial = multi >= 1
        ctx.case(key, nontrivial, sample=case if i in (3, 40, 60) else None)
        if probs:
            ctx.count("cases_with_problems")
            report(ctx, case, probs)


def replay(ctx: Ctx, path: str) -> None:
    data = json.load(open(path))
    case = data["replay"]["case"]
    probs = run_case(ctx, case)
    ctx.case("replay", True, sample=case)
    for p in probs:
        print("replay:", p)
    orc = [p for p in probs if p.startswith("oracle")]
    if orc:
        ctx.violation(f"{orc[0]} :: {describe(case)}", {"case": case, "problems": probs}, sig={"kind": "replay"})
    elif probs:
        ctx.disagreement(probs[0], {"case": case, "problems": probs})
