"""
C13 — the qubit gate library implements the gates it names.

Model: LW.Model.Gates (every constructor of lightworks/qubit/gates built through the `Circ` model
of Circuit.add / herald over exact algebraic-number towers, LW.Model.GateTowers) and
LW.Model.QFock (permanent-based heralded amplitudes).  Theorems: LW/Properties/C13.lean.

Per case (one gate with its options) the implementation is compared with the model on
  * outcome (constructed / exception class), n_modes, heralds, U_full,
  * the Simulator's heralded amplitudes from every dual-rail basis input to EVERY reported output,
and the property's clauses are evaluated on the implementation itself (oracle):
  * amplitudes restricted to dual-rail outputs = one common scalar × the named gate's matrix,
  * |scalar|² = 1 (single-qubit, SWAP), 1/9 (CZ, CNOT), 1/16 (heralded), 1/72 (CCZ, CCNOT),
  * heralded gates and SWAP: every accepted output outside the qubit subspace has amplitude 0.
The named matrices are fixed in qgates.py and cross-checked against qiskit's Operator on each run.
"""

from __future__ import annotations

import json
import math
from fractions import Fraction

import numpy as np

import qgates as qg
from core import CIRCLE, Ctx, MachineryFault, exc_class, frac_str

TRUSTED = [
    "Lean 4.33 kernel; Mathlib v4.33 as compiled on this image",
    "axioms: subset of {propext, Classical.choice, Quot.sound} (audited per theorem on every run)",
    "hand-written model LW.Model.Gates / GateTowers / QFock tied to the code by this correspondence check",
    "float evaluation of **, sqrt, exp, cos, sin: real-analytic value up to rounding (1e-9 tolerance)",
    "thewalrus.perm / lightworks.emulator.Simulator as the implementation's amplitude evaluation",
    "qiskit.quantum_info.Operator as the reference semantics of the named gates (self-test each run)",
    "driver JSON parser and harness comparison code",
]
ASSUMPTIONS = [
    "rotation parameters are rational points on the unit circle (cos(theta/2), sin(theta/2)) resp. "
    "exp(i theta); the code sees theta = 2*atan2(s, c) resp. atan2 as a float; the theorems are for "
    "every value in a commutative ring",
    "SWAP mode numbers <= 7 in the correspondence check (theorem: all mode pairs)",
    "non-integer target_qubit / mode arguments (TypeError paths, bool/float coercions) are not modelled",
]

TOL = 1e-9
FIXED_SINGLE = ["I", "H", "X", "Y", "Z", "S", "Sadj", "T", "Tadj", "SX"]
ROT = ["P", "Rx", "Ry", "Rz"]
SCALAR_SQ = {"CZ": Fraction(1, 9), "CNOT": Fraction(1, 9), "CZ_Heralded": Fraction(1, 16),
             "CNOT_Heralded": Fraction(1, 16), "CCZ": Fraction(1, 72), "CCNOT": Fraction(1, 72), "SWAP": Fraction(1)}
HERALDED = {"CZ_Heralded", "CNOT_Heralded"}


# ------------------------------------------------------------------ cases


def fixed_cases() -> list[dict]:
    cs = [{"gate": g} for g in FIXED_SINGLE]
    cs += [{"gate": "CZ"}, {"gate": "CNOT", "target": 0}, {"gate": "CNOT", "target": 1}, {"gate": "CNOT"},
           {"gate": "CZ_Heralded"}, {"gate": "CNOT_Heralded", "target": 0}, {"gate": "CNOT_Heralded", "target": 1},
           {"gate": "CNOT_Heralded"}, {"gate": "CCZ"}, {"gate": "CCNOT", "target": 0}, {"gate": "CCNOT", "target": 1},
           {"gate": "CCNOT", "target": 2}, {"gate": "CCNOT"}]
    return cs


def gen_rotation(rng) -> dict:
    g = rng.choice(ROT)
    p = rng.choice(CIRCLE)
    return {"gate": g, "re": frac_str(p.re), "im": frac_str(p.im)}


def gen_swap(rng, nmax: int) -> dict:
    modes = rng.sample(range(nmax), 4)
    if rng.random() < 0.3:
        base = rng.randint(0, nmax - 4)
        modes = [base, base + 1, base + 2, base + 3]
        if rng.random() < 0.5:
            modes = modes[2:] + modes[:2]
    return {"gate": "SWAP", "q1": modes[:2], "q2": modes[2:]}


def gen_malformed(rng) -> dict:
    k = rng.randint(0, 6)
    if k == 0:
        return {"gate": rng.choice(["CNOT", "CNOT_Heralded"]), "target": rng.choice([2, -1, 3, 5])}
    if k == 1:
        return {"gate": "CCNOT", "target": rng.choice([3, -1, 4, 7])}
    a = rng.sample(range(6), 4)
    if k == 2:  # wrong tuple length
        q1, q2 = a[:2], a[2:]
        if rng.random() < 0.5:
            q1 = q1 + [rng.randint(0, 5)] if rng.random() < 0.5 else q1[:1]
        else:
            q2 = q2 + [rng.randint(0, 5)] if rng.random() < 0.5 else q2[:1]
        return {"gate": "SWAP", "q1": q1, "q2": q2}
    if k == 3:  # repeated mode between the two qubits / inside one qubit
        j, l = rng.sample(range(4), 2)
        a[j] = a[l]
        return {"gate": "SWAP", "q1": a[:2], "q2": a[2:]}
    if k == 4:  # negative mode
        a[rng.randrange(4)] = -rng.randint(1, 3)
        return {"gate": "SWAP", "q1": a[:2], "q2": a[2:]}
    if k == 5:  # the same qubit twice (accepted: identity)
        return {"gate": "SWAP", "q1": a[:2], "q2": a[:2]}
    return {"gate": "SWAP", "q1": [-1, -2], "q2": [-3, -4]}


def theta_of(case: dict) -> float:
    re, im = float(Fraction(case["re"])), float(Fraction(case["im"]))
    ang = math.atan2(im, re)
    return ang if case["gate"] == "P" else 2 * ang


def build_impl(case: dict):
    from lightworks import qubit

    g = case["gate"]
    if g in FIXED_SINGLE:
        return getattr(qubit, g)()
    if g in ROT:
        return getattr(qubit, g)(theta_of(case))
    if g == "SWAP":
        return qubit.SWAP(tuple(case["q1"]), tuple(case["q2"]))
    cls = getattr(qubit, g)
    return cls(case["target"]) if "target" in case else cls()


def model_request(case: dict, inputs) -> dict:
    g = case["gate"]
    req = {"op": "gate", "name": g, "inputs": [list(s) for s in inputs]}
    if g in ROT:
        re, im = case["re"], case["im"]
        neg_im = frac_str(-Fraction(im))
        if g == "P":
            req["p"] = f"{re},{im}"
        elif g in ("Rx", "Ry"):
            req["c"], req["s"] = re, im
        else:
            req["pm"], req["pp"] = f"{re},{neg_im}", f"{re},{im}"
    elif g == "SWAP":
        req["q1"], req["q2"] = case["q1"], case["q2"]
    elif "target" in case:
        req["target"] = case["target"]
    return req


def swap_wellformed(case: dict) -> bool:
    ms = case["q1"] + case["q2"]
    return len(case["q1"]) == 2 and len(case["q2"]) == 2 and len(set(ms)) == 4 and min(ms) >= 0


def case_inputs(case: dict, n_user: int) -> tuple[list[list[int]], list | None]:
    """user input states on which amplitudes are compared, and (when the gate's qubits are
    well defined) the list of basis bit strings those inputs encode"""
    g = case["gate"]
    if g == "SWAP":
        if swap_wellformed(case):
            (a0, a1), (b0, b1) = case["q1"], case["q2"]
            ins = []
            for x, y in qg.bit_strings(2):
                s = [0] * n_user
                s[(a0, a1)[x]] += 1
                s[(b0, b1)[y]] += 1
                ins.append(s)
            return ins, qg.bit_strings(2)
        # degenerate but accepted (e.g. the same qubit twice): a few generic two-photon inputs
        ins = []
        for i in range(min(n_user, 3)):
            s = [0] * n_user
            s[i] += 1
            s[(i + 1) % n_user] += 1
            ins.append(s)
        return ins, None
    nq = n_user // 2
    bs = qg.bit_strings(nq)
    return [qg.dual_rail(b) for b in bs], bs


def swap_out_bits(case: dict, state) -> tuple | None:
    (a0, a1), (b0, b1) = case["q1"], case["q2"]
    s = list(state)
    if sum(s) != 2 or s[a0] + s[a1] != 1 or s[b0] + s[b1] != 1:
        return None
    return (0 if s[a0] == 1 else 1, 0 if s[b0] == 1 else 1)


# ------------------------------------------------------------------ one case


def run_case(ctx: Ctx, case: dict) -> list[str]:
    probs: list[str] = []
    g = case["gate"]
    try:
        circ = build_impl(case)
        impl_res = "ok"
    except Exception as e:  # noqa: BLE001
        circ = None
        impl_res = exc_class(e)
    n_user = circ.input_modes if circ is not None else 0
    inputs, bits = case_inputs(case, n_user) if circ is not None else ([], None)
    m = ctx.model.call(model_request(case, inputs))
    if m["result"] != impl_res:
        # the constructors document which arguments they accept: a well-formed request that is
        # refused (or a malformed one that is accepted) is a failure of the property's quantifier
        wf = (g != "SWAP" or swap_wellformed(case)) and case.get("target", 0) in range(3 if g == "CCNOT" else 2)
        kind = "oracle" if (wf and impl_res != "ok") else "corr"
        probs.append(f"{kind}: constructor outcome impl={impl_res} model={m['result']}")
        return probs
    if circ is None:
        ctx.count("rejected:" + impl_res)
        return probs
    # --- structure
    her = circ.heralds
    if circ.input_modes != m["n"]:
        probs.append(f"corr: input modes impl={circ.input_modes} model={m['n']}")
    if sorted(her["input"].items()) != sorted(map(tuple, m["in_heralds"])) or \
            sorted(her["output"].items()) != sorted(map(tuple, m["out_heralds"])):
        probs.append(f"corr: heralds impl={her} model in={m['in_heralds']} out={m['out_heralds']}")
    uf = np.asarray(circ.U_full)
    um = qg.tower_matrix(m["U_full"], m["gens"])
    if uf.shape != um.shape or np.abs(uf - um).max() > TOL:
        probs.append("corr: U_full differs from the model's")
    # --- amplitudes: implementation vs model, every reported output
    amps = qg.impl_amplitudes(circ, inputs)
    if probs:
        # the structure already differs: evaluate the property itself on the implementation
        return probs + (oracle(case, amps, inputs, bits) if bits is not None else [])
    bvals = qg.basis_values(m["gens"])
    worst = 0.0
    for rec in m["amps"]:
        ins = tuple(rec["in"])
        got = amps[ins]
        seen = set()
        for o, coeffs, nsq in rec["outs"]:
            o = tuple(o)
            seen.add(o)
            want = qg.tower_value(coeffs, bvals) / math.sqrt(nsq)
            have = got.get(o)
            if have is None:
                if abs(want) > TOL:
                    probs.append(f"corr: output {o} for input {ins} not reported by the simulator, model amplitude {want}")
                continue
            worst = max(worst, abs(have - want))
        extra = [o for o in got if o not in seen and abs(got[o]) > TOL]
        if extra:
            probs.append(f"corr: simulator reports outputs the model does not enumerate: {extra[:3]}")
    if worst > TOL:
        probs.append(f"corr: heralded amplitudes differ from the model by {worst:.3e}")
    # --- the property's clauses on the implementation
    if bits is not None:
        probs += oracle(case, amps, inputs, bits)
    return probs


def oracle(case: dict, amps: dict, inputs, bits) -> list[str]:
    g = case["gate"]
    probs = []
    nb = len(bits)
    a = np.zeros((nb, nb), dtype=complex)
    leak = 0.0
    for ci, ins in enumerate(inputs):
        for o, amp in amps[tuple(ins)].items():
            if g == "SWAP":
                ob = swap_out_bits(case, o)
            else:
                ob = qg.bits_of(o) if qg.is_dual_rail(o) else None
            if ob is None:
                leak = max(leak, abs(amp))
            else:
                a[bits.index(ob), ci] = amp
    if g in FIXED_SINGLE or g in ROT:
        named = qg.named_single(g, {"theta": theta_of(case)} if g in ROT else None)
        want_sq = Fraction(1)
    else:
        named = qg.named_multi(g, case.get("target", 2 if g == "CCNOT" else 1))
        want_sq = SCALAR_SQ[g]
    k, resid = qg.fit_scalar(a, named)
    if resid > TOL:
        probs.append(f"oracle: {describe(case)}: amplitudes on the dual-rail basis are not a common scalar times "
                     f"the named gate's matrix (max residual {resid:.3e})")
    if abs(abs(k) ** 2 - float(want_sq)) > TOL:
        probs.append(f"oracle: {describe(case)}: |scalar|^2 = {abs(k) ** 2:.12f}, expected {want_sq}")
    if (g in HERALDED or g == "SWAP" or g in FIXED_SINGLE or g in ROT) and leak > TOL:
        probs.append(f"oracle: {describe(case)}: accepted output outside the qubit subspace has amplitude {leak:.3e}")
    return probs


def describe(case: dict) -> str:
    return case["gate"] + "(" + ", ".join(f"{k}={v}" for k, v in case.items() if k != "gate") + ")"


def self_test(ctx: Ctx) -> None:
    """named matrices agree with qiskit's; the comparison code detects an injected difference"""
    checked = 0
    for g in FIXED_SINGLE:
        q = qg.qiskit_named(g)
        if q is None:
            ctx.notes.append("qiskit not importable: named matrices not cross-checked")
            return
        if np.abs(q - qg.named_single(g)).max() > 1e-12:
            raise MachineryFault(f"named matrix of {g} differs from qiskit's")
        checked += 1
    for g in ROT:
        for th in (0.3, -2.1, math.pi):
            if np.abs(qg.qiskit_named(g, {"theta": th}) - qg.named_single(g, {"theta": th})).max() > 1e-12:
                raise MachineryFault(f"named matrix of {g}({th}) differs from qiskit's")
            checked += 1
    for g, ts in (("CZ", [None]), ("CNOT", [0, 1]), ("SWAP", [None]), ("CCZ", [None]), ("CCNOT", [0, 1, 2])):
        for t in ts:
            if np.abs(qg.qiskit_named(g, target=t) - qg.named_multi(g, t)).max() > 1e-12:
                raise MachineryFault(f"named matrix of {g}({t}) differs from qiskit's")
            checked += 1
    ctx.count("selftest:named_vs_qiskit", checked)
    # injected disagreement: a CZ table with one sign flipped must be flagged by the oracle
    bits = qg.bit_strings(2)
    inputs = [qg.dual_rail(b) for b in bits]
    fake = {tuple(i): {tuple(o): (1 / 3 if i == o else 0) for o in inputs} for i in inputs}
    if not oracle({"gate": "CZ"}, fake, inputs, bits):
        raise MachineryFault("self-test: the oracle accepted a CZ table without the sign flip")
    ctx.count("selftest:injected_fault_detected")



# ------------------------------------------------------------------ histories: gates constructed one after
# another in one process, and gate objects used as parts of larger circuits


def table_problems(case: dict, circ, tag: str) -> list[str]:
    """the property's clauses for `case` evaluated on the circuit object `circ` (implementation only)"""
    inputs, bits = case_inputs(case, circ.input_modes)
    if bits is None:
        return []
    try:
        amps = qg.impl_amplitudes(circ, inputs)
    except Exception as e:  # noqa: BLE001
        return [f"oracle: {describe(case)} {tag}: simulating the gate raised {exc_class(e)}"]
    return [p.replace("oracle: ", f"oracle: {tag}: ", 1) for p in oracle(case, amps, inputs, bits)]


def rot_matrix_float(g: str, th: float) -> np.ndarray:
    return qg.named_single(g, {"theta": th})


def run_near_angles(ctx: Ctx, case: dict) -> list[str]:
    """rotation gates of one kind built one after another with angles that are close (equal after
    rounding to a few decimals), equal, or 2*pi apart: each must implement ITS OWN angle, and building
    a later gate must not change an earlier one"""
    from lightworks import qubit

    g = case["gate"]
    ths = case["thetas"]
    gates = []
    probs = []
    for th in ths:
        gates.append(getattr(qubit, g)(th))
    for k, (th, gate) in enumerate(zip(ths, gates)):
        u = np.asarray(gate.U_full)
        want = rot_matrix_float(g, th)
        if u.shape != want.shape or np.abs(u - want).max() > 1e-11:  # (entries of a 2x2 rotation: exact to rounding)
            probs.append(f"oracle: {g}({th!r}) built as number {k + 1} of {len(ths)} gates with nearby angles "
                         f"{ths} does not implement its own angle (max deviation {np.abs(u - want).max():.3e})")
            break
    return probs


def gen_near_angles(rng) -> dict:
    g = rng.choice(ROT)
    base = rng.choice([0.0, 0.3, 1.0, math.pi / 2, math.pi, -2.1, 2.5, 1e-4, 0.1234, 6.0])
    r = rng.random()
    if r < 0.4:
        base = rng.uniform(-7, 7)
    elif r < 0.6:
        # angles whose sine or cosine is tiny but not zero (1e-8 and below: amplitudes that are not "noise")
        base = rng.choice([0.0, math.pi, 2 * math.pi, -math.pi, math.pi / 2]) + rng.choice([1, -1]) * rng.choice([1.5e-8, 1e-8, 4e-9, 2e-8, 3e-7])
    deltas = [rng.choice([1e-4, 3e-4, 4.9e-4, -2e-4, 1e-6, 1e-9, 5e-3, 0.0, 2 * math.pi, -2 * math.pi, 1e-2])
              for _ in range(rng.randint(1, 3))]
    ths = [base] + [base + d for d in deltas]
    if rng.random() < 0.3:
        ths.reverse()
    return {"stream": "near", "gate": g, "thetas": ths}


def make_host(n_user: int, anc_at: list[int]):
    """an identity circuit on `n_user` user modes with private ancilla modes (heralded on 0 photons)
    created by adding herald-only sub-circuits; an entry p of `anc_at` puts an ancilla between user
    modes p and p + 1"""
    import lightworks as lw

    host = lw.Circuit(n_user)
    for pos in anc_at:
        sub = lw.Circuit(3)
        sub.herald(1, 0)
        host.add(sub, pos, group=False)
    return host


def embed(state, n_user: int, at: int, width: int):
    s = [0] * n_user
    s[at:at + width] = list(state)
    return s


def run_reuse(ctx: Ctx, case: dict) -> list[str]:
    """a library gate object is added to host circuits (with private ancillas inside the span it is
    added over, grouped or not), possibly several times; afterwards (a) the gate object itself still
    implements the gate it names, (b) the host implements that gate on the modes it was added to"""
    gcase = case["gate_case"]
    try:
        gate = build_impl(gcase)
    except Exception as e:  # noqa: BLE001
        return [f"corr: reuse: constructor raised {exc_class(e)} for {gcase}"]
    width = gate.input_modes
    before = (np.array(gate.U_full), dict(gate.heralds["input"]), dict(gate.heralds["output"]), gate.n_modes)
    probs = table_problems(gcase, gate, "fresh gate")
    if probs:
        return probs
    inputs, bits = case_inputs(gcase, width)
    ref = qg.impl_amplitudes(gate, inputs)
    for use in case["uses"]:
        n_user, anc_at, at, group = use["n_user"], use["anc_at"], use["at"], use["group"]
        host = make_host(n_user, anc_at)
        try:
            host.add(gate, at, group=group)
        except Exception as e:  # noqa: BLE001
            probs.append(f"oracle: reuse: adding {describe(gcase)} at mode {at} of a {n_user}-mode host with ancillas "
                         f"before modes {anc_at} raised {exc_class(e)}")
            break
        # (b) the host acts as the gate on the modes it was added to (other user modes empty)
        try:
            h_in = [embed(s, n_user, at, width) for s in inputs]
            got = qg.impl_amplitudes(host, h_in)
        except Exception as e:  # noqa: BLE001
            probs.append(f"oracle: reuse: simulating the host after adding {describe(gcase)} raised {exc_class(e)}")
            break
        worst = 0.0
        for s, hs in zip(inputs, h_in):
            want = {tuple(embed(o, n_user, at, width)): a for o, a in ref[tuple(s)].items()}
            have = got[tuple(hs)]
            for o in set(want) | set(have):
                worst = max(worst, abs(want.get(o, 0) - have.get(o, 0)))
        if worst > TOL:
            probs.append(f"oracle: reuse: a host ({n_user} modes, ancillas after user modes {anc_at}) to which {describe(gcase)} "
                         f"was added at mode {at} (group={group}) does not implement the gate on those modes "
                         f"(amplitudes differ by {worst:.3e})")
            break
        # (a) the gate object is what it was
        try:
            after = (np.array(gate.U_full), dict(gate.heralds["input"]), dict(gate.heralds["output"]), gate.n_modes)
        except Exception as e:  # noqa: BLE001
            probs.append(f"oracle: reuse: {describe(gcase)} can no longer be compiled after it was added to another "
                         f"circuit ({exc_class(e)})")
            break
        if after[0].shape != before[0].shape or np.abs(after[0] - before[0]).max() > 1e-12 or after[1:] != before[1:]:
            probs.append(f"oracle: reuse: {describe(gcase)} changed after it was added at mode {at} of a host with "
                         f"ancillas after user modes {anc_at} (group={group})")
            break
        probs += table_problems(gcase, gate, "gate object after use")
        if probs:
            break
    if not probs:
        # copies of a library gate (plain and with frozen parameters) and the gate wrapped into an empty
        # circuit of its own size are still that gate
        import lightworks as lw

        for tag, mk in (("copy()", lambda: gate.copy()), ("copy(freeze_parameters=True)", lambda: gate.copy(freeze_parameters=True)),
                        ("Circuit(n).add(gate, 0)", lambda: _wrap(lw, gate, width))):
            try:
                g2 = mk()
            except Exception as e:  # noqa: BLE001
                probs.append(f"oracle: reuse: {tag} of {describe(gcase)} raised {exc_class(e)}")
                break
            if g2.input_modes != width:
                probs.append(f"oracle: reuse: {tag} of {describe(gcase)} has {g2.input_modes} input modes, the gate has {width}")
                break
            probs += table_problems(gcase, g2, tag)
            if probs:
                break
    return probs


def _wrap(lw, gate, width):
    c = lw.Circuit(width)
    c.add(gate, 0)
    return c


def gen_reuse(rng) -> dict:
    pool = [c for c in fixed_cases() if "target" in c or c["gate"] not in ("SWAP",)]
    gcase = dict(rng.choice(pool)) if rng.random() < 0.7 else gen_rotation(rng)
    width = {"CZ": 4, "CNOT": 4, "CZ_Heralded": 4, "CNOT_Heralded": 4, "CCZ": 6, "CCNOT": 6}.get(gcase["gate"], 2)
    uses = []
    for _ in range(rng.randint(1, 3)):
        n_user = width + rng.randint(0, 3)
        at = rng.randint(0, n_user - width)
        k = rng.randint(0, 3)
        # ancillas mostly strictly inside the span the gate is added over, sometimes outside / at the edges
        # an entry p puts an ancilla between user modes p and p + 1
        anc_at = sorted(rng.randint(at, at + width - 2) if rng.random() < 0.7
                        else rng.randint(0, n_user - 2) for _ in range(k))
        uses.append({"n_user": n_user, "anc_at": anc_at, "at": at, "group": rng.random() < 0.5})
    return {"stream": "reuse", "gate_case": gcase, "uses": uses}


HISTORY_CORPUS = [
    {"stream": "near", "gate": "Rz", "thetas": [0.3, 0.3004]},
    {"stream": "near", "gate": "P", "thetas": [1.0, 1.0 + 2 * math.pi, 1.0004]},
    {"stream": "reuse", "gate_case": {"gate": "H"}, "uses": [{"n_user": 3, "anc_at": [0], "at": 0, "group": False},
                                                             {"n_user": 2, "anc_at": [], "at": 0, "group": True}]},
    {"stream": "reuse", "gate_case": {"gate": "CNOT", "target": 0},
     "uses": [{"n_user": 5, "anc_at": [2, 3], "at": 1, "group": False}]},
]


def run_history(ctx: Ctx, case: dict) -> list[str]:
    if case["stream"] == "host":
        return run_host(ctx, case)
    return run_near_angles(ctx, case) if case["stream"] == "near" else run_reuse(ctx, case)



# ------------------------------------------------------------------ several library gates in one host


def embed_gate(nq: int, qs: list[int], g: np.ndarray) -> np.ndarray:
    """the matrix [out, in] on bit_strings(nq) of `g` (on bit_strings(len(qs))) acting on qubits `qs`"""
    basis = qg.bit_strings(nq)
    sub = qg.bit_strings(len(qs))
    full = np.zeros((len(basis), len(basis)), dtype=complex)
    for ci, b in enumerate(basis):
        bi = sub.index(tuple(b[q] for q in qs))
        for ri, o in enumerate(sub):
            if g[ri, bi] != 0:
                ob = list(b)
                for q, v in zip(qs, o):
                    ob[q] = v
                full[basis.index(tuple(ob)), ci] += g[ri, bi]
    return full


def run_host(ctx: Ctx, case: dict) -> list[str]:
    """a host circuit on nq qubits to which heralded two-qubit gates and single-qubit gates of the
    library are added in a given (not necessarily ascending) order of positions; heralded gates and
    single-qubit gates compose exactly, so the host's heralded amplitudes on the dual-rail basis must be
    (product of the per-gate scalars) x (ordered product of the named matrices), with no accepted
    output outside the qubit subspace"""
    import lightworks as lw

    nq = case["nq"]
    host = lw.Circuit(2 * nq)

    def at(step, mode: int):
        """the mode number of an add(), handed over as a numpy integer for a third of the steps (fixed per step)"""
        import zlib

        h = zlib.crc32(json.dumps(step, sort_keys=True).encode()) % 3
        return np.int64(mode) if h == 0 else mode

    def place(target, step):
        """add one step to `target`; returns (matrix on nq qubits, |scalar|^2)"""
        from lightworks import qubit

        if "sub" in step:
            # a building block of the host's width holding SEVERAL gates (heralded ones in any order of positions),
            # added to the host in one call
            block = lw.Circuit(2 * nq)
            m_tot, sq_tot = np.eye(2 ** nq, dtype=complex), Fraction(1)
            for inner in step["sub"]:
                m, sq = place(block, inner)
                m_tot, sq_tot = m @ m_tot, sq_tot * sq
            target.add(block, 0, group=step["group"])
            return m_tot, sq_tot
        if "bad_add" in step:
            # an add() the host refuses (the gate does not fit at that qubit), caught by the client, who carries on:
            # a refused call leaves the host as it was
            gate = build_impl(step["bad_add"])
            try:
                target.add(gate, 2 * step["q"], group=step["group"])
            except Exception:  # noqa: BLE001
                pass
            return np.eye(2 ** nq, dtype=complex), Fraction(1)
        if "swap" in step:
            a, b = step["swap"]
            target.add(qubit.SWAP((2 * a, 2 * a + 1), (2 * b, 2 * b + 1)), 0, group=step["group"])
            perm = np.zeros((2 ** nq, 2 ** nq), dtype=complex)
            for x in range(2 ** nq):
                bits_x = [(x >> (nq - 1 - k)) & 1 for k in range(nq)]
                bits_x[a], bits_x[b] = bits_x[b], bits_x[a]
                perm[sum(bt << (nq - 1 - k) for k, bt in enumerate(bits_x)), x] = 1
            return perm, Fraction(1)
        gcase = step["gate_case"]
        q = step["q"]
        gate = build_impl(gcase)
        blk = step.get("block")
        if blk:
            # the gate is first put into a building block (at local qubit `pad`, grouped or not) and the block
            # is then placed in the host at an offset, grouped or not
            pad, width_q, g_inner = blk
            block = lw.Circuit(2 * width_q)
            block.add(gate, 2 * pad, group=g_inner)
            target.add(block, at(step, 2 * (q - pad)), group=step["group"])
        else:
            target.add(gate, at(step, 2 * q), group=step["group"])
        g = gcase["gate"]
        if g in FIXED_SINGLE or g in ROT:
            return embed_gate(nq, [q], qg.named_single(g, {"theta": theta_of(gcase)} if g in ROT else None)), Fraction(1)
        return embed_gate(nq, [q, q + 1], qg.named_multi(g, gcase.get("target", 1))), SCALAR_SQ[g]

    want = np.eye(2 ** nq, dtype=complex)
    want_sq = Fraction(1)
    for step in case["gates"]:
        try:
            m, sq = place(host, step)
        except Exception as e:  # noqa: BLE001
            return [f"oracle: host: adding step {json.dumps(step)[:160]} raised {exc_class(e)} (program {case['gates']})"]
        want = m @ want
        want_sq *= sq
    for rw in case.get("rewrites", []):
        # the circuit's own tidy-up methods must leave the gates it implements alone
        try:
            getattr(host, rw)()
        except Exception as e:  # noqa: BLE001
            return [f"oracle: host: {rw}() raised {exc_class(e)} (program {case['gates']})"]
    bits = qg.bit_strings(nq)
    inputs = [qg.dual_rail(b) for b in bits]
    try:
        amps = qg.impl_amplitudes(host, inputs)
    except Exception as e:  # noqa: BLE001
        return [f"oracle: host: simulating the host raised {exc_class(e)} (program {case['gates']})"]
    a = np.zeros((len(bits), len(bits)), dtype=complex)
    leak = 0.0
    for ci, ins in enumerate(inputs):
        for o, amp in amps[tuple(ins)].items():
            if qg.is_dual_rail(o):
                a[bits.index(qg.bits_of(o)), ci] = amp
            else:
                leak = max(leak, abs(amp))
    k, resid = qg.fit_scalar(a, want)
    probs = []
    prog = [(describe(st["gate_case"]), st["q"], st["group"]) if "gate_case" in st else st for st in case["gates"]]
    if case.get("rewrites"):
        prog.append(("then", case["rewrites"]))
    if resid > TOL:
        probs.append(f"oracle: host: {nq}-qubit host built by {prog}: amplitudes on the dual-rail basis are not a "
                     f"common scalar times the ordered product of the named gates (max residual {resid:.3e})")
    if abs(abs(k) ** 2 - float(want_sq)) > TOL:
        probs.append(f"oracle: host: {prog}: |scalar|^2 = {abs(k) ** 2:.12f}, expected {want_sq}")
    flat = [x for st in case["gates"] for x in (st["sub"] if "sub" in st else [st]) if "bad_add" not in x]
    has_ps = any(st.get("gate_case", {}).get("gate") in ("CZ", "CNOT") for st in flat)
    if leak > TOL and not has_ps:
        probs.append(f"oracle: host: {prog}: accepted output outside the qubit subspace has amplitude {leak:.3e}")
    return probs


def gen_host(rng) -> dict:
    nq = rng.choice([2, 3, 3, 4])
    n_two = rng.randint(1, 3)
    gates = []
    singles = [{"gate": g} for g in FIXED_SINGLE]
    for _ in range(rng.randint(2, 6)):
        if n_two and rng.random() < 0.6:
            n_two -= 1
            g = rng.choice(["CZ_Heralded", "CNOT_Heralded", "CNOT_Heralded"])
            gc = {"gate": g} if g == "CZ_Heralded" else {"gate": g, "target": rng.randint(0, 1)}
            gates.append({"gate_case": gc, "q": rng.randint(0, nq - 2), "group": rng.random() < 0.6})
        else:
            gc = dict(rng.choice(singles)) if rng.random() < 0.6 else gen_rotation(rng)
            gates.append({"gate_case": gc, "q": rng.randint(0, nq - 1), "group": rng.random() < 0.5})
    # some gates travel inside a building block that is placed at an offset
    for st in gates:
        if rng.random() < 0.35:
            gq = 1 if st["gate_case"]["gate"] in FIXED_SINGLE or st["gate_case"]["gate"] in ROT else 2
            pad = rng.randint(0, min(1, st["q"]))
            trail = rng.randint(0, min(1, nq - (st["q"] + gq)))
            st["block"] = [pad, pad + gq + trail, rng.random() < 0.6]
    # at most ONE post-selected gate (two of them sharing a qubit do not compose to a product of gates): it is
    # exact on the dual-rail subspace, its other accepted outputs are excluded by its own rules, not by heralds
    if rng.random() < 0.5:
        g = rng.choice(["CZ", "CNOT"])
        gc = {"gate": g} if g == "CZ" else {"gate": g, "target": rng.randint(0, 1)}
        gates.insert(rng.randint(0, len(gates)), {"gate_case": gc, "q": rng.randint(0, nq - 2), "group": rng.random() < 0.6})
    # a gate on the highest qubit last: it sits above every ancilla created before
    gates.append({"gate_case": gen_rotation(rng), "q": nq - 1, "group": rng.random() < 0.5})
    # refused additions (a two-qubit gate on the last qubit / any gate beyond it) between the accepted ones
    for _ in range(rng.choice([0, 0, 1, 1, 2])):
        g = rng.choice(["CZ_Heralded", "CNOT_Heralded", "CNOT", "CZ", "H"])
        gc = {"gate": g} if g in ("CZ_Heralded", "CZ", "H") else {"gate": g, "target": rng.randint(0, 1)}
        q = nq if g == "H" else rng.choice([nq - 1, nq])
        gates.insert(rng.randint(1, len(gates)), {"bad_add": gc, "q": q, "group": rng.random() < 0.5})
    # qubit SWAPs around the gates
    for _ in range(rng.choice([0, 0, 1, 2])):
        a, b = rng.sample(range(nq), 2)
        gates.insert(rng.randint(0, len(gates)), {"swap": [a, b], "group": rng.random() < 0.5})
    # a run of consecutive steps travels inside ONE building block (so that one add() carries several heralded gates,
    # whose ancillas were created in any order of positions)
    if len(gates) >= 3 and rng.random() < 0.45:
        i = rng.randint(0, len(gates) - 2)
        j = rng.randint(i + 2, min(len(gates), i + 4))
        gates[i:j] = [{"sub": gates[i:j], "group": rng.random() < 0.5}]
    case = {"stream": "host", "nq": nq, "gates": gates}
    if rng.random() < 0.5:
        case["rewrites"] = rng.sample(["compress_mode_swaps", "unpack_groups", "remove_non_adjacent_bs"], rng.randint(1, 3))
    return case


HOST_CORPUS = [
    # a refused addition between two accepted ones, on a host that already owns ancillas
    {"stream": "host", "nq": 2, "gates": [
        {"gate_case": {"gate": "CZ_Heralded"}, "q": 0, "group": True},
        {"bad_add": {"gate": "CNOT", "target": 1}, "q": 1, "group": True},
        {"gate_case": {"gate": "CNOT", "target": 1}, "q": 0, "group": True}]},
    {"stream": "host", "nq": 3, "gates": [
        {"gate_case": {"gate": "CNOT_Heralded", "target": 0}, "q": 1, "group": True},
        {"bad_add": {"gate": "CZ_Heralded"}, "q": 2, "group": False},
        {"bad_add": {"gate": "H"}, "q": 3, "group": False},
        {"gate_case": {"gate": "CZ_Heralded"}, "q": 0, "group": True},
        {"gate_case": {"gate": "H"}, "q": 2, "group": False}]},
    # a block holding two heralded gates created upper gate first, added to a host that already holds a heralded gate
    {"stream": "host", "nq": 4, "gates": [
        {"gate_case": {"gate": "CZ_Heralded"}, "q": 2, "group": True},
        {"sub": [{"gate_case": {"gate": "CZ_Heralded"}, "q": 1, "group": True},
                 {"gate_case": {"gate": "CNOT_Heralded", "target": 1}, "q": 0, "group": True}], "group": False},
        {"gate_case": {"gate": "H"}, "q": 3, "group": False}]},
    {"stream": "host", "nq": 4, "gates": [
        {"gate_case": {"gate": "CNOT_Heralded", "target": 0}, "q": 1, "group": True},
        {"sub": [{"gate_case": {"gate": "CNOT_Heralded", "target": 1}, "q": 2, "group": True},
                 {"gate_case": {"gate": "CZ_Heralded"}, "q": 0, "group": True}], "group": True},
        {"gate_case": {"gate": "T"}, "q": 3, "group": False}]},
    # SWAP - heralded gate - SWAP, then the tidy-up methods
    {"stream": "host", "nq": 3, "gates": [
        {"swap": [1, 2], "group": False},
        {"gate_case": {"gate": "CZ_Heralded"}, "q": 0, "group": True},
        {"swap": [1, 2], "group": False}], "rewrites": ["compress_mode_swaps"]},
    {"stream": "host", "nq": 3, "gates": [
        {"swap": [1, 2], "group": False},
        {"gate_case": {"gate": "CNOT_Heralded", "target": 0}, "q": 0, "group": True},
        {"swap": [1, 2], "group": False},
        {"gate_case": {"gate": "H"}, "q": 2, "group": False}], "rewrites": ["compress_mode_swaps", "unpack_groups"]},
    # gates inside grouped building blocks placed at an offset, ungrouped and grouped
    {"stream": "host", "nq": 3, "gates": [
        {"gate_case": {"gate": "H"}, "q": 1, "group": False, "block": [1, 2, True]},
        {"gate_case": {"gate": "Ry", "re": "3/5", "im": "4/5"}, "q": 2, "group": False, "block": [1, 2, True]},
        {"gate_case": {"gate": "S"}, "q": 2, "group": True, "block": [0, 1, True]},
        {"gate_case": {"gate": "X"}, "q": 0, "group": False}]},
    # many ancillas between the two qubits of the gate added last
    {"stream": "host", "nq": 4, "gates": [
        {"gate_case": {"gate": "CZ_Heralded"}, "q": 0, "group": True},
        {"gate_case": {"gate": "CZ_Heralded"}, "q": 2, "group": True},
        {"gate_case": {"gate": "CZ"}, "q": 1, "group": True},
        {"gate_case": {"gate": "H"}, "q": 3, "group": False}]},
    {"stream": "host", "nq": 3, "gates": [
        {"gate_case": {"gate": "CNOT_Heralded", "target": 0}, "q": 0, "group": True},
        {"gate_case": {"gate": "CZ_Heralded"}, "q": 0, "group": False},
        {"gate_case": {"gate": "CNOT", "target": 1}, "q": 1, "group": True},
        {"gate_case": {"gate": "T"}, "q": 2, "group": False}]},
    # heralded gates placed out of ascending order (0-1, 1-2, 0-1 again), then gates on higher qubits
    {"stream": "host", "nq": 4, "gates": [
        {"gate_case": {"gate": "CNOT_Heralded", "target": 1}, "q": 0, "group": True},
        {"gate_case": {"gate": "CNOT_Heralded", "target": 1}, "q": 1, "group": True},
        {"gate_case": {"gate": "CNOT_Heralded", "target": 0}, "q": 0, "group": True},
        {"gate_case": {"gate": "H"}, "q": 2, "group": False},
        {"gate_case": {"gate": "Ry", "re": "3/5", "im": "4/5"}, "q": 3, "group": False}]},
    {"stream": "host", "nq": 3, "gates": [
        {"gate_case": {"gate": "CZ_Heralded"}, "q": 1, "group": False},
        {"gate_case": {"gate": "CZ_Heralded"}, "q": 0, "group": True},
        {"gate_case": {"gate": "SX"}, "q": 1, "group": True},
        {"gate_case": {"gate": "Y"}, "q": 2, "group": False}]},
]


# ------------------------------------------------------------------ entry points


def report(ctx: Ctx, case: dict, probs: list[str]) -> None:
    orc = [p for p in probs if p.startswith("oracle")]
    if orc:
        ctx.violation(orc[0], {"case": case, "problems": probs}, sig={"kind": "table", "gate": case["gate"]})
    else:
        ctx.disagreement(probs[0], {"case": case, "problems": probs})


def run(ctx: Ctx) -> None:
    ctx.rule = ("every fixed gate of the library with every target option (27 cases, all run each time) + random "
                "rotation gates at rational circle points in all quadrants + SWAP on random mode pairs + ~15% "
                "malformed constructor calls; non-trivial = gate constructed and its full amplitude table "
                "(all basis inputs x all accepted outputs) compared; distinct = distinct (gate, options)")
    self_test(ctx)
    rng = ctx.rng
    cases = fixed_cases()
    n_rand = ctx.n(60, 1500)
    for _ in range(n_rand):
        r = rng.random()
        if r < 0.15:
            c = gen_malformed(rng)
            c["_malformed"] = True
            cases.append(c)
        elif r < 0.65:
            cases.append(gen_rotation(rng))
        else:
            cases.append(gen_swap(rng, ctx.n(6, 8)))
    for i, case in enumerate(cases):
        if ctx.out_of_time():
            break
        mal = case.pop("_malformed", False)
        probs = run_case(ctx, case)
        ctx.count("gate:" + case["gate"])
        if mal:
            ctx.count("malformed_stream")
        if "target" in case:
            ctx.count(f"target:{case['gate']}:{case['target']}")
        ctx.case(json.dumps(case, sort_keys=True), not mal, sample=case if i in (11, 16, 27) else None)
        if probs:
            ctx.count("cases_with_problems")
            report(ctx, case, probs)

    hist = list(HISTORY_CORPUS) + list(HOST_CORPUS)
    for _ in range(ctx.n(40, 600)):
        hist.append(gen_near_angles(rng) if rng.random() < 0.4 else gen_reuse(rng))
    for _ in range(ctx.n(12, 200)):
        hist.append(gen_host(rng))
    for case in hist:
        if ctx.out_of_time():
            break
        probs = run_history(ctx, case)
        ctx.count("history:" + case["stream"])
        if case["stream"] == "reuse":
            ctx.count("history:reuse:gate=" + case["gate_case"]["gate"])
            w = 2 if case["gate_case"]["gate"] in FIXED_SINGLE or case["gate_case"]["gate"] in ROT else \
                (6 if case["gate_case"]["gate"].startswith("CC") else 4)
            if any(any(u["at"] <= a <= u["at"] + w - 2 for a in u["anc_at"]) for u in case["uses"]):
                ctx.count("history:reuse:ancilla-inside-span")
        ctx.case(json.dumps(case, sort_keys=True), True)
        if probs:
            ctx.count("cases_with_problems")
            ctx.violation(probs[0], {"case": case, "problems": probs},
                          sig={"kind": "history", "stream": case["stream"]})


def replay(ctx: Ctx, path: str) -> None:
    _data = json.load(open(path))
    if _data["replay"].get("case", {}).get("stream") in ("near", "reuse", "host"):
        probs = run_history(ctx, _data["replay"]["case"])
        ctx.case("replay", True, sample=_data["replay"]["case"])
        for p in probs:
            print("replay:", p)
            ctx.violation(p, _data["replay"], sig={"kind": "replay"})
        return
    data = json.load(open(path))
    case = data["replay"]["case"]
    probs = run_case(ctx, case)
    ctx.case("replay", True, sample=case)
    for p in probs:
        print("replay:", p)
    if probs:
        report(ctx, case, probs)
