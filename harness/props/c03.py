"""
C03 — simulator amplitudes are the bosonic Fock-space amplitudes of the circuit.

Model: LW.Model.Fock (fockBasis, partitionIdx, permRC, addHeralds, simulate).  For generated
circuits (heralds with in != out and 0-3 photons, loss, groups) and generated REQUESTS the
implementation's Simulator is compared with the model (amplitudes, order of the input/output lists,
exception class) and with the property's own clauses evaluated on the implementation (oracle):

  * a request is a pair of ARGUMENT SHAPES as the public `Simulator.simulate(inputs, outputs)` accepts
    them — one bare State / a list / a tuple for the inputs, None / one bare State / a list / a tuple
    for the outputs, lists with repeated equal States (the same object or equal-but-distinct objects,
    also shared between the input and the output side), empty lists — crossed with valid states and
    one INVALID state of every kind (too short, too long with empty extra modes, a photon in an extra
    mode, full length including the herald modes / the loss modes, wrong photon number, negative /
    bool / float occupations; wherever possible with the SAME total photon number as the valid states
    so that only the validation of that one state can reject it) in every position (first, middle,
    last; input side and output side);
  * oracle: the request is rejected exactly when a state is invalid (decided by an independent
    predicate on the plain occupation lists; the exception CLASS is compared with the model),
    otherwise the array has one row per input and one column per output in the order given, entry
    (i, j) and result[in, out] equal perm(U_full[out|in]) / sqrt(prod factorials) evaluated
    independently on the implementation's own U_full, plus the unit-vector clause for lossless
    herald-free circuits.

The model takes lists only; a bare State is sent to it as the one-element list (the documented
meaning of that shape).  Tuples are not a documented shape: for them the implementation may also
answer TypeError, but must never compute an invalid request and never return a wrong amplitude.

Histories are part of a case: one Simulator first serves the recorded requests on OTHER circuits
(its circuit is reassigned) and / or the valid form of the same request, then the request under test.

A directed corpus (fixed circuits: lossless, lossy, heralded with 0/1/2/3 photons and in != out
modes, with and without loss) runs first and crosses every shape with every kind of invalid state
in every position; the randomised stream follows.

SESSIONS (third stream; directed corpus first, then random): a list of steps on one set of LIVE objects -
circuits, lightworks Parameters, one or two long-lived Simulators:
  * RETAINED RESULTS: every SimulationResult handed out stays on the books (class Retained: the very
    object, a deep copy of its .array / inputs / outputs, the Fock formula evaluated independently on the
    U_full it was computed for) and is re-checked after EVERY later step - calls of the same Simulator and
    of other Simulators (a second long-lived one on the same circuit / a copy / another circuit, and a
    fresh one per call) with the same shape and other states, the same shape on another circuit, another
    shape (smaller and larger), rejected calls, edits of the circuit: unchanged, still equal to the
    formula, result[in, out] / result[in][out] / result[in, None][out] coherent with .array, no memory
    shared between the arrays of different calls, the client's argument objects (lists, States) unmodified;
  * HISTORIES: the circuit a Simulator holds is edited IN PLACE between (and before the first of) its
    simulate() calls - herald added (the states get shorter; requests of the old length must now be
    rejected), second herald, heralded / lossy sub-circuit added, components appended, loss added
    (U_full grows), Parameter.set, `sim.circuit` re-assigned to the same object / a copy / another circuit
    and back; the Simulator is created at a random point of the construction of a generated circuit
    (often right after Circuit(n)).  Every call is judged on the circuit AS IT IS at the time of the
    call: rejection clause, Fock formula on the circuit's own current U_full and heralds, a fresh
    Simulator on the same circuit, and the model run on the program that builds the current circuit
    (a parametrised phase shifter enters that program with the Parameter's current value).
"""

from __future__ import annotations

import copy
import json
import math
import random
from fractions import Fraction

import numpy as np

import circgen as cg
import fockgen as fg
import lightworks as lw
from core import CIRCLE, GQ, PYTH, Ctx, ddmin, exc_class
from lightworks import emulator

TRUSTED = [
    "Lean 4.33 kernel; axioms subset of {propext, Classical.choice, Quot.sound} (audited on every run)",
    "hand-written model LW.Model.Fock tied to the code by this correspondence check",
    "thewalrus.perm computes the permanent (cross-checked against the model's exact permanent on every case)",
    "float sqrt/factorial normalisation up to rounding (1e-9)",
]
ASSUMPTIONS = ["circuits <= 5 user modes per level, total modes <= 10, <= 4 photons in the correspondence check",
               "sessions: <= 2 long-lived Simulators plus one fresh Simulator per call, <= 12 calls, U_full <= 12 modes; "
               "the client never writes into a returned array"]

KINDS = ["short", "long0", "longp", "full", "fullloss", "more", "fewer", "neg", "neg_keep",
         "bool", "bool_all", "float", "float_int", "float_pair"]


def to_state(s):
    return lw.State(list(s))


# --------------------------------------------------------------------------- requests


def is_int(x) -> bool:
    return isinstance(x, int) and not isinstance(x, bool)


def photons_of(s) -> int:
    return sum(x for x in s if is_int(x))


def corrupt(rng, kind: str, side: str, c, nph: int):
    """one invalid state of the given kind for circuit c (None when the kind does not apply);
    kinds keep the total photon number equal to nph whenever that is possible, so that the only
    thing that can reject the request is the validation of this state"""
    im = c.input_modes
    nloss = np.array(c.U_full).shape[0] - c.n_modes
    her = c.heralds["input" if side == "in" else "output"]
    if rng.random() < 0.3:  # the herald layout of the OTHER side (in != out modes)
        her = c.heralds["output" if side == "in" else "input"]
    base = fg.rand_state(rng, im, nph)
    if kind == "short":
        return fg.rand_state(rng, im - 1, nph) if im >= 2 else []
    if kind == "long0":
        return base + [0] * rng.choice([1, 1, 2])
    if kind == "longp":
        if nph == 0:
            return base + [1]
        return fg.rand_state(rng, im, nph - 1) + rng.choice([[1], [1], [0, 1]])
    if kind == "full":
        return fg.add_heralds(base, her) if her else None
    if kind == "fullloss":
        return fg.add_heralds(base, her) + [0] * nloss if nloss else None
    if kind == "more":
        return fg.rand_state(rng, im, nph + 1)
    if kind == "fewer":
        return fg.rand_state(rng, im, nph - 1) if nph >= 1 else None
    if kind == "neg":
        base[rng.randrange(im)] = -rng.choice([1, 1, 2])
        return base
    if kind == "neg_keep":  # total photon number unchanged
        if im < 2:
            return None
        a, b = rng.sample(range(im), 2)
        base = fg.rand_state(rng, im, nph)
        base[b] += base[a] + 1
        base[a] = -1
        return base
    if kind == "bool":  # bool(0)/bool(1) keep the photon number
        a = rng.randrange(im)
        cand = [k for k in range(im) if base[k] <= 1]
        if cand and rng.random() < 0.8:
            a = rng.choice(cand)
            base[a] = bool(base[a])
        else:
            base[a] = True
        return base
    if kind == "bool_all":
        if nph > im:
            return None
        on = set(rng.sample(range(im), nph))
        return [k in on for k in range(im)]
    if kind == "float":
        base[rng.randrange(im)] = rng.choice([0.5, 1.5, -0.5, float("nan")])
        return base
    if kind == "float_int":  # integral float: same value, wrong type
        a = rng.randrange(im)
        base[a] = float(base[a])
        return base
    if kind == "float_pair":  # two halves: the total is still nph
        if im < 2 or nph < 1:
            return None
        base = fg.rand_state(rng, im, nph - 1)
        a, b = rng.sample(range(im), 2)
        base[a] += 0.5
        base[b] += 0.5
        return base
    raise AssertionError(kind)


class Ids:
    def __init__(self, start: int = 0) -> None:
        self.k = start

    def __call__(self) -> int:
        self.k += 1
        return self.k


def add_duplicates(rng, states: list, ids: list, fresh: Ids, times: int) -> None:
    """repeat equal States inside one list: the same object (same id) or an equal new object"""
    for _ in range(times):
        if not states:
            return
        p = rng.randrange(len(states))
        q = rng.randint(0, len(states))
        st, oid = list(states[p]), (ids[p] if rng.random() < 0.5 else fresh())
        states.insert(q, st)
        ids.insert(q, oid)


def gen_request(ctx: Ctx, rng, c, nph: int, fresh: Ids | None = None, p_bad: float = 0.3) -> dict:
    im = c.input_modes
    fresh = fresh or Ids()
    n_in = rng.choice([1, 1, 1, 2, 3, 3])
    inputs = [fg.rand_state(rng, im, nph) for _ in range(n_in)]
    in_ids = [fresh() for _ in inputs]
    in_shape = "list"
    if n_in == 1 and rng.random() < 0.5:
        in_shape = "single"
    elif rng.random() < 0.12:
        in_shape = "tuple"
    out_shape = rng.choice(["none", "none", "none", "list", "list", "list", "single", "single", "tuple"])
    outputs = out_ids = None
    if out_shape != "none":
        n_out = 1 if out_shape == "single" else rng.randint(1, 4)
        outputs = [fg.rand_state(rng, im, nph) for _ in range(n_out)]
        out_ids = [fresh() for _ in outputs]
    # repeated equal states (same object / equal object), also across the two sides
    if in_shape != "single" and rng.random() < 0.3:
        add_duplicates(rng, inputs, in_ids, fresh, rng.choice([1, 1, 2]))
    if outputs is not None and out_shape != "single":
        if rng.random() < 0.4:
            add_duplicates(rng, outputs, out_ids, fresh, rng.choice([1, 1, 2]))
        if rng.random() < 0.2:
            p = rng.randrange(len(inputs))
            q = rng.randint(0, len(outputs))
            outputs.insert(q, list(inputs[p]))
            out_ids.insert(q, in_ids[p] if rng.random() < 0.6 else fresh())
    # empty lists
    r = rng.random()
    if r < 0.03 and in_shape == "list":
        inputs, in_ids = [], []
    elif r < 0.06 and out_shape == "list":
        outputs, out_ids = [], []
    case = {"inputs": inputs, "outputs": outputs, "in_shape": in_shape, "out_shape": out_shape,
            "in_ids": in_ids, "out_ids": out_ids, "bad": None}
    # one invalid state
    if rng.random() < p_bad:
        side = rng.choice(["in", "out", "out"])
        kind = rng.choice(KINDS)
        st = corrupt(rng, kind, side, c, nph)
        if st is not None:
            place(rng, case, side, st, fresh, rng.choice(["first", "middle", "last", "only"]), im, nph)
            case["bad"] = f"{side}:{kind}"
    # history: the valid form of the same request goes through the same Simulator first
    if rng.random() < 0.15:
        case["warm"] = True
    return case


def place(rng, case: dict, side: str, st: list, fresh: Ids, where: str, im: int, nph: int) -> None:
    """put the invalid state st into the request (replacing a valid one)"""
    if side == "out" and case["outputs"] is None:
        case["outputs"], case["out_ids"] = [fg.rand_state(rng, im, nph)], [fresh()]
        case["out_shape"] = rng.choice(["single", "single", "list", "list", "tuple"])
    key, ikey, skey = ("inputs", "in_ids", "in_shape") if side == "in" else ("outputs", "out_ids", "out_shape")
    lst, ids = case[key], case[ikey]
    if where == "only" or not lst:
        lst[:], ids[:] = [st], [fresh()]
        return
    if case[skey] != "single" and where == "middle":
        while len(lst) < 3:
            lst.append(fg.rand_state(rng, im, nph))
            ids.append(fresh())
    p = {"first": 0, "last": len(lst) - 1}.get(where, len(lst) // 2)
    lst[p], ids[p] = st, fresh()


def bump_heralds(rng, prog: list) -> list:
    """the tree generator declares heralds with 0-2 photons; raise one of them to 2 or 3"""
    hs = [k for k, op in enumerate(prog) if op[0] == "herald"]
    if not hs or rng.random() >= 0.25:
        return prog
    prog = copy.deepcopy(prog)
    prog[rng.choice(hs)][2] = rng.choice([2, 3, 3])
    return prog


def gen_case(ctx: Ctx, rng) -> dict:
    prog = bump_heralds(rng, fg.gen_circuit(ctx, rng, max_depth=2))
    pool = fg.build_impl(prog)
    c = pool["c1"]
    nph = rng.choice([0, 1, 1, 2, 2, 2, 3, 3, 4] if ctx.thorough else [0, 1, 1, 2, 2, 3])
    # the model's permanent is the n!-term expansion: bound user + herald photons
    cap = 6 if ctx.thorough else 5
    nph = max(0, min(nph, cap - 1 - fg.herald_photons(c)))
    if fg.herald_photons(c) > cap - 1:
        return None
    if c.input_modes == 0:
        return {"prog": prog, "inputs": [[]], "outputs": None, "bad": None}
    case = gen_request(ctx, rng, c, nph)
    case = {"prog": prog, **case}
    # half of the cases go through ONE Simulator that already served the previous one or two requests
    # on OTHER circuits (the circuit is reassigned), so that anything memoised per Simulator / per
    # State across circuits shows up; the history is part of the case, so a replay is self-contained
    recent = ctx.__dict__.setdefault("_recent", [])
    if recent and rng.random() < 0.5:
        case["history"] = recent[-rng.choice([1, 1, 2]):]
    recent.append(request_only(case))
    del recent[:-2]
    return case


REQ_KEYS = ("prog", "inputs", "outputs", "in_shape", "out_shape", "in_ids", "out_ids")


def request_only(case: dict) -> dict:
    return {k: case[k] for k in REQ_KEYS if k in case}


def occ_json(s):
    return [x if is_int(x) else ("b" if isinstance(x, bool) else "f") for x in s]


# --------------------------------------------------------------------------- directed corpus


def corpus_circuits() -> list[tuple[str, list]]:
    F = Fraction
    out = []

    def body(n, lossy):
        ops = [["new", "c1", n],
               cg.op_bs("c1", 0, 1, F(3, 5), F(4, 5), "Rx", (F(12, 13), F(5, 13)) if lossy else None),
               cg.op_bs("c1", 1, 2, F(5, 13), F(12, 13), "H"),
               cg.op_bs("c1", 0, 2, F(8, 17), F(15, 17), "Rx")]
        if n > 3:
            ops.append(cg.op_bs("c1", 2, 3, F(4, 5), F(3, 5), "H", (F(4, 5), F(3, 5)) if lossy else None))
            ops.append(cg.op_bs("c1", 1, 3, F(15, 17), F(8, 17), "Rx"))
        if lossy:
            ops.append(cg.op_loss("c1", 0, F(15, 17), F(8, 17)))
        ops.append(cg.op_bs("c1", 0, 1, F(5, 13), F(12, 13), "Rx"))
        return ops

    out.append(("lossless", body(3, False)))
    out.append(("lossy", body(3, True)))
    for k, lossy, (hi, ho) in [(0, False, (1, 2)), (1, True, (3, 0)), (2, True, (0, 2)), (3, False, (2, 1)), (2, False, (1, 1))]:
        out.append((f"herald{k}{'_lossy' if lossy else ''}", body(4, lossy) + [["herald", "c1", k, hi, ho]]))
    # two heralds (0 and 1 photons) around the user modes
    out.append(("herald0+1_lossy", body(4, True) + [["herald", "c1", 0, 0, 3], ["herald", "c1", 1, 2, 0]]))
    return out


def corpus(ctx: Ctx):
    """every shape x every kind of invalid state x every position, plus the valid shapes with repeated
    states, on the fixed circuits; the structure is fixed, the seed only picks the occupations"""
    rng = random.Random(f"C03-corpus-{ctx.seed}")
    n = 0
    for name, prog in corpus_circuits():
        pool = fg.build_impl(prog)
        c = pool["c1"]
        im = c.input_modes
        nph = max(0, min(2, 4 - fg.herald_photons(c)))
        fresh = Ids(100)

        def valid(k):
            return [fg.rand_state(rng, im, nph) for _ in range(k)]

        def mk(inputs, in_shape, outputs, out_shape, bad=None, in_ids=None, out_ids=None, warm=False):
            return {"prog": prog, "inputs": inputs, "outputs": outputs, "in_shape": in_shape,
                    "out_shape": out_shape, "in_ids": in_ids or [fresh() for _ in inputs],
                    "out_ids": None if outputs is None else (out_ids or [fresh() for _ in outputs]),
                    "bad": bad, "corpus": name, **({"warm": True} if warm else {})}

        # ---- valid requests: all shapes, repeated states
        a, b, d = valid(3)
        x, y, z = valid(3)
        in_forms = [([a], "single", None), ([a], "list", None), ([a, b, d], "list", None),
                    ([a, b, a], "list", [1, 2, 1]), ([a, a, b], "list", [1, 3, 2]), ([a, b], "tuple", None),
                    ([], "list", None)]
        out_forms = [(None, "none", None), ([x], "single", None), ([x], "list", None), ([x, y, z], "list", None),
                     ([x, y, x, z], "list", [11, 12, 11, 13]), ([x, x, y], "list", [11, 14, 12]),
                     ([a, x, a], "list", [1, 11, 1]), ([x, y], "tuple", None), ([], "list", None)]
        for fi in in_forms:
            for fo in out_forms:
                yield mk(list(map(list, fi[0])), fi[1], None if fo[0] is None else list(map(list, fo[0])), fo[1],
                         in_ids=fi[2], out_ids=fo[2])
        # ---- photon-number sweep (vacuum, one photon, all the budget bunched in one mode)
        top = max(0, 4 - fg.herald_photons(c))
        for k in sorted({0, 1, top}):
            if k > top:
                continue
            v = [fg.rand_state(rng, im, k), [k] + [0] * (im - 1), [0] * (im - 1) + [k]]
            yield mk([v[0]], "single", None, "none")
            yield mk([v[1], v[2]], "list", [v[2], v[0], v[1]], "list")
            yield mk([v[2]], "list", [v[1]], "single")
        # ---- one invalid state
        for kind in KINDS:
            for side in ("out", "in"):
                arrangements = [("single", 0, 1), ("list", 0, 1), ("list", 0, 3), ("list", 1, 3), ("list", 2, 3),
                                ("tuple", 1, 2)]
                for shape, pos, ln in arrangements:
                    n += 1
                    st = corrupt(rng, kind, side, c, nph)
                    if st is None:
                        ctx.count(f"corpus:not_applicable:{kind}")
                        continue
                    lst = valid(ln)
                    lst[pos] = st
                    other_n = 1 + (n % 2) * 2
                    if side == "out":
                        yield mk(valid(other_n), "single" if other_n == 1 and n % 4 < 2 else "list", lst, shape,
                                 bad=f"out:{kind}", warm=(n % 5 == 0))
                    else:
                        oshape = ["none", "single", "list"][n % 3]
                        outs = None if oshape == "none" else valid(1 if oshape == "single" else 2)
                        yield mk(lst, shape, outs, oshape, bad=f"in:{kind}", warm=(n % 5 == 0))


def corpus_histories(ctx: Ctx):
    """use -> change the circuit the Simulator works on -> use again: the SAME request (same State
    objects) on two circuits with the same number of user modes but different herald layout / loss"""
    rng = random.Random(f"C03-corpus-hist-{ctx.seed}")
    circs = [(name, prog, fg.build_impl(prog)["c1"]) for name, prog in corpus_circuits()]
    for na, pa, ca in circs:
        for nb, pb, cb in circs:
            if na == nb or ca.input_modes != cb.input_modes:
                continue
            im = ca.input_modes
            nph = max(0, min(2, 4 - max(fg.herald_photons(ca), fg.herald_photons(cb))))
            ins = [fg.rand_state(rng, im, nph) for _ in range(2)]
            for form in range(3):
                outs = [None, [fg.rand_state(rng, im, nph)], [fg.rand_state(rng, im, nph) for _ in range(3)]][form]
                req = {"inputs": ins if form else ins[:1], "outputs": outs,
                       "in_shape": "list" if form else "single", "out_shape": ["none", "single", "list"][form],
                       "in_ids": [1, 2] if form else [1], "out_ids": None if outs is None else [11, 12, 13][:len(outs)]}
                yield {"prog": pb, **req, "bad": None, "corpus": f"{na}->{nb}", "history": [{"prog": pa, **req}]}


# --------------------------------------------------------------------------- one case


def request_validity(im: int, ins: list, outs) -> str:
    """the property's rejection clause on the plain occupation lists (independent of the model)"""
    for side, lst in (("input", ins), ("output", outs or [])):
        for k, s in enumerate(lst):
            if len(s) != im:
                return f"invalid: {side}[{k}]={s} has {len(s)} modes, circuit has {im}"
            for v in s:
                if not is_int(v):
                    return f"invalid: {side}[{k}]={s} has a non-integer occupation"
                if v < 0:
                    return f"invalid: {side}[{k}]={s} has a negative occupation"
    allst = list(ins) + list(outs or [])
    if not ins:
        return "degenerate"  # no input state: nothing to compute and nothing to reject; correspondence only
    if len({sum(s) for s in allst}) > 1:
        return "invalid: photon numbers differ"
    return "valid"


def build_side(states, ids, shape: str, objs: dict):
    if states is None:
        return None
    lst = []
    for k, s in enumerate(states):
        oid = ids[k] if ids and k < len(ids) else None
        if oid is None:
            lst.append(to_state(s))
        else:  # equal id AND equal content -> the same State object
            key = (oid, repr(s))
            if key not in objs:
                objs[key] = to_state(s)
            lst.append(objs[key])
    if shape == "single" and len(lst) == 1:
        return lst[0]
    if shape == "tuple":
        return tuple(lst)
    return lst


def valid_form(c, case: dict):
    """the request with every invalid state replaced by a valid one (for the warm-up call)"""
    im = c.input_modes
    good = [s for s in case["inputs"] + (case["outputs"] or [])
            if len(s) == im and all(is_int(v) and v >= 0 for v in s)]
    nph = sum(good[0]) if good else 0
    rep = good[0] if good else [nph] + [0] * (im - 1)

    def fix(lst):
        return None if lst is None else [s if (len(s) == im and all(is_int(v) and v >= 0 for v in s)
                                                 and sum(s) == nph) else list(rep) for s in lst]

    return fix(case["inputs"]), fix(case["outputs"])


def do_call(sim, req: dict, objs: dict):
    """one simulate() call with the request's argument shapes; returns (result | None, observation, args)"""
    args = (build_side(req["inputs"], req.get("in_ids"), req.get("in_shape", "list"), objs),
            build_side(req["outputs"], req.get("out_ids"), req.get("out_shape", "list"), objs))
    try:
        res = sim.simulate(*args)
        impl = {"inputs": [s.s for s in res.inputs], "outputs": [s.s for s in res.outputs],
                "array": np.array(res.array)}
    except Exception as e:  # noqa: BLE001
        res, impl = None, {"error": exc_class(e)}
    return res, impl, args


def run_case(ctx: Ctx, case: dict) -> list[str]:
    if "steps" in case:
        return run_session(ctx, case)
    pool = fg.build_impl(case["prog"])
    if "c1" not in pool:
        return []
    c = pool["c1"]
    if c.input_modes == 0:
        return []  # fock_basis(0, n) does not terminate in the code; excluded (documented)
    res = None
    try:
        # history: the same Simulator first serves the recorded requests on other circuits
        objs: dict = {}
        sim = None
        for h in case.get("history") or []:
            hc = fg.build_impl(h["prog"]).get("c1")
            if hc is None or hc.input_modes == 0:
                continue
            if sim is None:
                sim = emulator.Simulator(hc)
            else:
                sim.circuit = hc
            try:
                sim.simulate(build_side(h["inputs"], h.get("in_ids"), h.get("in_shape", "list"), objs),
                             build_side(h["outputs"], h.get("out_ids"), h.get("out_shape", "list"), objs))
            except Exception:  # noqa: BLE001
                pass
        if sim is None:
            sim = emulator.Simulator(c)
        else:
            sim.circuit = c
        if case.get("warm"):
            wi, wo = valid_form(c, case)
            try:
                sim.simulate(build_side(wi, case.get("in_ids"), "list", objs),
                             build_side(wo, case.get("out_ids"), "list", objs))
            except Exception:  # noqa: BLE001
                pass
        res, impl, _ = do_call(sim, case, objs)
    except Exception as e:  # noqa: BLE001
        impl = {"error": exc_class(e)}
    return judge(ctx, c, case, res, impl, case["prog"], "c1")


def judge(ctx: Ctx, c, case: dict, res, impl: dict, prog: list, cid: str, out: dict | None = None) -> list[str]:
    """the property's clauses on one answered / rejected request (oracle) and the comparison with the model
    (corr); `c` is the circuit as it is at the time of the call, `prog` the program that builds it for the
    model; `out` receives the independently evaluated formula ("ref") of an accepted request"""
    probs: list[str] = []
    ins, outs = case["inputs"], case["outputs"]
    in_shape, out_shape = case.get("in_shape", "list"), case.get("out_shape", "list")
    has_tuple = "tuple" in (in_shape, out_shape if outs is not None else "")
    shapes = f"inputs as {in_shape}, outputs as {'None' if outs is None else out_shape}"
    validity = request_validity(c.input_modes, ins, outs)
    a = impl.get("error", "ok")
    # ---- the rejection clause on the implementation alone
    if validity.startswith("invalid") and a == "ok":
        probs.append(f"oracle: invalid request computed instead of rejected ({shapes}): {validity}")
        return probs
    if validity == "valid" and a != "ok" and not (has_tuple and a == "TypeError"):
        probs.append(f"oracle: valid request rejected with {a} ({shapes}): inputs {ins} outputs {outs}")
        return probs
    m = ctx.model.call({"op": "fock", "what": "sim", "prog": prog, "id": cid,
                        "inputs": [occ_json(s) for s in ins],
                        "outputs": None if outs is None else [occ_json(s) for s in outs]})
    b = m.get("error_class", "ok")
    if validity != "degenerate" and (b == "ok") != (validity == "valid"):
        probs.append(f"corr: model outcome {b} but the rejection clause says the request is {validity}")
        return probs
    if a != "ok" or b != "ok":
        if has_tuple and a == "TypeError":
            ctx.count("tuple:rejected_as_TypeError")
        elif a != b:
            probs.append(f"corr: simulate outcome impl={a} model={b} (malformed={case.get('bad')}, {shapes})")
        return probs
    if has_tuple:
        ctx.count("tuple:accepted_and_checked")
    # ---- labels and shape of the result
    if impl["inputs"] != [list(s) for s in ins] or (outs is not None and impl["outputs"] != [list(s) for s in outs]):
        probs.append(f"oracle: the result's inputs/outputs {impl['inputs']}/{impl['outputs']} are not the "
                     f"requested ones {ins}/{outs} ({shapes})")
        return probs
    if impl["inputs"] != m["inputs"] or impl["outputs"] != m["outputs"]:
        probs.append("corr: order/content of the result's input/output lists differs from the model")
        return probs
    arr = impl["array"]
    if arr.shape != (len(impl["inputs"]), len(impl["outputs"])):
        probs.append(f"oracle: array shape {arr.shape} for {len(impl['inputs'])} inputs and "
                     f"{len(impl['outputs'])} outputs ({shapes})")
        return probs
    u = np.array(c.U_full)
    hin, hout = c.heralds["input"], c.heralds["output"]
    nloss = u.shape[0] - c.n_modes
    refm = np.zeros(arr.shape, dtype=complex)
    for i, s in enumerate(impl["inputs"]):
        fs = fg.add_heralds(s, hin) + [0] * nloss
        for j, t in enumerate(impl["outputs"]):
            ft = fg.add_heralds(t, hout) + [0] * nloss
            ref = fg.ref_amplitude(u, fs, ft)
            refm[i, j] = ref
            if abs(arr[i, j] - ref) > 1e-9:
                probs.append(f"oracle: amplitude [{i},{j}] {s}->{t} = {arr[i, j]:.6g} but perm(U_full[{ft}|{fs}])/sqrt(fact) = {ref:.6g} ({shapes})")
                return probs
            try:
                got = res[to_state(s), to_state(t)]
            except Exception as e:  # noqa: BLE001
                got = exc_class(e)
            if isinstance(got, str) or abs(got - ref) > 1e-9:
                probs.append(f"oracle: result[{s}, {t}] = {got} but perm(U_full[{ft}|{fs}])/sqrt(fact) = {ref:.6g} ({shapes})")
                return probs
            num, nsq = m["amps"][i][j]
            mv = complex(GQ.parse(num)) / math.sqrt(nsq)
            if abs(arr[i, j] - mv) > 1e-9:
                probs.append(f"corr: amplitude {s}->{t} impl={arr[i, j]:.6g} model={mv:.6g}")
                return probs
    if out is not None:
        out["ref"] = refm
    if outs is None and nloss == 0 and not hin and impl["inputs"]:
        for i, s in enumerate(impl["inputs"]):
            nrm = float(np.sum(np.abs(arr[i, :]) ** 2))
            if abs(nrm - 1) > 1e-9:
                probs.append(f"oracle: lossless circuit, amplitudes from {s} have squared norm {nrm}")
        want = sorted(map(tuple, fg.fock_all(c.input_modes, sum(impl["inputs"][0]))))
        if sorted(map(tuple, impl["outputs"])) != want:
            probs.append("oracle: outputs are not exactly the Fock basis of the photon number")
    return probs


# --------------------------------------------------------------------------- sessions
#
# A session is a list of steps on ONE set of live objects (circuits, Parameters, Simulators):
#   ["op", op]            a construction call on a circuit of the pool (circgen op; ["pps", cid, m, name, p]
#                         is a phase shifter whose phase is the lightworks Parameter `name`)
#   ["pset", name, p]     Parameter.set
#   ["sim", S, cid]       S = Simulator(pool[cid])
#   ["assign", S, cid]    S.circuit = pool[cid]
#   ["call", S, request]  S.simulate(...) in the request's argument shapes
# Every call is judged like a single case (rejection clause, Fock formula on the circuit's own U_full AS IT
# IS NOW, model on the program that builds the circuit as it is now) and compared with a fresh Simulator;
# every result handed out stays on the books (class Retained) and is re-checked after every later step.


def _angle(p: str) -> float:
    g = GQ.parse(p)
    return math.atan2(float(g.im), float(g.re))


class World:
    """the live objects of a session and the program that builds the same circuits for the model (a
    parametrised phase shifter appears there with the CURRENT value of its Parameter: lightworks shares
    Parameters by reference through add() and copy())"""

    def __init__(self) -> None:
        self.pool: dict = {}
        self.params: dict = {}
        self.pvals: dict = {}
        self.ops: list = []

    def apply(self, op: list) -> str:
        self.ops.append(op)
        if op[0] == "pps":
            _, cid, m, name, p = op[:5]
            if name not in self.params:
                self.params[name] = lw.Parameter(_angle(p))
                self.pvals[name] = p
            try:
                self.pool[cid].ps(m, self.params[name])
            except Exception as e:  # noqa: BLE001
                return exc_class(e)
            return "ok"
        return cg.apply_op(self.pool, op)

    def pset(self, name: str, p: str) -> None:
        if name in self.params:
            self.params[name].set(_angle(p))
            self.pvals[name] = p

    def model_prog(self) -> list:
        return [cg.op_ps(op[1], op[2], GQ.parse(self.pvals[op[3]])) if op[0] == "pps" else op for op in self.ops]


def _observe(c):
    try:
        return {"im": c.input_modes, "her": repr(c.heralds), "u": np.array(c.U_full)}
    except Exception as e:  # noqa: BLE001
        return {"im": None, "her": exc_class(e), "u": np.zeros((0, 0))}


def _occ(x) -> str:
    try:
        return repr(list(x.s))
    except Exception as e:  # noqa: BLE001
        return exc_class(e)


class Retained:
    """every SimulationResult handed out: the very object, a deep copy of what it said at the time, the Fock
    formula evaluated on the U_full it was computed for; and every argument object of the client"""

    def __init__(self) -> None:
        self.entries: list[dict] = []
        self.client: list[dict] = []
        self.rechecks = 0

    def hand_in(self, args, what: str) -> None:
        for side, a in zip(("inputs", "outputs"), args or ()):
            if a is None:
                continue
            items = [a] if isinstance(a, lw.State) else list(a)
            self.client.append({"container": a, "items": items, "occ": [_occ(x) for x in items],
                                "what": f"the {side} argument of {what}"})

    def keep(self, res, call: int, what: str, ref: np.ndarray) -> list[str]:
        probs = []
        raw = res.array
        for e in self.entries:
            if e["call"] == call:
                continue
            if res is e["res"]:
                probs.append(f"oracle: retained results alias each other: {what} IS the very object returned as {e['what']}")
            elif raw is e["raw"] or (raw.size and e["raw"].size and np.shares_memory(raw, e["raw"])):
                probs.append(f"oracle: retained results alias each other: .array of {what} "
                             + ("IS the very ndarray" if raw is e["raw"] else "shares memory with .array") + f" of {e['what']}")
        n_i, n_o = ref.shape
        pairs = [(i, j) for i in range(n_i) for j in range(n_o)]
        if len(pairs) > 12:
            pairs = [pairs[(k * len(pairs)) // 12] for k in range(12)]
        self.entries.append({"res": res, "raw": raw, "copy": np.array(raw, copy=True), "call": call, "what": what,
                             "ins": [_occ(x) for x in res.inputs], "outs": [_occ(x) for x in res.outputs],
                             "in_states": [list(x.s) for x in res.inputs], "out_states": [list(x.s) for x in res.outputs],
                             "ref": ref, "pairs": pairs, "live": True})
        return probs

    def recheck(self, after: str) -> list[str]:
        probs = []
        for e in self.entries:
            if not e["live"]:
                continue
            self.rechecks += 1
            res = e["res"]
            try:
                cur = res.array
                ins, outs = [_occ(x) for x in res.inputs], [_occ(x) for x in res.outputs]
            except Exception as x:  # noqa: BLE001
                probs.append(f"oracle: retained result changed: {e['what']} raises {exc_class(x)} when read after {after}")
                e["live"] = False
                continue
            if ins != e["ins"] or outs != e["outs"]:
                probs.append(f"oracle: retained result changed: inputs/outputs of {e['what']} were {e['ins']}/{e['outs']}, "
                             f"are {ins}/{outs} after {after}")
                e["live"] = False
                continue
            cur = np.asarray(cur)
            if cur.shape != e["copy"].shape or not np.array_equal(cur, e["copy"]):
                d = float(np.max(np.abs(cur - e["copy"]))) if cur.shape == e["copy"].shape and cur.size else None
                ok = cur.shape == e["ref"].shape and bool(np.all(np.abs(cur - e["ref"]) <= 1e-9))
                probs.append(f"oracle: retained result changed: .array of {e['what']} is no longer what simulate() "
                             f"returned (shape {e['copy'].shape} -> {cur.shape}, max difference {d}; it "
                             f"{'still equals' if ok else 'no longer equals'} perm(U_full[out|in])/sqrt(fact) of its own "
                             f"inputs/outputs) after {after}")
                e["live"] = False
                continue
            if cur.size and not bool(np.all(np.abs(cur - e["ref"]) <= 1e-9)):
                probs.append(f"oracle: retained result no longer equals the Fock formula on the U_full it was computed for: "
                             f"{e['what']} after {after}")
                e["live"] = False
                continue
            for i, j in e["pairs"]:
                si, so = to_state(e["in_states"][i]), to_state(e["out_states"][j])
                try:
                    got = [res[si, so], res[si][so], res[si, None][so]]
                except Exception as x:  # noqa: BLE001
                    probs.append(f"oracle: retained result changed: indexing {e['what']} with [{e['ins'][i]}, {e['outs'][j]}] "
                                 f"raises {exc_class(x)} after {after}")
                    e["live"] = False
                    break
                if any(abs(g - cur[i, j]) > 1e-12 for g in got) or any(abs(g - e["ref"][i, j]) > 1e-9 for g in got):
                    probs.append(f"oracle: retained result incoherent: {e['what']}: result[in, out] / result[in][out] / "
                                 f"result[in, None][out] = {got} but .array[{i},{j}] = {cur[i, j]:.6g} and the formula gives "
                                 f"{e['ref'][i, j]:.6g} after {after}")
                    e["live"] = False
                    break
        for h in self.client:
            a = h["container"]
            now = [a] if isinstance(a, lw.State) else list(a)
            if [_occ(x) for x in now] != h["occ"] or [_occ(x) for x in h["items"]] != h["occ"]:
                probs.append(f"oracle: client objects modified: {h['what']} was {h['occ']}, is {[_occ(x) for x in now]} after {after}")
                h["items"], h["occ"] = now, [_occ(x) for x in now]
        return probs


def run_session(ctx: Ctx, case: dict, tags: set | None = None) -> list[str]:
    tags = tags if tags is not None else set()
    w = World()
    sims: dict = {}
    objs: dict = {}
    led = Retained()
    ncall = 0
    shapes_seen: list = []  # (simulator, array shape) of the retained results
    for k, st in enumerate(case["steps"]):
        kind = st[0]
        if kind == "op":
            w.apply(st[1])
            after = f"step {k}: {st[1][0]}(...) on circuit {st[1][1]}"
        elif kind == "pset":
            w.pset(st[1], st[2])
            after = f"step {k}: Parameter.set"
        elif kind in ("sim", "assign"):
            name, cid = st[1], st[2]
            c = w.pool.get(cid)
            if c is None or (kind == "assign" and name not in sims):
                continue
            try:
                if kind == "sim":
                    sims[name] = {"sim": emulator.Simulator(c), "calls": 0}
                elif sims[name]["sim"] is not None:
                    sims[name]["sim"].circuit = c
                    tags.add("session:circuit_reassigned:" + ("same_object" if sims[name]["cid"] == cid else "other_circuit"))
            except Exception as e:  # noqa: BLE001
                sims[name] = {"sim": None, "error": exc_class(e), "calls": 0}
            sims[name]["cid"] = cid
            sims[name]["seen"] = _observe(c)
            after = f"step {k}: {'Simulator(' + cid + ')' if kind == 'sim' else 'Simulator.circuit = ' + cid}"
        elif kind == "call":
            name, req = st[1], st[2]
            S = sims.get(name)
            if S is None:
                continue
            cid = S["cid"]
            c = w.pool[cid]
            if c.input_modes == 0:
                continue  # fock_basis(0, n) does not terminate in the code; excluded (documented)
            ncall += 1
            what = f"call #{ncall} (step {k}) on Simulator {name} holding circuit {cid}"
            now, seen = _observe(c), S["seen"]
            when = "before_first_call" if S["calls"] == 0 else "between_calls"
            if now["im"] != seen["im"]:
                tags.add(f"session:circuit_edited_in_place_{when}:number_of_user_modes_changed")
            if now["her"] != seen["her"]:
                tags.add(f"session:circuit_edited_in_place_{when}:heralds_changed")
            if now["u"].shape != seen["u"].shape:
                tags.add(f"session:circuit_edited_in_place_{when}:U_full_changed_size")
            elif not np.array_equal(now["u"], seen["u"]):
                tags.add(f"session:circuit_edited_in_place_{when}:U_full_changed_entries")
            S["seen"] = now
            S["calls"] += 1
            if S["sim"] is None:
                res, impl, args = None, {"error": S["error"]}, None
            else:
                res, impl, args = do_call(S["sim"], req, objs)
            led.hand_in(args, what)
            out: dict = {}
            probs = judge(ctx, c, req, res, impl, w.model_prog(), cid, out)
            if res is not None and not probs and "ref" in out:
                # a fresh Simulator on the circuit as it is now, with State objects of its own
                fres, fimpl, _ = do_call(emulator.Simulator(c), req, {})
                if "error" in fimpl or fimpl["array"].shape != impl["array"].shape \
                        or not bool(np.all(np.abs(fimpl["array"] - impl["array"]) <= 1e-9)) \
                        or fimpl["outputs"] != impl["outputs"]:
                    probs.append(f"oracle: a fresh Simulator on the same circuit answers differently from the long-lived one: "
                                 f"{fimpl.get('error') or 'amplitudes / outputs differ'}")
                shp = impl["array"].shape
                if any(n == name and x == shp for n, x in shapes_seen):
                    tags.add("retained:later_call_same_shape_same_simulator")
                if any(n not in (name, "<fresh>") and x == shp for n, x in shapes_seen):
                    tags.add("retained:later_call_same_shape_other_simulator")
                if any(x != shp for n, x in shapes_seen):
                    tags.add("retained:later_call_other_shape")
                shapes_seen.append((name, shp))
                shapes_seen.append(("<fresh>", shp))
                probs += led.recheck(what)  # what the call did to the results handed out before, first
                probs += led.keep(res, ncall, "the result of " + what, out["ref"])
                if fres is not None:
                    probs += led.keep(fres, -ncall, f"the result of the same request on a fresh Simulator({cid}) at step {k}",
                                      out["ref"])
            elif impl.get("error"):
                tags.add("session:rejected_call_between_retained_results" if led.entries else "session:rejected_call")
            if probs:
                return [f"{p}  [session: {what}]" for p in probs]
            after = what
        else:
            raise AssertionError(f"unknown session step {kind}")
        probs = led.recheck(after)
        if probs:
            return probs
    tags.add(f"retained:results_on_the_books_at_the_end:{min(len(led.entries), 12) // 4 * 4}+")
    ctx.count("retained:rechecks_of_a_result_after_a_later_step", led.rechecks)
    return []


class SessionBuilder:
    """writes a session while running it on the implementation, so that every request fits the circuit as it
    is at that step (number of user modes, photon budget of the exact model)"""

    def __init__(self, ctx: Ctx, rng, cap: int = 5) -> None:
        self.ctx, self.rng, self.cap = ctx, rng, cap
        self.w = World()
        self.steps: list = []
        self.sims: dict = {}
        self.last: dict = {}
        self.lastshape = None
        self.fresh = Ids()
        self.ncalls = 0
        self.n1 = 0
        self.hin: set = set()
        self.hout: set = set()
        self.nsub = 0

    def op(self, op: list) -> str:
        r = self.w.apply(op)
        self.steps.append(["op", op])
        if op[0] == "new" and op[1] == "c1":
            self.n1 = op[2]
        if op[0] == "herald" and op[1] == "c1" and r == "ok":
            self.hin.add(op[3])
            self.hout.add(op[4])
        return r

    def ops(self, ops: list) -> None:
        for o in ops:
            if o[0] == "pset":
                self.pset(o[1], o[2])
            else:
                self.op(o)

    def pset(self, name: str, p: str) -> None:
        self.w.pset(name, p)
        self.steps.append(["pset", name, p])

    def sim(self, name: str, cid: str) -> None:
        self.sims[name] = cid
        self.steps.append(["sim", name, cid])

    def assign(self, name: str, cid: str) -> None:
        self.sims[name] = cid
        self.steps.append(["assign", name, cid])

    def circuit(self, name: str):
        return self.w.pool.get(self.sims.get(name))

    def call(self, name: str, how: str = "random", n_in: int = 2, n_out: int = 3, nph: int | None = None,
             p_bad: float = 0.12) -> bool:
        rng = self.rng
        c = self.circuit(name)
        if c is None or c.input_modes == 0 or fg.herald_photons(c) > self.cap - 1:
            return False
        if np.array(c.U_full).shape[0] > 12:
            return False
        im = c.input_modes
        budget = self.cap - 1 - fg.herald_photons(c)
        nph = min(2 if nph is None else nph, budget)
        if how == "repeat" and name not in self.last:
            how = "random"
        if how == "same" and self.lastshape is None:
            how = "explicit"
        if how == "same":
            n_in, n_out, was_none, key = self.lastshape
            if was_none and key == (im, nph):
                how = "none"
            elif n_out <= 10:
                how = "explicit"
            else:
                how = "none"
        if how == "repeat":
            req = copy.deepcopy(self.last[name])
        elif how == "random":
            req = gen_request(self.ctx, rng, c, nph, fresh=self.fresh, p_bad=p_bad)
            req.pop("warm", None)
            req.pop("bad", None)
        else:
            ins = [fg.rand_state(rng, im, nph) for _ in range(n_in)]
            outs = None if how == "none" else [fg.rand_state(rng, im, nph) for _ in range(n_out)]
            req = {"inputs": ins, "outputs": outs, "in_shape": "list", "out_shape": "none" if outs is None else "list",
                   "in_ids": [self.fresh() for _ in ins], "out_ids": None if outs is None else [self.fresh() for _ in outs]}
        self.steps.append(["call", name, req])
        self.ncalls += 1
        self.last[name] = req
        if request_validity(im, req["inputs"], req["outputs"]) == "valid":
            k = photons_of(req["inputs"][0])
            no = math.comb(im + k - 1, k) if req["outputs"] is None else len(req["outputs"])
            self.lastshape = (len(req["inputs"]), no, req["outputs"] is None, (im, k))
        return True

    def case(self, **kw) -> dict:
        return {"steps": self.steps, **kw}


def rename(prog: list, cid: str) -> list:
    """the corpus bodies (one circuit, no sub-circuits) built under another id"""
    return [[op[0], cid, *op[2:]] for op in prog]


def rand_edit(rng, b: SessionBuilder) -> list:
    """one in-place edit of circuit c1 (a list of ops / pset steps)"""
    n = b.n1
    c = b.w.pool["c1"]
    free_i = [m for m in range(n) if m not in b.hin]
    free_o = [m for m in range(n) if m not in b.hout]
    room = b.cap - 1 - fg.herald_photons(c)
    kinds = ["herald"] * 4 + ["loss"] * 2 + ["prim"] * 2 + ["pps", "pset", "pset", "addher", "addher", "addsub"]
    for _ in range(6):
        kind = rng.choice(kinds)
        if kind == "herald" and len(free_i) >= 2 and free_o:
            i = rng.choice(free_i)
            o = i if (i in free_o and rng.random() < 0.4) else rng.choice(free_o)
            return [["herald", "c1", rng.choice([k for k in (0, 1, 1, 2, 3) if k <= max(0, room - 1)]), i, o]]
        if kind == "loss":
            a, bb = rng.choice([p for p in PYTH if p[1] != 0 and p[0] != 0])
            return [cg.op_loss("c1", rng.randrange(n), a, bb)]
        if kind == "prim":
            return [cg.rand_prim_op(rng, "c1", n, allow_loss=True)]
        if kind == "pps":
            ops = [["pps", "c1", rng.randrange(n), f"p{len(b.w.params) + 1}", rng.choice(CIRCLE).s()]]
            if n >= 2:
                m1, m2 = rng.sample(range(n), 2)
                cc, ss = rng.choice(PYTH)
                ops.append(cg.op_bs("c1", m1, m2, cc, ss, rng.choice(["Rx", "H"])))
            return ops
        if kind == "pset" and b.w.params:
            name = rng.choice(sorted(b.w.params))
            return [["pset", name, rng.choice([p.s() for p in CIRCLE if p.s() != b.w.pvals[name]])]]
        if kind in ("addher", "addsub") and n >= 2:
            b.nsub += 1
            sid = f"s{b.nsub}"
            sz = rng.choice([2, 3]) if kind == "addher" else 2
            ops = [["new", sid, sz]]
            for m in range(sz - 1):
                cc, ss = rng.choice(PYTH)
                ops.append(cg.op_bs(sid, m, m + 1, cc, ss, rng.choice(["Rx", "H"]),
                                    rng.choice([None, None, (Fraction(4, 5), Fraction(3, 5))])))
            q = sz
            if kind == "addher":
                hi, ho = rng.randrange(sz), rng.randrange(sz)
                ops.append(["herald", sid, rng.choice([k for k in (0, 1, 1, 2) if k <= max(0, room - 1)]), hi, ho])
                q = sz - 1
            ops.append(["add", "c1", sid, rng.randint(0, n - q), rng.random() < 0.5])
            return ops
    return [cg.rand_prim_op(rng, "c1", n, allow_loss=True)]


def gen_session(ctx: Ctx, rng) -> dict:
    """a circuit from the tree generator is BUILT WHILE a long-lived Simulator (created at a random point of
    the construction, often right after Circuit(n)) is in use, then edited further in place; a second
    Simulator on the same circuit / a copy / a sub-circuit, re-assignments of .circuit"""
    prog = bump_heralds(rng, fg.gen_circuit(ctx, rng, max_depth=2))
    b = SessionBuilder(ctx, rng, cap=6 if ctx.thorough else 5)
    k0 = rng.choice([1, 1, rng.randint(1, min(3, len(prog))), rng.randint(1, len(prog))])
    for op in prog[:k0]:
        b.op(op)
    b.sim("A", "c1")
    second = rng.random() < 0.45
    if second and rng.random() < 0.5:
        b.sim("B", "c1")
    if rng.random() < 0.6:
        b.call("A", rng.choice(["random", "explicit", "none"]), n_in=rng.randint(1, 3), n_out=rng.randint(1, 4),
               nph=rng.choice([1, 2, 2, 3]))
    queue = [[op] for op in prog[k0:]]
    extra = rng.randint(1, 3)
    maxcalls = 7
    while (queue or extra > 0) and b.ncalls < maxcalls:
        if queue:
            edit = queue.pop(0)
        else:
            edit = rand_edit(rng, b)
            extra -= 1
        b.ops(edit)
        touches = any(o[0] == "pset" or (o[1] == "c1" and o[0] != "new") for o in edit)
        if not touches or rng.random() < 0.35:
            continue
        r = rng.random()
        if r < 0.12:
            b.assign("A", "c1")  # the same object once more
        elif r < 0.2:
            b.op(["copy", "k1", "c1"])
            b.assign("A", "k1")
            b.call("A", "same", nph=rng.choice([1, 2, 2, 3]))
            b.assign("A", "c1")
        how = rng.choice(["random", "same", "same", "same", "none", "repeat"])
        b.call("A", how, n_in=rng.randint(1, 3), n_out=rng.randint(1, 4), nph=rng.choice([0, 1, 2, 2, 3]))
        if second and rng.random() < 0.6:
            if "B" not in b.sims:
                subs = [cid for cid, x in b.w.pool.items() if cid != "c1" and x.input_modes > 0]
                if subs and rng.random() < 0.4:
                    b.sim("B", rng.choice(sorted(subs)))
                elif rng.random() < 0.5:
                    b.op(["copy", "k2", "c1"])
                    b.sim("B", "k2")
                else:
                    b.sim("B", "c1")
            b.call("B", rng.choice(["same", "same", "random"]), nph=rng.choice([1, 2, 2]))
            if rng.random() < 0.5:
                b.call("A", "same", nph=rng.choice([1, 2, 2]))
    return b.case()


def corpus_sessions(ctx: Ctx):
    """directed sessions: (1) results retained across later calls of the same / another Simulator with the same
    and with another shape, the same and another circuit; (2) every kind of in-place edit of the circuit a
    long-lived Simulator holds, with and without a call before the edit"""
    rng = random.Random(f"C03-corpus-sessions-{ctx.seed}")
    F = Fraction
    base = dict(corpus_circuits())
    body3 = {False: base["lossless"], True: base["lossy"]}
    body4 = {False: base["herald0"][:-1], True: base["herald1_lossy"][:-1]}
    ph = [p.s() for p in CIRCLE]

    # ---- (1) retained results
    for lossy in (False, True):
        b = SessionBuilder(ctx, rng)
        b.ops(body3[lossy])
        b.sim("A", "c1")
        b.call("A", "explicit", 2, 3)
        b.call("A", "same")
        b.call("A", "same")
        b.call("A", "none", 2)
        b.call("A", "none", 2)
        b.call("A", "explicit", 1, 1)
        b.call("A", "same")
        b.call("A", "explicit", 3, 2, nph=1)
        b.call("A", "same", nph=1)
        yield b.case(corpus=f"retained:one_simulator{'_lossy' if lossy else ''}")
    for second in ("same_circuit", "copy", "other_circuit"):
        b = SessionBuilder(ctx, rng)
        b.ops(base["herald1_lossy"])
        b.sim("A", "c1")
        if second == "copy":
            b.op(["copy", "d1", "c1"])
        elif second == "other_circuit":
            b.ops(rename(base["herald2_lossy"], "d1"))
        other = "c1" if second == "same_circuit" else "d1"
        b.sim("B", other)
        b.call("A", "explicit", 2, 3, nph=1)
        b.call("B", "same", nph=1)
        b.call("A", "none", 1, nph=1)
        b.call("B", "same", nph=1)
        b.call("B", "repeat")
        b.call("A", "repeat")
        yield b.case(corpus=f"retained:two_simulators:{second}")
        # one Simulator moved between the two circuits, the same request on both
        b = SessionBuilder(ctx, rng)
        b.ops(base["herald1_lossy"])
        if second == "copy":
            b.op(["copy", "d1", "c1"])
        elif second == "other_circuit":
            b.ops(rename(base["herald2_lossy"], "d1"))
        b.sim("A", "c1")
        b.call("A", "explicit", 2, 2, nph=1)
        b.assign("A", other)
        b.call("A", "repeat")
        b.call("A", "same", nph=1)
        b.assign("A", "c1")
        b.call("A", "repeat")
        yield b.case(corpus=f"retained:circuit_reassigned:{second}")

    # ---- (2) in-place edits of the circuit a long-lived Simulator holds
    sub = [["new", "s1", 2], cg.op_bs("s1", 0, 1, F(3, 5), F(4, 5), "Rx")]
    sub3 = [["new", "s1", 3], cg.op_bs("s1", 0, 1, F(3, 5), F(4, 5), "Rx"), cg.op_bs("s1", 1, 2, F(5, 13), F(12, 13), "H")]
    edits = [(f"herald{k}@{hi}->{ho}", [["herald", "c1", k, hi, ho]])
             for k, hi, ho in [(0, 1, 2), (1, 3, 0), (2, 0, 2), (1, 1, 1), (3, 2, 1), (1, 0, 0), (1, 3, 3)]]
    edits += [
        ("two_heralds", [["herald", "c1", 0, 0, 3], ["herald", "c1", 1, 2, 0]]),
        ("loss", [cg.op_loss("c1", 1, F(4, 5), F(3, 5))]),
        ("bs", [cg.op_bs("c1", 1, 2, F(3, 5), F(4, 5), "H")]),
        ("bs_with_loss", [cg.op_bs("c1", 2, 3, F(8, 17), F(15, 17), "Rx", (F(12, 13), F(5, 13)))]),
        ("swaps", [["swaps", "c1", [[0, 2], [2, 3], [3, 0]]]]),
        ("unitary_block", [["unitary", "s1", cg.mat_json(cg.exact_unitary(random.Random(7), 2, 4))], ["add", "c1", "s1", 1, False]]),
        ("parameter_set", [["pset", "p1", ph[3]]]),
        ("parameter_set_back_to_equal_value", [["pset", "p1", ph[3]], ["pset", "p1", ph[1]]]),
        ("add_heralded_sub", sub + [["herald", "s1", 1, 0, 1], ["add", "c1", "s1", 2, False]]),
        ("add_heralded_sub_grouped", sub + [["herald", "s1", 1, 1, 0], ["add", "c1", "s1", 0, True]]),
        ("add_heralded_sub_vacuum", sub3 + [["herald", "s1", 0, 1, 1], ["add", "c1", "s1", 1, True]]),
        ("add_lossy_sub", [*sub, cg.op_loss("s1", 0, F(3, 5), F(4, 5)), ["add", "c1", "s1", 3 - 1, False]]),
        ("add_heralded_sub_then_herald", sub + [["herald", "s1", 1, 0, 1], ["add", "c1", "s1", 2, False], ["herald", "c1", 1, 0, 3]]),
    ]
    param = [["pps", "c1", 1, "p1", ph[1]], cg.op_bs("c1", 1, 2, F(4, 5), F(3, 5), "Rx")]
    for name, edit in edits:
        for prior in (False, True):
            for lossy in (False, True):
                if lossy and not prior and not name.startswith(("herald", "two", "add_heralded_sub")):
                    continue
                b = SessionBuilder(ctx, rng)
                b.ops(body4[lossy] + (param if "parameter" in name else []))
                b.sim("A", "c1")
                if prior:
                    b.call("A", "explicit", 2, 3, nph=2)
                b.ops(edit)
                b.call("A", "none", 2, nph=2)
                b.call("A", "explicit", 2, 3, nph=2)
                if prior:
                    b.steps.append(["call", "A", copy.deepcopy(b.steps[[s[0] for s in b.steps].index("call")][2])])
                if len(b.hin) + 2 <= b.n1:
                    fi = [m for m in range(b.n1) if m not in b.hin]
                    fo = [m for m in range(b.n1) if m not in b.hout]
                    b.op(["herald", "c1", 1, fi[-1], fo[0]])
                    b.call("A", "same", nph=1)
                b.assign("A", "c1")
                b.call("A", "same", nph=1)
                yield b.case(corpus=f"in_place:{name}:{'call_before_edit' if prior else 'no_call_before_edit'}"
                             f"{':lossy' if lossy else ''}")


def session_tags(case: dict) -> set:
    tags = set()
    for st in case["steps"]:
        if st[0] == "op" and st[1][0] in ("herald", "loss", "add", "pps", "copy"):
            tags.add(f"session:op:{st[1][0]}")
        elif st[0] == "pset":
            tags.add("session:op:Parameter.set")
    return tags


def handle_session(ctx: Ctx, case: dict, index: int) -> None:
    tags: set = set()
    probs = run_session(ctx, case, tags)
    calls = [st[2] for st in case["steps"] if st[0] == "call"]
    ctx.count("session:calls", len(calls))
    ctx.count(f"session:number_of_simulators:{len({st[1] for st in case['steps'] if st[0] == 'sim'})}")
    for t in sorted(tags | session_tags(case)):
        ctx.count(t)
    nontriv = sum(1 for r in calls if r["inputs"] and photons_of(r["inputs"][0]) >= 2) >= 1 and len(calls) >= 2
    ctx.case(json.dumps(case, default=str), nontriv, sample=case if index < 1 else None)
    if not probs:
        return
    ctx.count("cases_with_problems")

    def still(sub):
        return bool(run_session(ctx, {**case, "steps": sub}))

    small = ddmin(case["steps"], still, max_tests=250)
    scase = {**case, "steps": small}
    # then the states of each remaining request
    for st in scase["steps"]:
        if st[0] != "call":
            continue
        for key, ikey, skey in (("inputs", "in_ids", "in_shape"), ("outputs", "out_ids", "out_shape")):
            req = st[2]
            if req.get(key) is None or req.get(skey, "list") == "single":
                continue
            k = 0
            while k < len(req[key]) and len(req[key]) > 1:
                ids = req.get(ikey) or [None] * len(req[key])
                saved = (req[key], req.get(ikey))
                req[key], req[ikey] = req[key][:k] + req[key][k + 1:], ids[:k] + ids[k + 1:]
                if run_session(ctx, scase):
                    continue
                req[key], req[ikey] = saved
                k += 1
    sprobs = run_session(ctx, scase) or probs
    oracle = [p for p in sprobs if p.startswith("oracle")]
    if oracle:
        ctx.violation(oracle[0], {"case": scase, "problems": sprobs}, sig={"kind": oracle[0][8:30]})
    else:
        ctx.disagreement(sprobs[0], {"case": scase, "problems": sprobs})


# --------------------------------------------------------------------------- run


def shrink_request(ctx: Ctx, case: dict) -> dict:
    """drop states of the request that are not needed for the problem (lists only)"""
    cur = case
    for key, ikey, skey in (("inputs", "in_ids", "in_shape"), ("outputs", "out_ids", "out_shape")):
        if cur.get(key) is None or cur.get(skey, "list") == "single":
            continue
        k = 0
        while k < len(cur[key]) and len(cur[key]) > 1:
            ids = cur.get(ikey) or [None] * len(cur[key])
            cand = {**cur, key: cur[key][:k] + cur[key][k + 1:], ikey: ids[:k] + ids[k + 1:]}
            if run_case(ctx, cand):
                cur = cand
            else:
                k += 1
    if cur.get("warm") and run_case(ctx, {**cur, "warm": False}):
        cur = {**cur, "warm": False}
    while cur.get("history"):
        for k in range(len(cur["history"])):
            cand = {**cur, "history": cur["history"][:k] + cur["history"][k + 1:]}
            if run_case(ctx, cand):
                cur = cand
                break
        else:
            break
    return cur


def handle(ctx: Ctx, case: dict, index: int) -> None:
    probs = run_case(ctx, case)
    prog = case["prog"]
    first = (case["inputs"] or case["outputs"] or [[]])[0]
    nph = photons_of(first)
    nontriv = nph >= 2 and any(op[0] in ("bs", "unitary") for op in prog)
    bad = case.get("bad")
    outs = case["outputs"]
    in_shape = case.get("in_shape", "list")
    out_shape = "none" if outs is None else case.get("out_shape", "list")
    ctx.count("malformed:" + str(bad))
    ctx.count(f"shape:in={in_shape},out={out_shape}")
    if bad:
        side = bad.split(":")[0]
        lst = case["inputs"] if side == "in" else (outs or [])
        shp = in_shape if side == "in" else out_shape
        ctx.count(f"malformed_{side}_as:{shp}{'' if shp == 'single' else ':len' + str(min(len(lst), 3))}")
    ctx.count(f"photons:{nph}")
    if case.get("warm"):
        ctx.count("history:valid_call_first")
    if case.get("history"):
        ctx.count(f"history:simulator_served_{len(case['history'])}_other_circuits_first")
    for key, ikey in (("inputs", "in_ids"), ("outputs", "out_ids")):
        lst, ids = case.get(key) or [], case.get(ikey) or []
        if not lst and case.get(key) is not None:
            ctx.count(f"empty:{key}")
        reps = [(p, q) for p in range(len(lst)) for q in range(p) if repr(lst[p]) == repr(lst[q])]
        if any(ids[p] == ids[q] for p, q in reps if p < len(ids) and q < len(ids)):
            ctx.count(f"repeated_same_object:{key}")
        if any(ids[p] != ids[q] for p, q in reps if p < len(ids) and q < len(ids)):
            ctx.count(f"repeated_equal_object:{key}")
    if outs and set(case.get("in_ids") or []) & set(case.get("out_ids") or []):
        ctx.count("object_shared_between_inputs_and_outputs")
    hs = [op[2] for op in prog if op[0] == "herald"]
    if hs:
        ctx.count("with_heralds")
        ctx.count(f"max_herald_photons:{max(hs)}")
        if any(op[0] == "herald" and op[3] != op[4] for op in prog):
            ctx.count("with_heralds_in!=out")
    if any(fg.is_lossy(op) for op in prog):
        ctx.count("with_loss")
    ctx.case(json.dumps(case, default=str), nontriv, sample=case if index < 2 else None)
    if not probs:
        return
    ctx.count("cases_with_problems")

    def still(sub):
        return cg.well_formed(sub) and bool(run_case(ctx, {**case, "prog": sub}))

    small = ddmin(prog, still)
    scase = shrink_request(ctx, {**case, "prog": small})
    sprobs = run_case(ctx, scase) or probs
    oracle = [p for p in sprobs if p.startswith("oracle")]
    if oracle:
        ctx.violation(oracle[0], {"case": scase, "problems": sprobs}, sig={"kind": oracle[0][8:30]})
    else:
        ctx.disagreement(sprobs[0], {"case": scase, "problems": sprobs})


def run(ctx: Ctx) -> None:
    ctx.rule = ("directed corpus first (fixed lossless / lossy / heralded circuits with 0-3 herald photons, in != out: "
                "every argument shape of simulate(inputs, outputs) — bare State, list, tuple, None, empty, repeated "
                "equal States as same / distinct objects — x every kind of invalid state x position), then circuits "
                "from the C02 tree generator (heralds in != out with 0-3 photons, loss, groups), requests with 0-4 "
                "photons (bunched, vacuum) in random shapes, ~30% with one invalid state; non-trivial = >= 2 photons "
                "in a circuit with a beam splitter or unitary block; distinct = distinct (program, request).  "
                "Sessions (directed, then random): one or two long-lived Simulators, the circuit edited in place "
                "between calls (heralds, heralded / lossy sub-circuits, components, loss, Parameter.set), .circuit "
                "re-assigned, <= 12 calls each judged on the circuit as it is at the time and against a fresh "
                "Simulator; every result handed out is retained and re-checked after every later step")
    k = 0
    for case in corpus(ctx):
        if ctx.out_of_time():
            break
        ctx.count("corpus_cases")
        handle(ctx, case, 10 + k)
        k += 1
    for case in corpus_histories(ctx):
        if ctx.out_of_time():
            break
        ctx.count("corpus_history_cases")
        handle(ctx, case, 10 + k)
        k += 1
    for case in corpus_sessions(ctx):
        if ctx.out_of_time():
            break
        ctx.count("corpus_session_cases")
        handle_session(ctx, case, k)
        k += 1
    brng = random.Random(f"C03-bunch-{ctx.seed}")
    for i in range(ctx.n(60, 1500)):
        if ctx.out_of_time():
            break
        case = gen_bunch_case(brng)
        probs = run_bunch(ctx, case)
        ctx.count("bunch:photons>=13" if case["k"] >= 13 else "bunch:photons<13")
        ctx.case(json.dumps(case), True, sample=case if i == 0 else None)
        if probs:
            ctx.count("cases_with_problems")
            ctx.violation(probs[0], {"case": case, "problems": probs}, sig={"kind": "many-photons"})
    N = ctx.n(220, 5000)
    rng = ctx.rng
    srng = random.Random(f"C03-sessions-{ctx.seed}")
    for i in range(ctx.n(200, 2500)):
        if ctx.out_of_time():
            break
        ctx.count("random_session_cases")
        handle_session(ctx, gen_session(ctx, srng), 10 + i)
    for i in range(N):
        if ctx.out_of_time():
            break
        case = gen_case(ctx, rng)
        if case is None:
            ctx.count("skipped:too_many_herald_photons")
            continue
        handle(ctx, case, i)


# ------------------------------------------------------------------ many photons through one mode


def gen_bunch_case(rng) -> dict:
    """all k photons enter (or leave) through ONE mode, k up to 20: the photon-indexed sub-matrix has rank one and
    the amplitude has the multinomial closed form of theorems C03.bunched_input_amplitude / bunched_output_amplitude
    (sqrt(k!/prod t_j!) * prod_j U[j,c]^t_j), so the clause can be evaluated far beyond the photon numbers an
    n!-term permanent reaches - where the occupation factorials leave the 64-bit range (13!*13! > 2^64)"""
    n = rng.choice([2, 2, 3, 3, 4])
    prog = [["new", "c1", n]]
    for _ in range(rng.randint(1, 5)):
        if rng.random() < 0.65:
            m1, m2 = rng.sample(range(n), 2)
            c, s_ = rng.choice(PYTH)
            prog.append(cg.op_bs("c1", m1, m2, c, s_, rng.choice(["Rx", "H"])))
        else:
            prog.append(cg.op_ps("c1", rng.randrange(n), rng.choice(CIRCLE)))
    k = rng.choice([rng.randint(5, 20), rng.randint(11, 16), 12, 13, 14])
    side = rng.choice(["in", "in", "out"])
    mode = rng.randrange(n)
    others = [fg.rand_state(rng, n, k) for _ in range(rng.randint(1, 4))]
    if rng.random() < 0.5:
        st = [0] * n
        st[rng.randrange(n)] = k
        others.append(st)  # bunched on both sides
    return {"kind": "bunch", "prog": prog, "k": k, "side": side, "mode": mode, "others": others}


def run_bunch(ctx: Ctx, case: dict) -> list[str]:
    pool = fg.build_impl(case["prog"])
    c = pool.get("c1")
    if c is None:
        return []
    n, k, a = c.n_modes, case["k"], case["mode"]
    if a >= n or any(len(o) != n for o in case["others"]):
        return []
    u = np.array(c.U_full)
    bunched = [0] * n
    bunched[a] = k
    ins = [bunched] if case["side"] == "in" else case["others"]
    outs = case["others"] if case["side"] == "in" else [bunched]
    sim = emulator.Simulator(c)
    try:
        res = sim.simulate([lw.State(x) for x in ins], [lw.State(x) for x in outs])
        arr = np.array(res.array)
    except Exception as e:  # noqa: BLE001
        return [f"oracle: Simulator.simulate raised {exc_class(e)} for the valid request {ins} -> {outs}: {str(e)[:80]}"]
    probs = []
    for i, s_ in enumerate(ins):
        for j, t in enumerate(outs):
            other = t if case["side"] == "in" else s_
            # closed form (exact integers under the square root)
            num = math.factorial(k)
            den = math.prod(math.factorial(x) for x in other)
            amp = math.sqrt(num / den) if num % den else math.sqrt(num // den)
            for m, occ in enumerate(other):
                amp = amp * (u[m, a] if case["side"] == "in" else u[a, m]) ** occ
            got = arr[i, j]
            if not np.isfinite(got) or abs(got - amp) > 1e-9 + 1e-9 * abs(amp):
                probs.append(f"oracle: amplitude {s_} -> {t} = {got:.12g} but all {k} photons pass through mode {a}: "
                             f"sqrt(k!/prod t!) * prod U^t = {amp:.12g}")
                return probs
    return probs


def replay(ctx: Ctx, path: str) -> None:
    data = json.load(open(path))["replay"]
    if data["case"].get("kind") == "bunch":
        probs = run_bunch(ctx, data["case"])
        ctx.case("replay", True, sample=data["case"])
        for p in probs:
            print("replay:", p)
            ctx.violation(p, data, sig={"kind": "replay"})
        return
    probs = run_case(ctx, data["case"])
    ctx.case("replay", True, sample=data["case"])
    for p in probs:
        print("replay:", p)
        (ctx.violation(p, data, sig={"kind": "replay"}) if p.startswith("oracle") else ctx.disagreement(p, data))
