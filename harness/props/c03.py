"""
C03 — simulator amplitudes are the bosonic Fock-space amplitudes of the circuit.

Model: LW.Model.Fock (fockBasis, partitionIdx, permRC, addHeralds, simulate).  For generated
circuits (heralds with in != out and 0-3 photons, loss, groups) and generated REQUESTS the
implementation's Simulator is compared with the model (amplitudes, order of the input/output lists,
exception class) and with the property's own clauses evaluated on the implementation (oracle):

  * a request is a pair of ARGUMENT SHAPES as the public `Simulator.simulate(inputs, outputs)` accepts
    them — one bare State / a list / a tuple for the inputs, None / one bare State / a list / a tuple
    for the outputs, lists with repeated equal States (the same object or equal-but-distinct objects,
    also shared between the input and the output side), empty lists — crossed with valid states and
    one INVALID state of every kind (too short, too long with empty extra modes, a photon in an extra
    mode, full length including the herald modes / the loss modes, wrong photon number, negative /
    bool / float occupations; wherever possible with the SAME total photon number as the valid states
    so that only the validation of that one state can reject it) in every position (first, middle,
    last; input side and output side);
  * oracle: the request is rejected exactly when a state is invalid (decided by an independent
    predicate on the plain occupation lists; the exception CLASS is compared with the model),
    otherwise the array has one row per input and one column per output in the order given, entry
    (i, j) and result[in, out] equal perm(U_full[out|in]) / sqrt(prod factorials) evaluated
    independently on the implementation's own U_full, plus the unit-vector clause for lossless
    herald-free circuits.

The model takes lists only; a bare State is sent to it as the one-element list (the documented
meaning of that shape).  Tuples are not a documented shape: for them the implementation may also
answer TypeError, but must never compute an invalid request and never return a wrong amplitude.

Histories are part of a case: one Simulator first serves the recorded requests on OTHER circuits
(its circuit is reassigned) and / or the valid form of the same request, then the request under test.

A directed corpus (fixed circuits: lossless, lossy, heralded with 0/1/2/3 photons and in != out
modes, with and without loss) runs first and crosses every shape with every kind of invalid state
in every position; the randomised stream follows.
"""

from __future__ import annotations

import copy
import json
import math
import random
from fractions import Fraction

import numpy as np

import circgen as cg
import fockgen as fg
import lightworks as lw
from core import GQ, Ctx, ddmin, exc_class
from lightworks import emulator

TRUSTED = [
    "Lean 4.33 kernel; axioms subset of {propext, Classical.choice, Quot.sound} (audited on every run)",
    "hand-written model LW.Model.Fock tied to the code by this correspondence check",
    "thewalrus.perm computes the permanent (cross-checked against the model's exact permanent on every case)",
    "float sqrt/factorial normalisation up to rounding (1e-9)",
]
ASSUMPTIONS = ["circuits <= 5 user modes per level, total modes <= 10, <= 4 photons in the correspondence check"]

KINDS = ["short", "long0", "longp", "full", "fullloss", "more", "fewer", "neg", "neg_keep",
         "bool", "bool_all", "float", "float_int", "float_pair"]


def to_state(s):
    return lw.State(list(s))


# --------------------------------------------------------------------------- requests


def is_int(x) -> bool:
    return isinstance(x, int) and not isinstance(x, bool)


def photons_of(s) -> int:
    return sum(x for x in s if is_int(x))


def corrupt(rng, kind: str, side: str, c, nph: int):
    """one invalid state of the given kind for circuit c (None when the kind does not apply);
    kinds keep the total photon number equal to nph whenever that is possible, so that the only
    thing that can reject the request is the validation of this state"""
    im = c.input_modes
    nloss = np.array(c.U_full).shape[0] - c.n_modes
    her = c.heralds["input" if side == "in" else "output"]
    if rng.random() < 0.3:  # the herald layout of the OTHER side (in != out modes)
        her = c.heralds["output" if side == "in" else "input"]
    base = fg.rand_state(rng, im, nph)
    if kind == "short":
        return fg.rand_state(rng, im - 1, nph) if im >= 2 else []
    if kind == "long0":
        return base + [0] * rng.choice([1, 1, 2])
    if kind == "longp":
        if nph == 0:
            return base + [1]
        return fg.rand_state(rng, im, nph - 1) + rng.choice([[1], [1], [0, 1]])
    if kind == "full":
        return fg.add_heralds(base, her) if her else None
    if kind == "fullloss":
        return fg.add_heralds(base, her) + [0] * nloss if nloss else None
    if kind == "more":
        return fg.rand_state(rng, im, nph + 1)
    if kind == "fewer":
        return fg.rand_state(rng, im, nph - 1) if nph >= 1 else None
    if kind == "neg":
        base[rng.randrange(im)] = -rng.choice([1, 1, 2])
        return base
    if kind == "neg_keep":  # total photon number unchanged
        if im < 2:
            return None
        a, b = rng.sample(range(im), 2)
        base = fg.rand_state(rng, im, nph)
        base[b] += base[a] + 1
        base[a] = -1
        return base
    if kind == "bool":  # bool(0)/bool(1) keep the photon number
        a = rng.randrange(im)
        cand = [k for k in range(im) if base[k] <= 1]
        if cand and rng.random() < 0.8:
            a = rng.choice(cand)
            base[a] = bool(base[a])
        else:
            base[a] = True
        return base
    if kind == "bool_all":
        if nph > im:
            return None
        on = set(rng.sample(range(im), nph))
        return [k in on for k in range(im)]
    if kind == "float":
        base[rng.randrange(im)] = rng.choice([0.5, 1.5, -0.5, float("nan")])
        return base
    if kind == "float_int":  # integral float: same value, wrong type
        a = rng.randrange(im)
        base[a] = float(base[a])
        return base
    if kind == "float_pair":  # two halves: the total is still nph
        if im < 2 or nph < 1:
            return None
        base = fg.rand_state(rng, im, nph - 1)
        a, b = rng.sample(range(im), 2)
        base[a] += 0.5
        base[b] += 0.5
        return base
    raise AssertionError(kind)


class Ids:
    def __init__(self, start: int = 0) -> None:
        self.k = start

    def __call__(self) -> int:
        self.k += 1
        return self.k


def add_duplicates(rng, states: list, ids: list, fresh: Ids, times: int) -> None:
    """repeat equal States inside one list: the same object (same id) or an equal new object"""
    for _ in range(times):
        if not states:
            return
        p = rng.randrange(len(states))
        q = rng.randint(0, len(states))
        st, oid = list(states[p]), (ids[p] if rng.random() < 0.5 else fresh())
        states.insert(q, st)
        ids.insert(q, oid)


def gen_request(ctx: Ctx, rng, c, nph: int) -> dict:
    im = c.input_modes
    fresh = Ids()
    n_in = rng.choice([1, 1, 1, 2, 3, 3])
    inputs = [fg.rand_state(rng, im, nph) for _ in range(n_in)]
    in_ids = [fresh() for _ in inputs]
    in_shape = "list"
    if n_in == 1 and rng.random() < 0.5:
        in_shape = "single"
    elif rng.random() < 0.12:
        in_shape = "tuple"
    out_shape = rng.choice(["none", "none", "none", "list", "list", "list", "single", "single", "tuple"])
    outputs = out_ids = None
    if out_shape != "none":
        n_out = 1 if out_shape == "single" else rng.randint(1, 4)
        outputs = [fg.rand_state(rng, im, nph) for _ in range(n_out)]
        out_ids = [fresh() for _ in outputs]
    # repeated equal states (same object / equal object), also across the two sides
    if in_shape != "single" and rng.random() < 0.3:
        add_duplicates(rng, inputs, in_ids, fresh, rng.choice([1, 1, 2]))
    if outputs is not None and out_shape != "single":
        if rng.random() < 0.4:
            add_duplicates(rng, outputs, out_ids, fresh, rng.choice([1, 1, 2]))
        if rng.random() < 0.2:
            p = rng.randrange(len(inputs))
            q = rng.randint(0, len(outputs))
            outputs.insert(q, list(inputs[p]))
            out_ids.insert(q, in_ids[p] if rng.random() < 0.6 else fresh())
    # empty lists
    r = rng.random()
    if r < 0.03 and in_shape == "list":
        inputs, in_ids = [], []
    elif r < 0.06 and out_shape == "list":
        outputs, out_ids = [], []
    case = {"inputs": inputs, "outputs": outputs, "in_shape": in_shape, "out_shape": out_shape,
            "in_ids": in_ids, "out_ids": out_ids, "bad": None}
    # one invalid state
    if rng.random() < 0.3:
        side = rng.choice(["in", "out", "out"])
        kind = rng.choice(KINDS)
        st = corrupt(rng, kind, side, c, nph)
        if st is not None:
            place(rng, case, side, st, fresh, rng.choice(["first", "middle", "last", "only"]), im, nph)
            case["bad"] = f"{side}:{kind}"
    # history: the valid form of the same request goes through the same Simulator first
    if rng.random() < 0.15:
        case["warm"] = True
    return case


def place(rng, case: dict, side: str, st: list, fresh: Ids, where: str, im: int, nph: int) -> None:
    """put the invalid state st into the request (replacing a valid one)"""
    if side == "out" and case["outputs"] is None:
        case["outputs"], case["out_ids"] = [fg.rand_state(rng, im, nph)], [fresh()]
        case["out_shape"] = rng.choice(["single", "single", "list", "list", "tuple"])
    key, ikey, skey = ("inputs", "in_ids", "in_shape") if side == "in" else ("outputs", "out_ids", "out_shape")
    lst, ids = case[key], case[ikey]
    if where == "only" or not lst:
        lst[:], ids[:] = [st], [fresh()]
        return
    if case[skey] != "single" and where == "middle":
        while len(lst) < 3:
            lst.append(fg.rand_state(rng, im, nph))
            ids.append(fresh())
    p = {"first": 0, "last": len(lst) - 1}.get(where, len(lst) // 2)
    lst[p], ids[p] = st, fresh()


def bump_heralds(rng, prog: list) -> list:
    """the tree generator declares heralds with 0-2 photons; raise one of them to 2 or 3"""
    hs = [k for k, op in enumerate(prog) if op[0] == "herald"]
    if not hs or rng.random() >= 0.25:
        return prog
    prog = copy.deepcopy(prog)
    prog[rng.choice(hs)][2] = rng.choice([2, 3, 3])
    return prog


def gen_case(ctx: Ctx, rng) -> dict:
    prog = bump_heralds(rng, fg.gen_circuit(ctx, rng, max_depth=2))
    pool = fg.build_impl(prog)
    c = pool["c1"]
    nph = rng.choice([0, 1, 1, 2, 2, 2, 3, 3, 4] if ctx.thorough else [0, 1, 1, 2, 2, 3])
    # the model's permanent is the n!-term expansion: bound user + herald photons
    cap = 6 if ctx.thorough else 5
    nph = max(0, min(nph, cap - 1 - fg.herald_photons(c)))
    if fg.herald_photons(c) > cap - 1:
        return None
    if c.input_modes == 0:
        return {"prog": prog, "inputs": [[]], "outputs": None, "bad": None}
    case = gen_request(ctx, rng, c, nph)
    case = {"prog": prog, **case}
    # half of the cases go through ONE Simulator that already served the previous one or two requests
    # on OTHER circuits (the circuit is reassigned), so that anything memoised per Simulator / per
    # State across circuits shows up; the history is part of the case, so a replay is self-contained
    recent = ctx.__dict__.setdefault("_recent", [])
    if recent and rng.random() < 0.5:
        case["history"] = recent[-rng.choice([1, 1, 2]):]
    recent.append(request_only(case))
    del recent[:-2]
    return case


REQ_KEYS = ("prog", "inputs", "outputs", "in_shape", "out_shape", "in_ids", "out_ids")


def request_only(case: dict) -> dict:
    return {k: case[k] for k in REQ_KEYS if k in case}


def occ_json(s):
    return [x if is_int(x) else ("b" if isinstance(x, bool) else "f") for x in s]


# --------------------------------------------------------------------------- directed corpus


def corpus_circuits() -> list[tuple[str, list]]:
    F = Fraction
    out = []

    def body(n, lossy):
        ops = [["new", "c1", n],
               cg.op_bs("c1", 0, 1, F(3, 5), F(4, 5), "Rx", (F(12, 13), F(5, 13)) if lossy else None),
               cg.op_bs("c1", 1, 2, F(5, 13), F(12, 13), "H"),
               cg.op_bs("c1", 0, 2, F(8, 17), F(15, 17), "Rx")]
        if n > 3:
            ops.append(cg.op_bs("c1", 2, 3, F(4, 5), F(3, 5), "H", (F(4, 5), F(3, 5)) if lossy else None))
            ops.append(cg.op_bs("c1", 1, 3, F(15, 17), F(8, 17), "Rx"))
        if lossy:
            ops.append(cg.op_loss("c1", 0, F(15, 17), F(8, 17)))
        ops.append(cg.op_bs("c1", 0, 1, F(5, 13), F(12, 13), "Rx"))
        return ops

    out.append(("lossless", body(3, False)))
    out.append(("lossy", body(3, True)))
    for k, lossy, (hi, ho) in [(0, False, (1, 2)), (1, True, (3, 0)), (2, True, (0, 2)), (3, False, (2, 1)), (2, False, (1, 1))]:
        out.append((f"herald{k}{'_lossy' if lossy else ''}", body(4, lossy) + [["herald", "c1", k, hi, ho]]))
    # two heralds (0 and 1 photons) around the user modes
    out.append(("herald0+1_lossy", body(4, True) + [["herald", "c1", 0, 0, 3], ["herald", "c1", 1, 2, 0]]))
    return out


def corpus(ctx: Ctx):
    """every shape x every kind of invalid state x every position, plus the valid shapes with repeated
    states, on the fixed circuits; the structure is fixed, the seed only picks the occupations"""
    rng = random.Random(f"C03-corpus-{ctx.seed}")
    n = 0
    for name, prog in corpus_circuits():
        pool = fg.build_impl(prog)
        c = pool["c1"]
        im = c.input_modes
        nph = max(0, min(2, 4 - fg.herald_photons(c)))
        fresh = Ids(100)

        def valid(k):
            return [fg.rand_state(rng, im, nph) for _ in range(k)]

        def mk(inputs, in_shape, outputs, out_shape, bad=None, in_ids=None, out_ids=None, warm=False):
            return {"prog": prog, "inputs": inputs, "outputs": outputs, "in_shape": in_shape,
                    "out_shape": out_shape, "in_ids": in_ids or [fresh() for _ in inputs],
                    "out_ids": None if outputs is None else (out_ids or [fresh() for _ in outputs]),
                    "bad": bad, "corpus": name, **({"warm": True} if warm else {})}

        # ---- valid requests: all shapes, repeated states
        a, b, d = valid(3)
        x, y, z = valid(3)
        in_forms = [([a], "single", None), ([a], "list", None), ([a, b, d], "list", None),
                    ([a, b, a], "list", [1, 2, 1]), ([a, a, b], "list", [1, 3, 2]), ([a, b], "tuple", None),
                    ([], "list", None)]
        out_forms = [(None, "none", None), ([x], "single", None), ([x], "list", None), ([x, y, z], "list", None),
                     ([x, y, x, z], "list", [11, 12, 11, 13]), ([x, x, y], "list", [11, 14, 12]),
                     ([a, x, a], "list", [1, 11, 1]), ([x, y], "tuple", None), ([], "list", None)]
        for fi in in_forms:
            for fo in out_forms:
                yield mk(list(map(list, fi[0])), fi[1], None if fo[0] is None else list(map(list, fo[0])), fo[1],
                         in_ids=fi[2], out_ids=fo[2])
        # ---- photon-number sweep (vacuum, one photon, all the budget bunched in one mode)
        top = max(0, 4 - fg.herald_photons(c))
        for k in sorted({0, 1, top}):
            if k > top:
                continue
            v = [fg.rand_state(rng, im, k), [k] + [0] * (im - 1), [0] * (im - 1) + [k]]
            yield mk([v[0]], "single", None, "none")
            yield mk([v[1], v[2]], "list", [v[2], v[0], v[1]], "list")
            yield mk([v[2]], "list", [v[1]], "single")
        # ---- one invalid state
        for kind in KINDS:
            for side in ("out", "in"):
                arrangements = [("single", 0, 1), ("list", 0, 1), ("list", 0, 3), ("list", 1, 3), ("list", 2, 3),
                                ("tuple", 1, 2)]
                for shape, pos, ln in arrangements:
                    n += 1
                    st = corrupt(rng, kind, side, c, nph)
                    if st is None:
                        ctx.count(f"corpus:not_applicable:{kind}")
                        continue
                    lst = valid(ln)
                    lst[pos] = st
                    other_n = 1 + (n % 2) * 2
                    if side == "out":
                        yield mk(valid(other_n), "single" if other_n == 1 and n % 4 < 2 else "list", lst, shape,
                                 bad=f"out:{kind}", warm=(n % 5 == 0))
                    else:
                        oshape = ["none", "single", "list"][n % 3]
                        outs = None if oshape == "none" else valid(1 if oshape == "single" else 2)
                        yield mk(lst, shape, outs, oshape, bad=f"in:{kind}", warm=(n % 5 == 0))


def corpus_histories(ctx: Ctx):
    """use -> change the circuit the Simulator works on -> use again: the SAME request (same State
    objects) on two circuits with the same number of user modes but different herald layout / loss"""
    rng = random.Random(f"C03-corpus-hist-{ctx.seed}")
    circs = [(name, prog, fg.build_impl(prog)["c1"]) for name, prog in corpus_circuits()]
    for na, pa, ca in circs:
        for nb, pb, cb in circs:
            if na == nb or ca.input_modes != cb.input_modes:
                continue
            im = ca.input_modes
            nph = max(0, min(2, 4 - max(fg.herald_photons(ca), fg.herald_photons(cb))))
            ins = [fg.rand_state(rng, im, nph) for _ in range(2)]
            for form in range(3):
                outs = [None, [fg.rand_state(rng, im, nph)], [fg.rand_state(rng, im, nph) for _ in range(3)]][form]
                req = {"inputs": ins if form else ins[:1], "outputs": outs,
                       "in_shape": "list" if form else "single", "out_shape": ["none", "single", "list"][form],
                       "in_ids": [1, 2] if form else [1], "out_ids": None if outs is None else [11, 12, 13][:len(outs)]}
                yield {"prog": pb, **req, "bad": None, "corpus": f"{na}->{nb}", "history": [{"prog": pa, **req}]}


# --------------------------------------------------------------------------- one case


def request_validity(im: int, ins: list, outs) -> str:
    """the property's rejection clause on the plain occupation lists (independent of the model)"""
    for side, lst in (("input", ins), ("output", outs or [])):
        for k, s in enumerate(lst):
            if len(s) != im:
                return f"invalid: {side}[{k}]={s} has {len(s)} modes, circuit has {im}"
            for v in s:
                if not is_int(v):
                    return f"invalid: {side}[{k}]={s} has a non-integer occupation"
                if v < 0:
                    return f"invalid: {side}[{k}]={s} has a negative occupation"
    allst = list(ins) + list(outs or [])
    if not ins:
        return "degenerate"  # no input state: nothing to compute and nothing to reject; correspondence only
    if len({sum(s) for s in allst}) > 1:
        return "invalid: photon numbers differ"
    return "valid"


def build_side(states, ids, shape: str, objs: dict):
    if states is None:
        return None
    lst = []
    for k, s in enumerate(states):
        oid = ids[k] if ids and k < len(ids) else None
        if oid is None:
            lst.append(to_state(s))
        else:  # equal id AND equal content -> the same State object
            key = (oid, repr(s))
            if key not in objs:
                objs[key] = to_state(s)
            lst.append(objs[key])
    if shape == "single" and len(lst) == 1:
        return lst[0]
    if shape == "tuple":
        return tuple(lst)
    return lst


def valid_form(c, case: dict):
    """the request with every invalid state replaced by a valid one (for the warm-up call)"""
    im = c.input_modes
    good = [s for s in case["inputs"] + (case["outputs"] or [])
            if len(s) == im and all(is_int(v) and v >= 0 for v in s)]
    nph = sum(good[0]) if good else 0
    rep = good[0] if good else [nph] + [0] * (im - 1)

    def fix(lst):
        return None if lst is None else [s if (len(s) == im and all(is_int(v) and v >= 0 for v in s)
                                                 and sum(s) == nph) else list(rep) for s in lst]

    return fix(case["inputs"]), fix(case["outputs"])


def run_case(ctx: Ctx, case: dict) -> list[str]:
    probs: list[str] = []
    pool = fg.build_impl(case["prog"])
    if "c1" not in pool:
        return probs
    c = pool["c1"]
    if c.input_modes == 0:
        return probs  # fock_basis(0, n) does not terminate in the code; excluded (documented)
    ins, outs = case["inputs"], case["outputs"]
    in_shape, out_shape = case.get("in_shape", "list"), case.get("out_shape", "list")
    has_tuple = "tuple" in (in_shape, out_shape if outs is not None else "")
    shapes = f"inputs as {in_shape}, outputs as {'None' if outs is None else out_shape}"
    res = None
    try:
        # history: the same Simulator first serves the recorded requests on other circuits
        objs: dict = {}
        sim = None
        for h in case.get("history") or []:
            hc = fg.build_impl(h["prog"]).get("c1")
            if hc is None or hc.input_modes == 0:
                continue
            if sim is None:
                sim = emulator.Simulator(hc)
            else:
                sim.circuit = hc
            try:
                sim.simulate(build_side(h["inputs"], h.get("in_ids"), h.get("in_shape", "list"), objs),
                             build_side(h["outputs"], h.get("out_ids"), h.get("out_shape", "list"), objs))
            except Exception:  # noqa: BLE001
                pass
        if sim is None:
            sim = emulator.Simulator(c)
        else:
            sim.circuit = c
        if case.get("warm"):
            wi, wo = valid_form(c, case)
            try:
                sim.simulate(build_side(wi, case.get("in_ids"), "list", objs),
                             build_side(wo, case.get("out_ids"), "list", objs))
            except Exception:  # noqa: BLE001
                pass
        res = sim.simulate(build_side(ins, case.get("in_ids"), in_shape, objs),
                           build_side(outs, case.get("out_ids"), out_shape, objs))
        impl = {"inputs": [s.s for s in res.inputs], "outputs": [s.s for s in res.outputs],
                "array": np.array(res.array)}
    except Exception as e:  # noqa: BLE001
        impl = {"error": exc_class(e)}
    validity = request_validity(c.input_modes, ins, outs)
    a = impl.get("error", "ok")
    # ---- the rejection clause on the implementation alone
    if validity.startswith("invalid") and a == "ok":
        probs.append(f"oracle: invalid request computed instead of rejected ({shapes}): {validity}")
        return probs
    if validity == "valid" and a != "ok" and not (has_tuple and a == "TypeError"):
        probs.append(f"oracle: valid request rejected with {a} ({shapes}): inputs {ins} outputs {outs}")
        return probs
    m = ctx.model.call({"op": "fock", "what": "sim", "prog": case["prog"], "id": "c1",
                        "inputs": [occ_json(s) for s in ins],
                        "outputs": None if outs is None else [occ_json(s) for s in outs]})
    b = m.get("error_class", "ok")
    if validity != "degenerate" and (b == "ok") != (validity == "valid"):
        probs.append(f"corr: model outcome {b} but the rejection clause says the request is {validity}")
        return probs
    if a != "ok" or b != "ok":
        if has_tuple and a == "TypeError":
            ctx.count("tuple:rejected_as_TypeError")
        elif a != b:
            probs.append(f"corr: simulate outcome impl={a} model={b} (malformed={case['bad']}, {shapes})")
        return probs
    if has_tuple:
        ctx.count("tuple:accepted_and_checked")
    # ---- labels and shape of the result
    if impl["inputs"] != [list(s) for s in ins] or (outs is not None and impl["outputs"] != [list(s) for s in outs]):
        probs.append(f"oracle: the result's inputs/outputs {impl['inputs']}/{impl['outputs']} are not the "
                     f"requested ones {ins}/{outs} ({shapes})")
        return probs
    if impl["inputs"] != m["inputs"] or impl["outputs"] != m["outputs"]:
        probs.append("corr: order/content of the result's input/output lists differs from the model")
        return probs
    arr = impl["array"]
    if arr.shape != (len(impl["inputs"]), len(impl["outputs"])):
        probs.append(f"oracle: array shape {arr.shape} for {len(impl['inputs'])} inputs and "
                     f"{len(impl['outputs'])} outputs ({shapes})")
        return probs
    u = np.array(c.U_full)
    hin, hout = c.heralds["input"], c.heralds["output"]
    nloss = u.shape[0] - c.n_modes
    for i, s in enumerate(impl["inputs"]):
        fs = fg.add_heralds(s, hin) + [0] * nloss
        for j, t in enumerate(impl["outputs"]):
            ft = fg.add_heralds(t, hout) + [0] * nloss
            ref = fg.ref_amplitude(u, fs, ft)
            if abs(arr[i, j] - ref) > 1e-9:
                probs.append(f"oracle: amplitude [{i},{j}] {s}->{t} = {arr[i, j]:.6g} but perm(U_full[{ft}|{fs}])/sqrt(fact) = {ref:.6g} ({shapes})")
                return probs
            try:
                got = res[to_state(s), to_state(t)]
            except Exception as e:  # noqa: BLE001
                got = exc_class(e)
            if isinstance(got, str) or abs(got - ref) > 1e-9:
                probs.append(f"oracle: result[{s}, {t}] = {got} but perm(U_full[{ft}|{fs}])/sqrt(fact) = {ref:.6g} ({shapes})")
                return probs
            num, nsq = m["amps"][i][j]
            mv = complex(GQ.parse(num)) / math.sqrt(nsq)
            if abs(arr[i, j] - mv) > 1e-9:
                probs.append(f"corr: amplitude {s}->{t} impl={arr[i, j]:.6g} model={mv:.6g}")
                return probs
    if outs is None and nloss == 0 and not hin and impl["inputs"]:
        for i, s in enumerate(impl["inputs"]):
            nrm = float(np.sum(np.abs(arr[i, :]) ** 2))
            if abs(nrm - 1) > 1e-9:
                probs.append(f"oracle: lossless circuit, amplitudes from {s} have squared norm {nrm}")
        want = sorted(map(tuple, fg.fock_all(c.input_modes, sum(impl["inputs"][0]))))
        if sorted(map(tuple, impl["outputs"])) != want:
            probs.append("oracle: outputs are not exactly the Fock basis of the photon number")
    return probs


# --------------------------------------------------------------------------- run


def shrink_request(ctx: Ctx, case: dict) -> dict:
    """drop states of the request that are not needed for the problem (lists only)"""
    cur = case
    for key, ikey, skey in (("inputs", "in_ids", "in_shape"), ("outputs", "out_ids", "out_shape")):
        if cur.get(key) is None or cur.get(skey, "list") == "single":
            continue
        k = 0
        while k < len(cur[key]) and len(cur[key]) > 1:
            ids = cur.get(ikey) or [None] * len(cur[key])
            cand = {**cur, key: cur[key][:k] + cur[key][k + 1:], ikey: ids[:k] + ids[k + 1:]}
            if run_case(ctx, cand):
                cur = cand
            else:
                k += 1
    if cur.get("warm") and run_case(ctx, {**cur, "warm": False}):
        cur = {**cur, "warm": False}
    while cur.get("history"):
        for k in range(len(cur["history"])):
            cand = {**cur, "history": cur["history"][:k] + cur["history"][k + 1:]}
            if run_case(ctx, cand):
                cur = cand
                break
        else:
            break
    return cur


def handle(ctx: Ctx, case: dict, index: int) -> None:
    probs = run_case(ctx, case)
    prog = case["prog"]
    first = (case["inputs"] or case["outputs"] or [[]])[0]
    nph = photons_of(first)
    nontriv = nph >= 2 and any(op[0] in ("bs", "unitary") for op in prog)
    bad = case.get("bad")
    outs = case["outputs"]
    in_shape = case.get("in_shape", "list")
    out_shape = "none" if outs is None else case.get("out_shape", "list")
    ctx.count("malformed:" + str(bad))
    ctx.count(f"shape:in={in_shape},out={out_shape}")
    if bad:
        side = bad.split(":")[0]
        lst = case["inputs"] if side == "in" else (outs or [])
        shp = in_shape if side == "in" else out_shape
        ctx.count(f"malformed_{side}_as:{shp}{'' if shp == 'single' else ':len' + str(min(len(lst), 3))}")
    ctx.count(f"photons:{nph}")
    if case.get("warm"):
        ctx.count("history:valid_call_first")
    if case.get("history"):
        ctx.count(f"history:simulator_served_{len(case['history'])}_other_circuits_first")
    for key, ikey in (("inputs", "in_ids"), ("outputs", "out_ids")):
        lst, ids = case.get(key) or [], case.get(ikey) or []
        if not lst and case.get(key) is not None:
            ctx.count(f"empty:{key}")
        reps = [(p, q) for p in range(len(lst)) for q in range(p) if repr(lst[p]) == repr(lst[q])]
        if any(ids[p] == ids[q] for p, q in reps if p < len(ids) and q < len(ids)):
            ctx.count(f"repeated_same_object:{key}")
        if any(ids[p] != ids[q] for p, q in reps if p < len(ids) and q < len(ids)):
            ctx.count(f"repeated_equal_object:{key}")
    if outs and set(case.get("in_ids") or []) & set(case.get("out_ids") or []):
        ctx.count("object_shared_between_inputs_and_outputs")
    hs = [op[2] for op in prog if op[0] == "herald"]
    if hs:
        ctx.count("with_heralds")
        ctx.count(f"max_herald_photons:{max(hs)}")
        if any(op[0] == "herald" and op[3] != op[4] for op in prog):
            ctx.count("with_heralds_in!=out")
    if any(fg.is_lossy(op) for op in prog):
        ctx.count("with_loss")
    ctx.case(json.dumps(case, default=str), nontriv, sample=case if index < 2 else None)
    if not probs:
        return
    ctx.count("cases_with_problems")

    def still(sub):
        return cg.well_formed(sub) and bool(run_case(ctx, {**case, "prog": sub}))

    small = ddmin(prog, still)
    scase = shrink_request(ctx, {**case, "prog": small})
    sprobs = run_case(ctx, scase) or probs
    oracle = [p for p in sprobs if p.startswith("oracle")]
    if oracle:
        ctx.violation(oracle[0], {"case": scase, "problems": sprobs}, sig={"kind": oracle[0][8:30]})
    else:
        ctx.disagreement(sprobs[0], {"case": scase, "problems": sprobs})


def run(ctx: Ctx) -> None:
    ctx.rule = ("directed corpus first (fixed lossless / lossy / heralded circuits with 0-3 herald photons, in != out: "
                "every argument shape of simulate(inputs, outputs) — bare State, list, tuple, None, empty, repeated "
                "equal States as same / distinct objects — x every kind of invalid state x position), then circuits "
                "from the C02 tree generator (heralds in != out with 0-3 photons, loss, groups), requests with 0-4 "
                "photons (bunched, vacuum) in random shapes, ~30% with one invalid state; non-trivial = >= 2 photons "
                "in a circuit with a beam splitter or unitary block; distinct = distinct (program, request)")
    k = 0
    for case in corpus(ctx):
        if ctx.out_of_time():
            break
        ctx.count("corpus_cases")
        handle(ctx, case, 10 + k)
        k += 1
    for case in corpus_histories(ctx):
        if ctx.out_of_time():
            break
        ctx.count("corpus_history_cases")
        handle(ctx, case, 10 + k)
        k += 1
    N = ctx.n(220, 5000)
    rng = ctx.rng
    for i in range(N):
        if ctx.out_of_time():
            break
        case = gen_case(ctx, rng)
        if case is None:
            ctx.count("skipped:too_many_herald_photons")
            continue
        handle(ctx, case, i)


def replay(ctx: Ctx, path: str) -> None:
    data = json.load(open(path))["replay"]
    probs = run_case(ctx, data["case"])
    ctx.case("replay", True, sample=data["case"])
    for p in probs:
        print("replay:", p)
        (ctx.violation(p, data, sig={"kind": "replay"}) if p.startswith("oracle") else ctx.disagreement(p, data))
