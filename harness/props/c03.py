"""
C03 — simulator amplitudes are the bosonic Fock-space amplitudes of the circuit.

Model: LW.Model.Fock (fockBasis, partitionIdx, permRC, addHeralds, simulate).  For generated
circuits (heralds with in != out, loss, groups) and generated input/output lists (bunched, vacuum,
malformed) the implementation's Simulator is compared with the model (amplitudes, order of the
input/output lists, exception class) and with the property's own formula evaluated on the
implementation's U_full (oracle), plus the unit-vector clause for lossless herald-free circuits.
"""

from __future__ import annotations

import json
import math

import numpy as np

import circgen as cg
import fockgen as fg
import lightworks as lw
from core import GQ, Ctx, ddmin, exc_class
from lightworks import emulator

TRUSTED = [
    "Lean 4.33 kernel; axioms subset of {propext, Classical.choice, Quot.sound} (audited on every run)",
    "hand-written model LW.Model.Fock tied to the code by this correspondence check",
    "thewalrus.perm computes the permanent (cross-checked against the model's exact permanent on every case)",
    "float sqrt/factorial normalisation up to rounding (1e-9)",
]
ASSUMPTIONS = ["circuits <= 5 user modes per level, total modes <= 10, <= 4 photons in the correspondence check"]


def to_state(s):
    return lw.State(list(s))


def gen_case(ctx: Ctx, rng) -> dict:
    prog = fg.gen_circuit(ctx, rng, max_depth=2)
    pool = fg.build_impl(prog)
    c = pool["c1"]
    im = c.input_modes
    nph = rng.choice([0, 1, 1, 2, 2, 2, 3, 3, 4] if ctx.thorough else [0, 1, 1, 2, 2, 3])
    # the model's permanent is the n!-term expansion: bound user + herald photons
    cap = 6 if ctx.thorough else 5
    nph = max(0, min(nph, cap - 1 - fg.herald_photons(c)))
    if fg.herald_photons(c) > cap - 1:
        return None
    n_in = rng.choice([1, 1, 2, 3])
    inputs = [fg.rand_state(rng, im, nph) for _ in range(n_in)]
    outputs = None
    if rng.random() < 0.4:
        outputs = [fg.rand_state(rng, im, nph) for _ in range(rng.randint(1, 4))]
    bad = None
    if rng.random() < 0.2:
        bad = rng.choice(["len", "neg", "float", "bool", "photons_in", "photons_out", "out_len", "out_neg"])
        if bad == "len":
            inputs[-1] = inputs[-1] + [0]
        elif bad == "neg" and im:
            inputs[0][rng.randrange(im)] = -1
        elif bad == "float" and im:
            inputs[0][rng.randrange(im)] = 0.5
        elif bad == "bool" and im:
            inputs[0][rng.randrange(im)] = True
        elif bad == "photons_in":
            inputs.append(fg.rand_state(rng, im, nph + 1))
        elif bad == "photons_out":
            outputs = [fg.rand_state(rng, im, nph + 1)]
        elif bad == "out_len":
            outputs = [fg.rand_state(rng, im + 1, nph)]
        elif bad == "out_neg" and im:
            outputs = [fg.rand_state(rng, im, nph)]
            outputs[0][0] = -2
    return {"prog": prog, "inputs": inputs, "outputs": outputs, "bad": bad, "shared_sim": rng.random() < 0.5}


def occ_json(s):
    return [x if isinstance(x, int) and not isinstance(x, bool) else ("b" if isinstance(x, bool) else "f") for x in s]


def run_case(ctx: Ctx, case: dict) -> list[str]:
    probs: list[str] = []
    pool = fg.build_impl(case["prog"])
    if "c1" not in pool:
        return probs
    c = pool["c1"]
    if c.input_modes == 0:
        return probs  # fock_basis(0, n) does not terminate in the code; excluded (documented)
    ins, outs = case["inputs"], case["outputs"]
    try:
        # half of the cases go through ONE long-lived Simulator whose circuit is reassigned, so that
        # anything memoised per object across circuits shows up
        if case.get("shared_sim"):
            sim = getattr(ctx, "_shared_sim", None)
            if sim is None:
                sim = emulator.Simulator(c)
                ctx._shared_sim = sim
            sim.circuit = c
        else:
            sim = emulator.Simulator(c)
        res = sim.simulate([to_state(s) for s in ins],
                                             None if outs is None else [to_state(s) for s in outs])
        impl = {"inputs": [s.s for s in res.inputs], "outputs": [s.s for s in res.outputs],
                "array": np.array(res.array)}
    except Exception as e:  # noqa: BLE001
        impl = {"error": exc_class(e)}
    m = ctx.model.call({"op": "fock", "what": "sim", "prog": case["prog"], "id": "c1",
                        "inputs": [occ_json(s) for s in ins],
                        "outputs": None if outs is None else [occ_json(s) for s in outs]})
    if "error" in impl or "error_class" in m:
        a, b = impl.get("error", "ok"), m.get("error_class", "ok")
        if a != b:
            kind = "oracle" if (case["bad"] and a == "ok") else "corr"
            probs.append(f"{kind}: simulate outcome impl={a} model={b} (malformed={case['bad']})")
        return probs
    if impl["inputs"] != m["inputs"] or impl["outputs"] != m["outputs"]:
        probs.append("corr: order/content of the result's input/output lists differs from the model")
        return probs
    u = np.array(c.U_full)
    hin, hout = c.heralds["input"], c.heralds["output"]
    nloss = u.shape[0] - c.n_modes
    arr = impl["array"]
    for i, s in enumerate(impl["inputs"]):
        fs = fg.add_heralds(s, hin) + [0] * nloss
        for j, t in enumerate(impl["outputs"]):
            ft = fg.add_heralds(t, hout) + [0] * nloss
            ref = fg.ref_amplitude(u, fs, ft)
            if abs(arr[i, j] - ref) > 1e-9:
                probs.append(f"oracle: amplitude {s}->{t} = {arr[i, j]:.6g} but perm(U_full[{ft}|{fs}])/sqrt(fact) = {ref:.6g}")
                return probs
            num, nsq = m["amps"][i][j]
            mv = complex(GQ.parse(num)) / math.sqrt(nsq)
            if abs(arr[i, j] - mv) > 1e-9:
                probs.append(f"corr: amplitude {s}->{t} impl={arr[i, j]:.6g} model={mv:.6g}")
                return probs
    if outs is None and nloss == 0 and not hin:
        for i, s in enumerate(impl["inputs"]):
            nrm = float(np.sum(np.abs(arr[i, :]) ** 2))
            if abs(nrm - 1) > 1e-9:
                probs.append(f"oracle: lossless circuit, amplitudes from {s} have squared norm {nrm}")
        want = sorted(map(tuple, fg.fock_all(c.input_modes, sum(impl["inputs"][0]))))
        if sorted(map(tuple, impl["outputs"])) != want:
            probs.append("oracle: outputs are not exactly the Fock basis of the photon number")
    return probs


def run(ctx: Ctx) -> None:
    ctx.rule = ("circuits from the C02 tree generator (heralds in != out, loss, groups), inputs with 0-4 photons "
                "(bunched, vacuum), explicit output lists or None, ~20% malformed; non-trivial = >= 2 photons in a "
                "circuit with a beam splitter or unitary block; distinct = distinct (program, inputs, outputs)")
    N = ctx.n(220, 5000)
    rng = ctx.rng
    for i in range(N):
        if ctx.out_of_time():
            break
        case = gen_case(ctx, rng)
        if case is None:
            ctx.count("skipped:too_many_herald_photons")
            continue
        probs = run_case(ctx, case)
        prog = case["prog"]
        nph = sum(x for x in case["inputs"][0] if isinstance(x, int) and not isinstance(x, bool))
        nontriv = nph >= 2 and any(op[0] in ("bs", "unitary") for op in prog)
        ctx.count("malformed:" + str(case["bad"]))
        ctx.count(f"photons:{nph}")
        if any(op[0] == "herald" for op in prog):
            ctx.count("with_heralds")
        if any(fg.is_lossy(op) for op in prog):
            ctx.count("with_loss")
        ctx.case(json.dumps(case, default=str), nontriv, sample=case if i < 2 else None)
        if probs:
            ctx.count("cases_with_problems")

            def still(sub):
                return cg.well_formed(sub) and bool(run_case(ctx, {**case, "prog": sub}))

            small = ddmin(prog, still)
            scase = {**case, "prog": small}
            sprobs = run_case(ctx, scase) or probs
            oracle = [p for p in sprobs if p.startswith("oracle")]
            if oracle:
                ctx.violation(oracle[0], {"case": scase, "problems": sprobs}, sig={"kind": oracle[0][8:30]})
            else:
                ctx.disagreement(sprobs[0], {"case": scase, "problems": sprobs})


def replay(ctx: Ctx, path: str) -> None:
    data = json.load(open(path))["replay"]
    probs = run_case(ctx, data["case"])
    ctx.case("replay", True, sample=data["case"])
    for p in probs:
        print("replay:", p)
        (ctx.violation(p, data, sig={"kind": "replay"}) if p.startswith("oracle") else ctx.disagreement(p, data))
