"""
C18 — State values behave as immutable Fock states; herald bookkeeping round-trips.

Model: LW.Model.StateVal (State, AState, client/alias world, addHeralds/removeHeralds, dbToDec/decToDb,
processSeed, permRows).  Theorems: LW/Properties/C18.lean.

Five case kinds, all generated from ctx.rng and replayable from their JSON form:
  state    a State and a list of API queries (counts, str, int / slice subscripts, +, merge, ==,
           refused assignments, client programs that mutate everything the API hands out)
  astate   the same for AnnotatedState (label lists in arbitrary order, non-list elements)
  heralds  add_heralds_to_state / remove_heralds_from_state for dictionaries in any key order,
           out-of-range keys, arbitrary removal lists
  db       db_loss_to_decimal / decimal_to_db_loss on exact (x, 10^(-|x|/10)) pairs and the guard
  rand     random_permutation / random_unitary for every kind of seed
Every case is run on lightworks and on the model (corr: differences) and the clauses of the property
are evaluated on the implementation against plain Python list semantics (oracle: failures).
"""

from __future__ import annotations

import json
import math
import warnings
from fractions import Fraction

import numpy as np

import lightworks as lw
from core import Ctx, ddmin, frac_str
from lightworks.emulator.state import AnnotatedState
from lightworks.sdk.utils.conversion import db_loss_to_decimal, decimal_to_db_loss
from lightworks.sdk.utils.heralding_utils import add_heralds_to_state, remove_heralds_from_state
from lightworks.sdk.utils.random_utils import random_permutation, random_unitary

State = lw.State

TRUSTED = [
    "Lean 4.33 kernel; Mathlib v4.33 as compiled on this image",
    "axioms: subset of {propext, Classical.choice, Quot.sound} (audited per theorem on every run)",
    "hand-written model LW.Model.StateVal tied to the code by this correspondence check",
    "Python list/dict/str/hash semantics (list indexing and slicing are re-modelled and compared on every case)",
    "scipy.stats.unitary_group.rvs returns a unitary (validated to 1e-9 on every generated call, not modelled)",
    "numpy Generator.permutation: rows of the identity are permuted like range(N) with the same seed "
    "(self-tested on every run before it is relied upon)",
    "float evaluation of 10**x and log10 up to rounding (tolerance 1e-9 + conditioning term)",
    "driver JSON parser and harness comparison code",
]
ASSUMPTIONS = [
    "correspondence check: states <= 9 (thorough 14) modes, occupations in [-3, 14], <= 5 labels per mode, <= 4 (7) heralds, "
    "N <= 7 (10) for random matrices (theorems are unbounded)",
    "dB round trip checked for |x| <= 60 dB with tolerance 1e-9 + 4e-15 * 10^(|x|/10) (float conditioning of 1 - 10^(-x/10))",
    "mutation of the list object passed to State(...) by its owner is not counted as mutation through the State API",
]

# exception class that `Err.other` ("Exception") stands for, per operation
OTHER = {"getitem": "IndexError", "set_s": "AnnotatedStateError", "set_n_modes": "AnnotatedStateError",
         "set_item": "AnnotatedStateError", "add_heralds": "IndexError", "remove_heralds": "IndexError"}


def mres(r: dict, op: str):
    """normalise a model outcome {"ok": v} / {"err": cls}"""
    if "err" in r:
        cls = r["err"]
        return ("err", OTHER.get(op, cls) if cls == "Exception" else cls)
    return ("ok", r["ok"])


def ires(f):
    """run f on the implementation -> ("ok", value) / ("err", class)"""
    try:
        return ("ok", f())
    except Exception as e:  # noqa: BLE001
        return ("err", type(e).__name__)


# ------------------------------------------------------------------------------------- generators


SIZE = {"big": False}  # thorough tier: larger states / dictionaries / matrices


def gen_occ(rng, n=None, wide=False) -> list:
    n = rng.randint(0, 14 if SIZE["big"] else 9) if n is None else n
    lo, hi = (-3, 14) if wide else (0, 4)
    return [rng.choice([0, 0, 1, 1, 2, rng.randint(lo, hi)]) for _ in range(n)]


def gen_slice(rng, n: int, malformed: bool) -> list:
    def b():
        return None if rng.random() < 0.3 else rng.randint(-n - 3, n + 3)

    step = rng.choice([None, None, 1, 1, 2, 3, -1, -1, -2, -3])
    if malformed:
        step = 0
    return [b(), b(), step]


def gen_client(rng, n_rows: int, annotated: bool, malformed: bool) -> list:
    """a client program: read values through the API and mutate whatever was handed out"""
    ops = []
    handles = 0
    for _ in range(rng.randint(1, 6)):
        r = rng.random()
        if r < 0.3:
            ops.append(["readS"])
            handles += n_rows if annotated else 1
        elif r < 0.55 and annotated:
            i = rng.randint(-n_rows - 1, n_rows) if malformed else (rng.randint(-n_rows, n_rows - 1) if n_rows else 0)
            ops.append(["getRow", i])
            if n_rows and -n_rows <= i < n_rows:
                handles += 1
        elif r < 0.65:
            ops.append([rng.choice(["setS", "setNModes", "setItem"])])
        elif r < 0.7:
            ops.append(["slice", *gen_slice(rng, n_rows, False)])
        elif handles:
            ops.append(["append", rng.randrange(handles), rng.randint(0, 9)])
    return ops


def gen_state_case(ctx: Ctx, rng) -> dict:
    wide = rng.random() < 0.3
    s = gen_occ(rng, wide=wide)
    n = len(s)
    qs = []
    for _ in range(rng.randint(2, 8)):
        bad = rng.random() < 0.15
        r = rng.random()
        if r < 0.12:
            qs.append([rng.choice(["n_photons", "n_modes", "len", "s", "iter", "str"])])
        elif r < 0.27:
            qs.append(["getitem", rng.randint(-n - 2, n + 1) if bad or not n else rng.randint(-n, n - 1)])
        elif r < 0.45:
            qs.append(["slice", *gen_slice(rng, n, bad)])
        elif r < 0.57:
            qs.append(["add", gen_occ(rng, wide=wide)])
        elif r < 0.72:
            qs.append(["merge", gen_occ(rng, n=n + (rng.choice([-1, 1, 2]) if bad else 0) if n or not bad else 1, wide=wide)])
        elif r < 0.86:
            o = list(s)
            if o and rng.random() < 0.6:
                k = rng.randrange(len(o))
                o[k] += rng.choice([0, 0, 1, -1, 10])
            elif rng.random() < 0.5:
                o = o + [0]
            qs.append([rng.choice(["eq", "str_eq"]), o])
        elif r < 0.92:
            qs.append([rng.choice(["set_s", "set_n_modes", "set_item"])])
        else:
            qs.append(["client", gen_client(rng, 1, False, bad)])
    return {"kind": "state", "s": s, "q": qs}


def gen_rows(rng, n=None) -> list:
    n = rng.randint(0, 9 if SIZE["big"] else 6) if n is None else n
    return [[rng.randint(-2, 6) for _ in range(rng.choice([0, 0, 1, 1, 2, 3, 5]))] for _ in range(n)]


def gen_astate_case(ctx: Ctx, rng) -> dict:
    rows = gen_rows(rng)
    n = len(rows)
    if rng.random() < 0.08:
        rows = list(rows) + [None]
        rng.shuffle(rows)
        return {"kind": "astate", "rows": rows, "q": []}
    qs = []
    for _ in range(rng.randint(2, 8)):
        bad = rng.random() < 0.15
        r = rng.random()
        if r < 0.12:
            qs.append([rng.choice(["n_photons", "n_modes", "len", "s", "iter", "str"])])
        elif r < 0.25:
            qs.append(["getitem", rng.randint(-n - 2, n + 1) if bad or not n else rng.randint(-n, n - 1)])
        elif r < 0.4:
            qs.append(["slice", *gen_slice(rng, n, bad)])
        elif r < 0.5:
            qs.append(["add", gen_rows(rng)])
        elif r < 0.63:
            qs.append(["merge", gen_rows(rng, n=max(0, n + (rng.choice([-1, 1, 2]) if bad else 0)))])
        elif r < 0.78:
            o = [list(x) for x in rows]
            for x in o:
                rng.shuffle(x)
            if o and rng.random() < 0.5:
                k = rng.randrange(len(o))
                if o[k] and rng.random() < 0.5:
                    o[k][rng.randrange(len(o[k]))] += 1
                else:
                    o[k].append(rng.randint(0, 3))
            qs.append([rng.choice(["eq", "str_eq"]), o])
        elif r < 0.84:
            qs.append([rng.choice(["set_s", "set_n_modes", "set_item"])])
        else:
            qs.append(["client", gen_client(rng, n, True, bad)])
    return {"kind": "astate", "rows": rows, "q": qs}


def gen_heralds_case(ctx: Ctx, rng) -> dict:
    s = gen_occ(rng, n=rng.randint(0, 10 if SIZE["big"] else 7))
    nh = rng.choice([0, 1, 1, 2, 2, 3, 4] + ([5, 6, 7] if SIZE["big"] else []))
    n = len(s) + nh
    keys = rng.sample(range(n), nh)  # any key order: the dictionary is built in this order
    if nh and rng.random() < 0.15:
        keys[rng.randrange(nh)] = rng.choice([n, n + 2, -1, -n - 1])  # out of range
        if len(set(keys)) != nh:
            keys = list(dict.fromkeys(keys))
    h = [[k, rng.randint(0, 3)] for k in keys]
    m = rng.choice([0, 1, 2, 3])
    if rng.random() < 0.8 and len(s) >= m:
        modes = rng.sample(range(len(s)), m)
    else:
        modes = [rng.randint(-len(s) - 1, len(s) + 1) for _ in range(m)]  # repeats, negatives, out of range
    return {"kind": "heralds", "s": s, "h": h, "modes": modes, "as_state": rng.random() < 0.5}


def gen_db_case(ctx: Ctx, rng) -> dict:
    r = rng.random()
    if r < 0.2:
        # the guard of decimal_to_db_loss
        l = rng.choice([Fraction(1), Fraction(-1, 8), Fraction(5, 4), Fraction(-3), Fraction(1) + Fraction(1, 2 ** 40),
                        Fraction(-1, 2 ** 60), Fraction(0)])
        return {"kind": "db", "mode": "guard", "l": frac_str(l)}
    if r < 0.6:
        # exact pair: transmission p in (0, 1] rational, dB value x = -10 log10 p
        den = rng.choice([1, 2, 4, 5, 8, 10, 16, 100, 1000, 10 ** 5])
        p = Fraction(rng.randint(1, den), den)
        return {"kind": "db", "mode": "pair", "p": frac_str(p), "neg": rng.random() < 0.5}
    # round trips on arbitrary floats
    x = rng.choice([0.0, rng.uniform(0, 3), rng.uniform(0, 60), -rng.uniform(0, 60), float(rng.randint(0, 40))])
    return {"kind": "db", "mode": "round", "x": x}


SEED_KINDS = ["int", "int", "int", "none", "bool", "float_int", "float_frac", "np_int", "np_float", "str", "nan", "bigint", "negint"]


def gen_rand_case(ctx: Ctx, rng) -> dict:
    return {"kind": "rand", "N": rng.randint(1, 10 if SIZE["big"] else 7), "seed_kind": rng.choice(SEED_KINDS), "v": rng.randint(0, 2 ** 20)}


def make_seed(kind: str, v: int):
    """-> (python seed object, model seed spec)"""
    if kind == "int":
        return v, {"t": "int", "v": v}
    if kind == "bigint":
        return v + 2 ** 70, {"t": "int", "v": v + 2 ** 70}
    if kind == "negint":
        return -v - 1, {"t": "int", "v": -v - 1}
    if kind == "none":
        return None, {"t": "none"}
    if kind == "bool":
        return bool(v % 2), {"t": "bool", "v": bool(v % 2)}
    if kind == "float_int":
        return float(v), {"t": "real", "v": str(v)}
    if kind == "float_frac":
        return v + 0.5, {"t": "real", "v": frac_str(Fraction(2 * v + 1, 2))}
    if kind == "np_int":
        return np.int64(v), {"t": "real", "v": str(v)}
    if kind == "np_float":
        return np.float64(v), {"t": "real", "v": str(v)}
    if kind == "str":
        return str(v), {"t": "other"}
    if kind == "nan":
        return float("nan"), {"t": "other"}
    raise ValueError(kind)


# ------------------------------------------------------------------------------------- runners


def py_getitem(l, i):
    return ires(lambda: l[i])


def sl(a):
    return slice(a[0], a[1], a[2])


def run_state(ctx: Ctx, case: dict) -> list[str]:
    probs: list[str] = []
    s = list(case["s"])
    st = State(list(s))
    model = ctx.model.call({"op": "sv", "kind": "state", "s": s, "q": case["q"]})
    h0 = hash(st)
    for q, mq in zip(case["q"], model):
        name = q[0]
        ctx.count("state:" + name)
        m = mres(mq, name)
        exp = None  # what plain Python list semantics say
        if name == "n_photons":
            got, exp = ires(lambda: st.n_photons), ("ok", sum(s))
        elif name == "n_modes":
            got, exp = ires(lambda: st.n_modes), ("ok", len(s))
        elif name == "len":
            got, exp = ires(lambda: len(st)), ("ok", len(s))
        elif name == "s":
            got, exp = ires(lambda: st.s), ("ok", s)
        elif name == "iter":
            got, exp = ires(lambda: list(st)), ("ok", s)
        elif name == "str":
            got, exp = ires(lambda: str(st)), ("ok", "|" + ",".join(map(str, s)) + ">" if s else ">")
            if got[0] == "ok" and repr(st) != f"lightworks.State({got[1]})":
                probs.append("oracle: repr(State) is not built from str(State)")
        elif name == "validate":
            got = ires(lambda: st._validate())
            exp = ("err", "ValueError") if any(x < 0 for x in s) else ("ok", None)
        elif name == "getitem":
            got, exp = ires(lambda: st[q[1]]), py_getitem(s, q[1])
            ctx.count("state:getitem:" + ("neg" if q[1] < 0 else "nonneg") + (":err" if exp[0] == "err" else ""))
        elif name == "slice":
            r = ires(lambda: st[sl(q[1:])])
            exp = ires(lambda: s[sl(q[1:])])
            if r[0] == "ok":
                if not isinstance(r[1], State):
                    probs.append(f"oracle: State[{q[1:]}] is not a State")
                    continue
                got = ("ok", r[1].s)
                if r[1].n_modes != len(got[1]) or r[1].n_photons != sum(got[1]):
                    probs.append("oracle: counts of a sliced State are inconsistent with its contents")
            else:
                got = r
            if q[3] is not None and q[3] < 0:
                ctx.count("state:slice:negstep")
            if exp[0] == "ok" and not exp[1]:
                ctx.count("state:slice:empty")
        elif name == "add":
            o = State(list(q[1]))
            r = ires(lambda: st + o)
            got = ("ok", r[1].s) if r[0] == "ok" else r
            exp = ("ok", s + q[1])
            if r[0] == "ok":
                if r[1].n_photons != st.n_photons + o.n_photons or r[1].n_modes != st.n_modes + o.n_modes:
                    probs.append("oracle: counts are not additive under +")
                third = State([1, 0, 2])
                if not ((st + o) + third == st + (o + third)):
                    probs.append("oracle: + is not associative")
                if r[1][: len(s)] != st or r[1][len(s):] != o:
                    probs.append("oracle: slices of a + b do not give back a and b")
        elif name == "merge":
            o = State(list(q[1]))
            r = ires(lambda: st.merge(o))
            got = ("ok", r[1].s) if r[0] == "ok" else r
            exp = ("ok", [a + b for a, b in zip(s, q[1])]) if len(s) == len(q[1]) else ("err", "ValueError")
            r2 = ires(lambda: o.merge(st))
            if (r[0], r2[0]) == ("ok", "ok"):
                if r[1] != r2[1]:
                    probs.append("oracle: merge is not commutative")
                if r[1].n_photons != st.n_photons + o.n_photons:
                    probs.append("oracle: photon number is not additive under merge")
                if st.merge(o).merge(o) != st.merge(o.merge(o)):
                    probs.append("oracle: merge is not associative")
            elif r[0] != r2[0]:
                probs.append("oracle: merge accepted in one order and refused in the other")
            ctx.count("state:merge:" + exp[0])
        elif name in ("eq", "str_eq"):
            o = State(list(q[1]))
            same = s == q[1]
            ctx.count("state:eq:" + ("equal" if same else "different"))
            if name == "eq":
                got, exp = ires(lambda: st == o), ("ok", same)
                if (st != o) == (st == o):
                    probs.append("oracle: == and != agree")
            else:
                got, exp = ires(lambda: str(st) == str(o)), ("ok", same)
            if same and hash(st) != hash(o):
                probs.append("oracle: equal States hash differently")
            if same and ({st: 1}.get(o) != 1 or o not in {st}):
                probs.append("oracle: an equal State is not found as a dict/set key")
            if not same and st == o:
                probs.append("oracle: States with different occupations compare equal")
            if st == s or st == tuple(s):
                probs.append("oracle: a State compares equal to a plain sequence")
        elif name in ("set_s", "set_n_modes", "set_item"):
            def do():
                if name == "set_s":
                    st.s = [9]
                elif name == "set_n_modes":
                    st.n_modes = 7
                else:
                    st[0] = 9
            got, exp = ires(do), ("err", "StateError")
        elif name == "client":
            handles = []
            for op in q[1]:
                try:
                    if op[0] == "readS":
                        handles.append(st.s if len(handles) % 2 == 0 else list(st))
                    elif op[0] == "append" and op[1] < len(handles):
                        handles[op[1]].append(op[2])
                    elif op[0] == "setS":
                        st.s = [1]
                    elif op[0] == "setNModes":
                        st.n_modes = 1
                    elif op[0] == "setItem":
                        st[0] = 5
                    elif op[0] == "slice":
                        st[sl(op[1:])].s.append(4)
                except Exception:  # noqa: BLE001
                    pass
            got, exp = ires(lambda: st.s), ("ok", s)
            if any(op[0] == "append" for op in q[1]):
                ctx.count("state:client:mutated-a-returned-list")
        else:
            raise ValueError(name)
        if exp is not None and got != exp:
            probs.append(f"oracle: State({s}) {q}: got {got}, list semantics say {exp}")
        if got != m:
            probs.append(f"corr: State({s}) {q}: impl={got} model={m}")
        # the value never changes, whatever was called
        if st.s != s or hash(st) != h0:
            probs.append(f"oracle: State({s}) changed to {st.s} after {q}")
            break
    return probs


def run_astate(ctx: Ctx, case: dict) -> list[str]:
    probs: list[str] = []
    rows = case["rows"]
    arg = [list(r) if r is not None else (1, 2) for r in rows]  # a tuple stands for "not a list"
    snapshot = [list(r) if isinstance(r, list) else r for r in arg]
    model = ctx.model.call({"op": "sv", "kind": "astate", "rows": rows, "q": case["q"]})
    r = ires(lambda: AnnotatedState(arg))
    if arg != snapshot:
        probs.append("oracle: AnnotatedState(...) modified the lists passed to it")
    exp_new = ("err", "TypeError") if any(x is None for x in rows) else ("ok", [sorted(x) for x in rows])
    got_new = ("ok", r[1].s) if r[0] == "ok" else r
    if got_new != exp_new:
        probs.append(f"oracle: AnnotatedState({rows}): got {got_new}, expected {exp_new}")
    if got_new != mres(model["new"], "new"):
        probs.append(f"corr: AnnotatedState({rows}): impl={got_new} model={mres(model['new'], 'new')}")
    if r[0] != "ok" or "q" not in model:
        ctx.count("astate:new:rejected")
        return probs
    st = r[1]
    srt = [sorted(x) for x in rows]
    h0 = hash(st)
    # label order is irrelevant
    rev = AnnotatedState([list(reversed(x)) for x in rows])
    if rev != st or hash(rev) != h0 or str(rev) != str(st):
        probs.append("oracle: AnnotatedState depends on the order of the labels within a mode")
    # constructor argument is not retained
    for x in arg:
        x.append(99)
    if st.s != srt:
        probs.append("oracle: AnnotatedState shares the label lists passed to its constructor")
    for q, mq in zip(case["q"], model["q"]):
        name = q[0]
        ctx.count("astate:" + name)
        m = mres(mq, name)
        exp = None
        if name == "n_photons":
            got, exp = ires(lambda: st.n_photons), ("ok", sum(len(x) for x in rows))
        elif name == "n_modes":
            got, exp = ires(lambda: st.n_modes), ("ok", len(rows))
        elif name == "len":
            got, exp = ires(lambda: len(st)), ("ok", len(rows))
        elif name == "s":
            got, exp = ires(lambda: st.s), ("ok", srt)
        elif name == "iter":
            got, exp = ires(lambda: [list(x) for x in st]), ("ok", srt)
        elif name == "str":
            got = ires(lambda: str(st))
            body = ",".join((f"{len(x)}:(" + ",".join(map(str, x)) + ")") if x else "0" for x in srt)
            exp = ("ok", "|" + body + ">" if srt else ">")
        elif name == "getitem":
            rr = ires(lambda: st[q[1]])
            got = ("ok", list(rr[1])) if rr[0] == "ok" else rr
            exp = py_getitem(srt, q[1])
        elif name == "slice":
            rr = ires(lambda: st[sl(q[1:])])
            exp = ires(lambda: srt[sl(q[1:])])
            if rr[0] == "ok":
                if not isinstance(rr[1], AnnotatedState):
                    probs.append("oracle: a slice of an AnnotatedState is not an AnnotatedState")
                    continue
                got = ("ok", rr[1].s)
                if rr[1].n_modes != len(got[1]) or rr[1].n_photons != sum(len(x) for x in got[1]):
                    probs.append("oracle: counts of a sliced AnnotatedState are inconsistent")
            else:
                got = rr
        elif name == "add":
            o = AnnotatedState([list(x) for x in q[1]])
            rr = ires(lambda: st + o)
            got = ("ok", rr[1].s) if rr[0] == "ok" else rr
            exp = ("ok", srt + [sorted(x) for x in q[1]])
            if rr[0] == "ok":
                third = AnnotatedState([[2, 1], []])
                if (st + o) + third != st + (o + third):
                    probs.append("oracle: + of AnnotatedStates is not associative")
                if rr[1].n_photons != st.n_photons + o.n_photons or rr[1].n_modes != st.n_modes + o.n_modes:
                    probs.append("oracle: counts are not additive under + (AnnotatedState)")
        elif name == "merge":
            o = AnnotatedState([list(x) for x in q[1]])
            rr = ires(lambda: st.merge(o))
            got = ("ok", rr[1].s) if rr[0] == "ok" else rr
            exp = ("ok", [sorted(a + b) for a, b in zip(rows, q[1])]) if len(rows) == len(q[1]) else ("err", "ValueError")
            r2 = ires(lambda: o.merge(st))
            if (rr[0], r2[0]) == ("ok", "ok"):
                if rr[1] != r2[1] or hash(rr[1]) != hash(r2[1]):
                    probs.append("oracle: merge of AnnotatedStates is not commutative")
                if rr[1].n_photons != st.n_photons + o.n_photons:
                    probs.append("oracle: photon number is not additive under merge (AnnotatedState)")
                if st.merge(o).merge(o) != st.merge(o.merge(o)):
                    probs.append("oracle: merge of AnnotatedStates is not associative")
            elif rr[0] != r2[0]:
                probs.append("oracle: merge accepted in one order and refused in the other (AnnotatedState)")
            ctx.count("astate:merge:" + exp[0])
        elif name in ("eq", "str_eq"):
            o = AnnotatedState([list(x) for x in q[1]])
            same = srt == [sorted(x) for x in q[1]]
            ctx.count("astate:eq:" + ("equal-as-multisets" if same else "different"))
            if name == "eq":
                got, exp = ires(lambda: st == o), ("ok", same)
            else:
                got, exp = ires(lambda: str(st) == str(o)), ("ok", same)
            if same and hash(st) != hash(o):
                probs.append("oracle: equal AnnotatedStates hash differently")
            if same and {st: 1}.get(o) != 1:
                probs.append("oracle: an equal AnnotatedState is not found as a dict key")
        elif name in ("set_s", "set_n_modes", "set_item"):
            def do():
                if name == "set_s":
                    st.s = [[9]]
                elif name == "set_n_modes":
                    st.n_modes = 7
                else:
                    st[0] = [9]
            got, exp = ires(do), ("err", "AnnotatedStateError")
        elif name == "client":
            handles: list = []
            aliased = False
            for op in q[1]:
                try:
                    if op[0] == "readS":
                        handles.extend(st.s if len(handles) % 2 == 0 else list(st))
                    elif op[0] == "getRow":
                        handles.append(st[op[1]])
                    elif op[0] == "append" and op[1] < len(handles):
                        handles[op[1]].append(op[2])
                    elif op[0] == "setS":
                        st.s = [[1]]
                    elif op[0] == "setNModes":
                        st.n_modes = 1
                    elif op[0] == "setItem":
                        st[0] = [5]
                    elif op[0] == "slice":
                        for x in st[sl(op[1:])].s:
                            x.append(4)
                except Exception:  # noqa: BLE001
                    pass
            got, exp = ires(lambda: st.s), ("ok", srt)
            if any(op[0] == "getRow" for op in q[1]) and any(op[0] == "append" for op in q[1]):
                ctx.count("astate:client:appended-after-getitem")
                aliased = True
            if got != exp:
                kind = "obj[i] hands out the internal label list" if aliased else "a value handed out by the API aliases the state"
                probs.append(f"oracle: AnnotatedState({srt}) changed to {got[1] if got[0] == 'ok' else got} by client code "
                             f"that only used values returned by the API ({kind}): {q[1]}")
                if got != m:
                    probs.append(f"corr: AnnotatedState({srt}) {q}: impl={got} model={m}")
                break
        else:
            raise ValueError(name)
        if exp is not None and got != exp:
            probs.append(f"oracle: AnnotatedState({srt}) {q}: got {got}, expected {exp}")
        if got != m:
            probs.append(f"corr: AnnotatedState({srt}) {q}: impl={got} model={m}")
        if st.s != srt or hash(st) != h0:
            probs.append(f"oracle: AnnotatedState({srt}) changed to {st.s} after {q}")
            break
    return probs


def run_heralds(ctx: Ctx, case: dict) -> list[str]:
    probs: list[str] = []
    s, hl, modes = list(case["s"]), case["h"], list(case["modes"])
    h = {k: v for k, v in hl}
    n = len(s) + len(h)
    arg = State(list(s)) if case.get("as_state") else list(s)
    model = ctx.model.call({"op": "sv", "kind": "heralds", "s": s, "h": [[k, v] for k, v in h.items()], "modes": modes})
    got = ires(lambda: add_heralds_to_state(arg, dict(h)))
    in_range = all(0 <= k < n for k in h)
    ctx.count("heralds:add:" + ("in-range" if in_range else "out-of-range") + (":empty" if not h else ""))
    if list(h) != sorted(h):
        ctx.count("heralds:add:keys-not-in-mode-order")
    m = mres(model["add"], "add_heralds")
    if got != m:
        probs.append(f"corr: add_heralds_to_state({s}, {h}): impl={got} model={m}")
    if (list(arg) if not isinstance(arg, State) else arg.s) != s:
        probs.append("oracle: add_heralds_to_state modified its argument")
    if in_range:
        if got[0] != "ok":
            probs.append(f"oracle: add_heralds_to_state({s}, {h}) raised {got[1]} for in-range heralds")
        else:
            t = got[1]
            if len(t) != n or any(t[k] != v for k, v in h.items()) or [x for i, x in enumerate(t) if i not in h] != s:
                probs.append(f"oracle: add_heralds_to_state({s}, {h}) = {t}: heralds/state modes misplaced")
            if t is arg:
                probs.append("oracle: add_heralds_to_state returned its argument (no copy)")
            # any key order gives the same state
            for hh in (dict(sorted(h.items())), dict(sorted(h.items(), reverse=True))):
                if add_heralds_to_state(list(s), hh) != t:
                    probs.append(f"oracle: add_heralds_to_state depends on the key order of the herald dictionary {h}")
            # round trip, herald modes listed in any order
            for ks in (list(h), sorted(h), sorted(h, reverse=True)):
                back = ires(lambda: remove_heralds_from_state(list(t), list(ks)))
                if back != ("ok", s):
                    probs.append(f"oracle: remove_heralds_from_state(add_heralds_to_state({s}, {h}), {ks}) = {back}, not the original")
            back_s = ires(lambda: remove_heralds_from_state(State(list(t)), list(h)))
            if back_s != ("ok", s):
                probs.append("oracle: round trip through a State argument fails")
            mb = mres(model["remove_of_add"], "remove_heralds")
            if mb != ("ok", s):
                probs.append(f"corr: model round trip gives {mb}")
    # plain removal
    rem = ires(lambda: remove_heralds_from_state(list(s), list(modes)))
    mr = mres(model["remove"], "remove_heralds")
    if rem != mr:
        probs.append(f"corr: remove_heralds_from_state({s}, {modes}): impl={rem} model={mr}")
    clean = len(set(modes)) == len(modes) and all(0 <= k < len(s) for k in modes)
    ctx.count("heralds:remove:" + ("distinct-in-range" if clean else "irregular"))
    if clean:
        exp = ("ok", [x for i, x in enumerate(s) if i not in modes])
        if rem != exp:
            probs.append(f"oracle: remove_heralds_from_state({s}, {modes}) = {rem}, expected {exp}")
        elif modes:
            again = ires(lambda: add_heralds_to_state(rem[1], {k: s[k] for k in modes}))
            if again != ("ok", s):
                probs.append(f"oracle: re-inserting the removed modes of {s} at {modes} gives {again}")
    return probs


def db_tol(x: float) -> float:
    return 1e-9 + 4e-15 * 10 ** (abs(x) / 10)


def run_db(ctx: Ctx, case: dict) -> list[str]:
    probs: list[str] = []
    mode = case["mode"]
    ctx.count("db:" + mode)
    if mode == "guard":
        l = Fraction(case["l"])
        got = ires(lambda: decimal_to_db_loss(float(l)))
        lf = Fraction(float(l))  # what the code actually sees
        table = [["0", "1"]] if lf == 0 else []
        m = mres(ctx.model.call({"op": "sv", "kind": "db", "fn": "to_db", "x": frac_str(lf), "table": table}), "to_db")
        exp_err = lf < 0 or lf >= 1
        if exp_err and got != ("err", "ValueError"):
            probs.append(f"oracle: decimal_to_db_loss({float(l)}) = {got}, a ValueError is documented")
        if (got[0], got[1] if got[0] == "err" else None) != (m[0], m[1] if m[0] == "err" else None):
            probs.append(f"corr: decimal_to_db_loss({float(l)}): impl={got} model={m}")
        if not exp_err and got[0] == "ok" and abs(got[1] - float(Fraction(m[1]))) > 1e-9:
            probs.append(f"corr: decimal_to_db_loss({float(l)}): impl={got} model={m}")
        return probs
    if mode == "pair":
        p = Fraction(case["p"])
        x = -10 * math.log10(p) + 0.0
        if case["neg"]:
            x = -x
        X = Fraction(x)
        table = [[frac_str(-abs(X) / 10), frac_str(p)]]
        md = mres(ctx.model.call({"op": "sv", "kind": "db", "fn": "to_dec", "x": frac_str(X), "table": table}), "to_dec")
        got = ires(lambda: db_loss_to_decimal(x))
        if got[0] != "ok" or md[0] != "ok" or abs(got[1] - float(Fraction(md[1]))) > 1e-9:
            probs.append(f"corr: db_loss_to_decimal({x}): impl={got} model={md}")
        if got[0] == "ok" and abs(got[1] - float(1 - p)) > 1e-9:
            probs.append(f"oracle: db_loss_to_decimal({x}) = {got[1]}, expected 1 - {p}")
        if got[0] == "ok" and db_loss_to_decimal(-x) != got[1]:
            probs.append("oracle: db_loss_to_decimal depends on the sign of its argument")
        if p < 1 or True:
            l = 1 - p
            mb = mres(ctx.model.call({"op": "sv", "kind": "db", "fn": "to_db", "x": frac_str(l), "table": table}), "to_db")
            gb = ires(lambda: decimal_to_db_loss(float(l)))
            tol = db_tol(x)
            if gb[0] != mb[0] or (gb[0] == "ok" and abs(gb[1] - float(Fraction(mb[1]))) > tol):
                probs.append(f"corr: decimal_to_db_loss({float(l)}): impl={gb} model={mb}")
            if gb[0] == "ok" and (gb[1] < 0 or abs(gb[1] - abs(x)) > tol):
                probs.append(f"oracle: decimal_to_db_loss(1 - {p}) = {gb[1]}, expected {abs(x)}")
        return probs
    x = float(case["x"])
    d = ires(lambda: db_loss_to_decimal(x))
    if d[0] != "ok" or not (0 <= d[1] < 1):
        probs.append(f"oracle: db_loss_to_decimal({x}) = {d} is not a loss in [0, 1)")
        return probs
    b = ires(lambda: decimal_to_db_loss(d[1]))
    if b[0] != "ok" or abs(b[1] - abs(x)) > db_tol(x):
        probs.append(f"oracle: decimal_to_db_loss(db_loss_to_decimal({x})) = {b}, expected {abs(x)}")
    elif abs(db_loss_to_decimal(b[1]) - d[1]) > 1e-9:
        probs.append(f"oracle: db_loss_to_decimal(decimal_to_db_loss({d[1]})) does not return {d[1]}")
    return probs


_PERM_CONTRACT: dict = {}


def perm_contract_ok() -> bool:
    """numpy contract relied upon for the model's tape: permuting the rows of identity(N) with a
    seeded Generator uses the same order as permuting range(N) with the same seed"""
    if "ok" not in _PERM_CONTRACT:
        ok = True
        for nn in range(1, 11):
            for sd in (0, 1, 7, 12345):
                a = np.random.default_rng(sd).permutation(np.identity(nn, dtype=complex))
                sg = np.random.default_rng(sd).permutation(nn)
                ok = ok and bool((a == np.identity(nn)[sg]).all())
        _PERM_CONTRACT["ok"] = ok
    return _PERM_CONTRACT["ok"]


def run_rand(ctx: Ctx, case: dict) -> list[str]:
    probs: list[str] = []
    n, kind = case["N"], case["seed_kind"]
    seed, mseed = make_seed(kind, case["v"])
    ctx.count("rand:seed:" + kind)
    ms = mres(ctx.model.call({"op": "sv", "kind": "seed", "seed": mseed}), "seed")
    with warnings.catch_warnings():
        warnings.simplefilter("ignore")
        p1 = ires(lambda: random_permutation(n, seed))
        u1 = ires(lambda: random_unitary(n, seed))
    # numpy / scipy accept only part of the integers as a seed (documented contract of the externals):
    # default_rng needs seed >= 0, scipy's RandomState needs 0 <= seed < 2**32; outside they raise ValueError
    def expected(lo_ok, hi):
        if ms[0] == "err":
            return ms
        v = ms[1]
        if v is None or (lo_ok <= int(v) and (hi is None or int(v) < hi)):
            return ("ok", None)
        ctx.count("rand:seed:outside-the-generator-domain")
        return ("err", "ValueError")

    for nm, r, e in (("random_permutation", p1, expected(0, None)), ("random_unitary", u1, expected(0, 2 ** 32))):
        if r[0] != e[0] or (r[0] == "err" and r[1] != e[1]):
            probs.append(f"corr: {nm}({n}, seed={seed!r}): impl={r[0], r[1] if r[0] == 'err' else '...'} "
                         f"model seed processing={ms}, expected outcome {e}")
    if ms[0] == "err" or p1[0] == "err":
        return probs
    if u1[0] == "err":
        u1 = ("ok", np.identity(n))
        seed_u = None
    else:
        seed_u = seed
    p, u = np.asarray(p1[1]), np.asarray(u1[1])
    eye = np.identity(n)
    # validity
    if p.shape != (n, n) or not np.isin(p, [0, 1]).all() or not (p.sum(axis=0) == 1).all() or not (p.sum(axis=1) == 1).all():
        probs.append(f"oracle: random_permutation({n}, {seed!r}) is not a permutation matrix")
    elif np.abs(p @ p.conj().T - eye).max() > 1e-12:
        probs.append(f"oracle: random_permutation({n}, {seed!r}) is not unitary")
    if u.shape != (n, n) or np.abs(u @ u.conj().T - eye).max() > 1e-9 or np.abs(u.conj().T @ u - eye).max() > 1e-9:
        probs.append(f"oracle: random_unitary({n}, {seed!r}) is not unitary")
    if seed is None:
        return probs
    # reproducibility
    if not np.array_equal(random_permutation(n, seed), p):
        probs.append(f"oracle: random_permutation({n}, {seed!r}) is not reproducible")
    if seed_u is not None and not np.array_equal(random_unitary(n, seed), u):
        probs.append(f"oracle: random_unitary({n}, {seed!r}) is not reproducible")
    if ms[1] is not None and kind != "int":
        # a seed that converts to the integer k behaves like k
        if not np.array_equal(random_permutation(n, int(ms[1])), p):
            probs.append(f"oracle: seed {seed!r} does not behave like the integer {ms[1]}")
    # model of the permutation given numpy's order (the tape)
    if perm_contract_ok() and ms[1] is not None and int(ms[1]) >= 0:
        ctx.count("rand:perm:model-compared")
        sigma = [int(k) for k in np.random.default_rng(int(ms[1])).permutation(n)]
        mp = mres(ctx.model.call({"op": "sv", "kind": "perm", "N": n, "sigma": sigma, "seed": mseed}), "perm")
        if mp[0] != "ok" or [[complex(Fraction(e.split(",")[0]), Fraction(e.split(",")[1])) for e in row] for row in mp[1]] != p.tolist():
            probs.append(f"corr: random_permutation({n}, {seed!r}) differs from the rows of the identity in numpy's order")
    return probs


RUNNERS = {"state": run_state, "astate": run_astate, "heralds": run_heralds, "db": run_db, "rand": run_rand}
GENS = {"state": gen_state_case, "astate": gen_astate_case, "heralds": gen_heralds_case, "db": gen_db_case,
        "rand": gen_rand_case}


def run_case(ctx: Ctx, case: dict) -> list[str]:
    return RUNNERS[case["kind"]](ctx, case)


def nontrivial(case: dict) -> bool:
    k = case["kind"]
    if k == "state":
        return len(case["s"]) >= 2 and len(case["q"]) >= 2
    if k == "astate":
        return sum(1 for r in case["rows"] if r and len(r) >= 2) >= 1 and len(case["q"]) >= 2
    if k == "heralds":
        return len(case["h"]) >= 1 and len(case["s"]) >= 1
    if k == "db":
        return case["mode"] != "guard" and case.get("x", 1) != 0
    return case["N"] >= 2


def shrink(ctx: Ctx, case: dict) -> dict:
    """smaller case that still shows a problem"""
    def fails(c):
        try:
            return bool(run_case(ctx, c))
        except Exception:  # noqa: BLE001
            return False

    cur = dict(case)
    if cur["kind"] in ("state", "astate") and len(cur.get("q", [])) > 1:
        q = ddmin(cur["q"], lambda sub: fails({**cur, "q": sub}))
        cur = {**cur, "q": q}
        for i, qq in enumerate(cur["q"]):
            if qq[0] == "client" and len(qq[1]) > 1:
                ops = ddmin(qq[1], lambda sub: fails({**cur, "q": cur["q"][:i] + [["client", sub]] + cur["q"][i + 1:]}))
                cur = {**cur, "q": cur["q"][:i] + [["client", ops]] + cur["q"][i + 1:]}
    if cur["kind"] == "astate":
        rows = cur["rows"]
        # drop labels while the problem persists
        for i in range(len(rows)):
            while rows[i] and len(rows[i]) > 1:
                cand = [list(r) if r is not None else None for r in rows]
                cand[i] = cand[i][:-1]
                if fails({**cur, "rows": cand}):
                    rows = cand
                else:
                    break
        cur = {**cur, "rows": rows}
    if cur["kind"] == "heralds" and len(cur["h"]) > 1:
        cur = {**cur, "h": ddmin(cur["h"], lambda sub: fails({**cur, "h": sub}))}
    return cur if fails(cur) else case


def selftest(ctx: Ctx) -> None:
    """the comparison must be able to see a difference: feed the model a wrong expectation"""
    r = ctx.model.call({"op": "sv", "kind": "state", "s": [1, 0, 2], "q": [["getitem", -1], ["slice", None, None, -1]]})
    if mres(r[0], "getitem") != ("ok", 2) or mres(r[1], "slice") != ("ok", [2, 0, 1]):
        from core import MachineryFault
        raise MachineryFault(f"driver self-test failed: {r}")
    base = run_state(ctx, {"kind": "state", "s": [1, 0], "q": [["eq", [1, 0]]]})  # reported by run() if non-empty
    # an injected model difference has to be reported
    class Fake:
        calls = 0

        def call(self, req):
            return [{"ok": False}]

    real = ctx._model
    ctx._model = Fake()  # type: ignore[assignment]
    try:
        seen = run_state(ctx, {"kind": "state", "s": [1, 0], "q": [["eq", [1, 0]]]})
    finally:
        ctx._model = real
    if not any(p.startswith("corr") and p not in base for p in seen):
        from core import MachineryFault
        raise MachineryFault("harness self-test: an injected model difference was not reported")
    ctx.branches = {}


def misc_probes(ctx: Ctx) -> None:
    """fixed probes of the operator protocol that have no model counterpart (type errors, conversions)"""
    bad = []
    a = State([1, 0, 2])
    if not (State((1, 0, 2)) == a and State(range(3)).s == [0, 1, 2] and hash(State((1, 0, 2))) == hash(a)):
        bad.append("State built from a tuple / range differs from the State of the same occupations")
    for what, f, cls in (
        ("State + list", lambda: a + [1], "TypeError"),
        ("State['a']", lambda: a["a"], "TypeError"),
        ("State[1.0]", lambda: a[1.0], "TypeError"),
        ("AnnotatedState + State", lambda: AnnotatedState([[0]]) + a, "TypeError"),
        ("AnnotatedState['a']", lambda: AnnotatedState([[0]])["a"], "TypeError"),
        ("State.merge(shorter)", lambda: a.merge(State([1])), "ValueError"),
    ):
        r = ires(f)
        ctx.count("misc:" + what)
        if r != ("err", cls):
            bad.append(f"{what} -> {r}, expected {cls}")
    if a == [1, 0, 2] or AnnotatedState([[0]]) == [[0]] or a == AnnotatedState([[], [], []]):
        bad.append("a state compares equal to an object of another type")
    for b in bad:
        ctx.violation("oracle: " + b, {"case": {"kind": "misc"}, "problems": [b]}, sig={"kind": "misc", "defect": b[:50]})
    # observation, not counted: the constructor keeps the list object it is given
    lst = [1, 0]
    st = State(lst)
    lst.append(7)
    if st.s != [1, 0]:
        ctx.notes.append("observation (not counted): State(list) keeps a reference to the caller's list, so the caller can still "
                         "change the state by mutating that list; nothing handed out by the State API allows it")
    ctx.case("misc-probes", True)


def run(ctx: Ctx) -> None:
    ctx.rule = ("generated State / AnnotatedState values with 2-8 API queries each (int and slice subscripts incl. negative "
                "indices and steps, +, merge, ==/hash, refused assignments, client programs mutating returned values), herald "
                "dictionaries in arbitrary key order with removal lists, exact dB pairs and float round trips, seeded random "
                "matrices for every seed kind; ~15% malformed requests; non-trivial = >=2 modes and >=2 queries / a mode with "
                ">=2 labels / >=1 herald on a non-empty state / a non-zero dB value / N>=2; distinct = distinct case")
    selftest(ctx)
    SIZE["big"] = ctx.thorough
    rng = ctx.rng
    plan = [("state", ctx.n(1500, 25000)), ("astate", ctx.n(1500, 25000)), ("heralds", ctx.n(2000, 40000)),
            ("db", ctx.n(600, 10000)), ("rand", ctx.n(250, 3000))]
    misc_probes(ctx)
    # the literal witness of F14 is always part of the run
    corpus = [{"kind": "astate", "rows": [[0], [1]], "q": [["client", [["getRow", 0], ["append", 0, 5]]]]},
              {"kind": "state", "s": [1, 0], "q": [["eq", [1, 0]]]}]
    todo = [(c["kind"], c) for c in corpus]
    for kind, cnt in plan:
        todo.extend((kind, None) for _ in range(cnt))
    nsample = {}
    for kind, case in todo:
        if ctx.out_of_time():
            break
        if case is None:
            case = GENS[kind](ctx, rng)
        ctx.count("kind:" + kind)
        probs = run_case(ctx, case)
        nsample[kind] = nsample.get(kind, 0) + 1
        ctx.case(json.dumps(case, sort_keys=True), nontrivial(case), sample=case if nsample[kind] == 2 and kind in ("state", "astate", "heralds") else None)
        if probs:
            ctx.count("cases_with_problems")
            small = shrink(ctx, case)
            sprobs = run_case(ctx, small) or probs
            report(ctx, small, sprobs)


def signature(case: dict, problem: str) -> dict:
    sig = {"kind": case["kind"]}
    if case["kind"] == "astate" and "hands out the internal label list" in problem:
        sig["defect"] = "AnnotatedState.__getitem__(int) returns the internal list"
    else:
        import re

        sig["defect"] = " ".join(re.sub(r"[^A-Za-z]+", " ", problem).split()[1:8])
    return sig


def report(ctx: Ctx, case: dict, probs: list[str]) -> None:
    oracle = [p for p in probs if p.startswith("oracle")]
    rep = {"case": case, "problems": probs}
    if oracle:
        sig = signature(case, oracle[0])
        key = json.dumps(sig, sort_keys=True)
        seen = ctx.extra.setdefault("violations_by_signature", {})
        seen[key] = seen.get(key, 0) + 1
        if seen[key] == 1:  # one replay per distinct defect; the count of further instances is kept in the evidence
            ctx.violation(oracle[0], rep, sig=sig)
    else:
        ctx.disagreement(probs[0], rep)


def replay(ctx: Ctx, path: str) -> None:
    data = json.load(open(path))["replay"]
    case = data["case"]
    probs = run_case(ctx, case)
    ctx.case("replay", True, sample=case)
    for p in probs:
        print("replay:", p)
    if probs:
        report(ctx, case, probs)
