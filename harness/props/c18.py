"""
C18 — State values behave as immutable Fock states; herald bookkeeping round-trips.

Model: LW.Model.StateVal (State, AState, client/alias world, addHeralds/removeHeralds, dbToDec/decToDb,
processSeed, permRows).  Theorems: LW/Properties/C18.lean.

Seven case kinds, all generated from ctx.rng and replayable from their JSON form:
  state    a State and a list of API queries (counts, str, int / slice subscripts, +, merge, ==,
           refused assignments, client programs that mutate everything the API hands out)
  astate   the same for AnnotatedState (label lists in arbitrary order, non-list elements)
  heralds  add_heralds_to_state / remove_heralds_from_state for dictionaries in any key order,
           out-of-range keys, arbitrary removal lists
  db       db_loss_to_decimal / decimal_to_db_loss on exact (x, 10^(-|x|/10)) pairs and the guard
  rand     random_permutation / random_unitary for every kind of seed (Python / numpy ints of every width, floats, Fractions,
           Decimals, bools, None, non-numbers) at the boundary values 0, -0.0, 1, 2**31, 2**32-1, 2**32, 2**53, 2**63-1, 2**64-1
           and random ones: each called repeatedly with the same seed (reproducible), with the equal Python integer (same
           matrix) and with a neighbouring seed (different matrix); refused seeds raise TypeError also when falsy
  alias    (oracle-only) two-step aliasing probes: a list obtained from a State / AnnotatedState by any accessor (.s, .s[i],
           obj[i], iteration, unpacking, reversed, slices, +, merge, copy, constructor from the state, herald helpers) or
           from a state derived from it is changed in place by any list operation; str / repr / hash / counts / contents of
           every state seen so far must stay what they were
  ops      operator forms on an object that something else still refers to: every augmented assignment Python offers
           (`+=` written on a name / a list element / a dict value / an attribute / in an accumulation loop, `*=`, `-=`, `|=`, ...,
           operator.iconcat), reflected and folded forms (other + obj, sum([...], start), functools.reduce), comparisons, `in`,
           len / bool / hash / str / format, reversed, copy / deepcopy / pickle round trips, chained and self merges, refused
           assignments and deletions - with a state, the object itself, an object seen earlier, the other state class, an int, a
           list, a tuple or None as operand, applied to the original and to every value derived so far.  After every step every
           state object seen so far (each also held as a dict key, a set member and a list element) must read exactly as when it
           was first seen and must still be found by an equal fresh key; `b += x` has the value of b + x (model: its `+`)
Every case is run on lightworks and on the model (corr: differences) and the clauses of the property
are evaluated on the implementation against plain Python list semantics (oracle: failures).
"""

from __future__ import annotations

import json
import math
import warnings
from fractions import Fraction

import numpy as np

import lightworks as lw
from core import Ctx, ddmin, frac_str
from lightworks.emulator.state import AnnotatedState
from lightworks.sdk.utils.conversion import db_loss_to_decimal, decimal_to_db_loss
from lightworks.sdk.utils.heralding_utils import add_heralds_to_state, remove_heralds_from_state
from lightworks.sdk.utils.random_utils import random_permutation, random_unitary

State = lw.State

TRUSTED = [
    "Lean 4.33 kernel; Mathlib v4.33 as compiled on this image",
    "axioms: subset of {propext, Classical.choice, Quot.sound} (audited per theorem on every run)",
    "hand-written model LW.Model.StateVal tied to the code by this correspondence check",
    "Python list/dict/str/hash semantics (list indexing and slicing are re-modelled and compared on every case)",
    "scipy.stats.unitary_group.rvs returns a unitary (validated to 1e-9 on every generated call, not modelled)",
    "numpy Generator.permutation: rows of the identity are permuted like range(N) with the same seed "
    "(self-tested on every run before it is relied upon)",
    "float evaluation of 10**x and log10 up to rounding (tolerance 1e-9 + conditioning term)",
    "driver JSON parser and harness comparison code",
]
ASSUMPTIONS = [
    "correspondence check: states <= 9 (thorough 14) modes, occupations in [-3, 14], <= 5 labels per mode, <= 4 (7) heralds, "
    "N <= 7 (10) for random matrices (theorems are unbounded)",
    "dB round trip checked for |x| <= 60 dB with tolerance 1e-9 + 4e-15 * 10^(|x|/10) (float conditioning of 1 - 10^(-x/10)); "
    "exact pairs up to 156 dB with 1e-9 when the decimal loss is exact in a float; beyond (80 dB .. inf) range, sign symmetry, "
    "monotonicity and the guard at exactly 1.0 only (oracle-only)",
    "seeds: -0.0, numpy bools, Fractions and Decimals equal to an integer are accepted as that integer (what the code does; "
    "the documentation only says 'integer'); numpy / scipy refuse seeds outside [0, inf) / [0, 2**32) with ValueError",
    "a different seed gives a different matrix: relies on numpy's / scipy's generators not colliding for neighbouring seeds "
    "(12 x 12 permutations, chance 1/12!)",
    "mutation of the list object passed to State(...) by its owner is not counted as mutation through the State API",
    "operator forms the property does not define (-, *, @, <, unary operators, ...; pickling with protocols 0 / 1, which Python "
    "refuses for classes with __slots__) may succeed or fail; only the immutability of every object seen is checked for them",
]

# exception class that `Err.other` ("Exception") stands for, per operation
OTHER = {"getitem": "IndexError", "set_s": "AnnotatedStateError", "set_n_modes": "AnnotatedStateError",
         "set_item": "AnnotatedStateError", "add_heralds": "IndexError", "remove_heralds": "IndexError"}


def mres(r: dict, op: str):
    """normalise a model outcome {"ok": v} / {"err": cls}"""
    if "err" in r:
        cls = r["err"]
        return ("err", OTHER.get(op, cls) if cls == "Exception" else cls)
    return ("ok", r["ok"])


def ires(f):
    """run f on the implementation -> ("ok", value) / ("err", class)"""
    try:
        return ("ok", f())
    except Exception as e:  # noqa: BLE001
        return ("err", type(e).__name__)


# ------------------------------------------------------------------------------------- generators


SIZE = {"big": False}  # thorough tier: larger states / dictionaries / matrices


def gen_occ(rng, n=None, wide=False) -> list:
    n = rng.randint(0, 14 if SIZE["big"] else 9) if n is None else n
    lo, hi = (-3, 14) if wide else (0, 4)
    return [rng.choice([0, 0, 1, 1, 2, rng.randint(lo, hi)]) for _ in range(n)]


def gen_slice(rng, n: int, malformed: bool) -> list:
    def b():
        return None if rng.random() < 0.3 else rng.randint(-n - 3, n + 3)

    step = rng.choice([None, None, 1, 1, 2, 3, -1, -1, -2, -3])
    if malformed:
        step = 0
    return [b(), b(), step]


def gen_client(rng, n_rows: int, annotated: bool, malformed: bool) -> list:
    """a client program: read values through the API and mutate whatever was handed out"""
    ops = []
    handles = 0
    for _ in range(rng.randint(1, 6)):
        r = rng.random()
        if r < 0.3:
            ops.append(["readS"])
            handles += n_rows if annotated else 1
        elif r < 0.55 and annotated:
            i = rng.randint(-n_rows - 1, n_rows) if malformed else (rng.randint(-n_rows, n_rows - 1) if n_rows else 0)
            ops.append(["getRow", i])
            if n_rows and -n_rows <= i < n_rows:
                handles += 1
        elif r < 0.65:
            ops.append([rng.choice(["setS", "setNModes", "setItem"])])
        elif r < 0.7:
            ops.append(["slice", *gen_slice(rng, n_rows, False)])
        elif handles:
            ops.append(["append", rng.randrange(handles), rng.randint(0, 9)])
    return ops


def gen_state_case(ctx: Ctx, rng) -> dict:
    wide = rng.random() < 0.3
    s = gen_occ(rng, wide=wide)
    n = len(s)
    qs = []
    for _ in range(rng.randint(2, 8)):
        bad = rng.random() < 0.15
        r = rng.random()
        if r < 0.12:
            qs.append([rng.choice(["n_photons", "n_modes", "len", "s", "iter", "str"])])
        elif r < 0.27:
            qs.append(["getitem", rng.randint(-n - 2, n + 1) if bad or not n else rng.randint(-n, n - 1)])
        elif r < 0.45:
            qs.append(["slice", *gen_slice(rng, n, bad)])
        elif r < 0.57:
            qs.append(["add", gen_occ(rng, wide=wide)])
        elif r < 0.72:
            qs.append(["merge", gen_occ(rng, n=n + (rng.choice([-1, 1, 2]) if bad else 0) if n or not bad else 1, wide=wide)])
        elif r < 0.86:
            o = list(s)
            if o and rng.random() < 0.6:
                k = rng.randrange(len(o))
                o[k] += rng.choice([0, 0, 1, -1, 10])
            elif rng.random() < 0.5:
                o = o + [0]
            qs.append([rng.choice(["eq", "str_eq"]), o])
        elif r < 0.92:
            qs.append([rng.choice(["set_s", "set_n_modes", "set_item"])])
        else:
            qs.append(["client", gen_client(rng, 1, False, bad)])
    return {"kind": "state", "s": s, "q": qs}


def gen_rows(rng, n=None) -> list:
    n = rng.randint(0, 9 if SIZE["big"] else 6) if n is None else n
    return [[rng.randint(-2, 6) for _ in range(rng.choice([0, 0, 1, 1, 2, 3, 5]))] for _ in range(n)]


def gen_astate_case(ctx: Ctx, rng) -> dict:
    rows = gen_rows(rng)
    n = len(rows)
    if rng.random() < 0.08:
        rows = list(rows) + [None]
        rng.shuffle(rows)
        return {"kind": "astate", "rows": rows, "q": []}
    qs = []
    for _ in range(rng.randint(2, 8)):
        bad = rng.random() < 0.15
        r = rng.random()
        if r < 0.12:
            qs.append([rng.choice(["n_photons", "n_modes", "len", "s", "iter", "str"])])
        elif r < 0.25:
            qs.append(["getitem", rng.randint(-n - 2, n + 1) if bad or not n else rng.randint(-n, n - 1)])
        elif r < 0.4:
            qs.append(["slice", *gen_slice(rng, n, bad)])
        elif r < 0.5:
            qs.append(["add", gen_rows(rng)])
        elif r < 0.63:
            qs.append(["merge", gen_rows(rng, n=max(0, n + (rng.choice([-1, 1, 2]) if bad else 0)))])
        elif r < 0.78:
            o = [list(x) for x in rows]
            for x in o:
                rng.shuffle(x)
            if o and rng.random() < 0.5:
                k = rng.randrange(len(o))
                if o[k] and rng.random() < 0.5:
                    o[k][rng.randrange(len(o[k]))] += 1
                else:
                    o[k].append(rng.randint(0, 3))
            qs.append([rng.choice(["eq", "str_eq"]), o])
        elif r < 0.84:
            qs.append([rng.choice(["set_s", "set_n_modes", "set_item"])])
        else:
            qs.append(["client", gen_client(rng, n, True, bad)])
    return {"kind": "astate", "rows": rows, "q": qs}


# two-step aliasing probes: obtain a mutable value from the API by some accessor, mutate it in place, look at the state again
ACCESSORS = {
    "state": ["s", "list", "unpack", "reversed", "slice", "add", "radd", "merge", "copy", "deepcopy", "ctor", "heralds"],
    "astate": ["s", "s_row", "getitem", "list", "for", "next", "unpack", "reversed", "slice", "add", "radd", "merge", "copy",
               "deepcopy", "ctor"],
}
MUTATIONS = ["append", "clear", "setitem", "sort", "reverse", "extend", "iadd", "pop", "insert", "del", "imul", "inner"]


def gen_alias_case(ctx: Ctx, rng) -> dict:
    typ = rng.choice(["state", "astate"])
    if typ == "state":
        v = gen_occ(rng, n=rng.randint(0, 6))
    else:
        v = gen_rows(rng, n=rng.randint(0, 5))
    n = len(v)
    prog = []
    for _ in range(rng.randint(1, 4)):
        acc = rng.choice(ACCESSORS[typ])
        op = [acc]
        if acc in ("s_row", "getitem"):
            op.append(rng.randint(-n, n - 1) if n else 0)
        elif acc == "slice":
            op += gen_slice(rng, n, False)
        elif acc in ("add", "radd"):
            op.append(gen_occ(rng, n=rng.randint(0, 3)) if typ == "state" else gen_rows(rng, n=rng.randint(0, 3)))
        elif acc == "merge":
            op.append(gen_occ(rng, n=n) if typ == "state" else gen_rows(rng, n=n))
        prog.append(op)
        for _ in range(rng.randint(1, 3)):
            prog.append(["mut", rng.randrange(64), rng.choice(MUTATIONS), rng.randint(0, 9)])
    return {"kind": "alias", "type": typ, "v": v, "prog": prog}


def alias_corpus() -> list:
    """every accessor x every in-place mutation, for both kinds of state (directed stream)"""
    out = []
    for typ, v, other in (("state", [1, 0, 2], [0, 3]), ("astate", [[1, 0], [], [2]], [[4], []])):
        for acc in ACCESSORS[typ]:
            op = [acc]
            if acc in ("s_row", "getitem"):
                op.append(0)
            elif acc == "slice":
                op += [None, None, None]
            elif acc in ("add", "radd"):
                op.append(other)
            elif acc == "merge":
                op.append([0, 1, 0] if typ == "state" else [[], [7], [3]])
            for mut in MUTATIONS:
                out.append({"kind": "alias", "type": typ, "v": v, "prog": [op] + [["mut", h, mut, 9] for h in range(6)]})
            if acc == "slice":
                for sl_ in ([0, 2, None], [None, None, -1], [1, None, None]):
                    out.append({"kind": "alias", "type": typ, "v": v, "prog": [[acc, *sl_]] + [["mut", h, "append", 9] for h in range(6)]
                                + [["mut", h, "clear", 0] for h in range(6)]})
            if acc in ("add", "radd"):  # an empty operand: the sum equals the state itself
                out.append({"kind": "alias", "type": typ, "v": v, "prog": [[acc, []]] + [["mut", h, "append", 9] for h in range(6)]
                            + [["mut", h, "inner", 9] for h in range(6)]})
    return out


# operator forms applied to an object that is also referenced elsewhere
AUG_OPS = ["iadd", "iconcat", "isub", "imul", "imatmul", "itruediv", "ifloordiv", "imod", "ipow", "ilshift", "irshift", "iand", "ixor",
           "ior"]
IADD_VIA = ["name", "list", "dict", "attr", "loop", "operator"]  # where the augmented statement is written
BIN_OPS = ["add", "radd", "sub", "mul", "rmul", "matmul", "or", "and", "lt", "le", "gt", "ge", "eq", "ne"]
FOLD_OPS = ["sum_from_empty", "sum_from_obj", "sum_default", "reduce_add", "reduce_iadd"]
MERGE_OPS = ["merge", "merge_chain", "merge_self", "merge_reflected"]
UNARY_OPS = ["pos", "neg", "invert", "abs", "bool", "len", "hash", "str", "repr", "format", "iter", "reversed", "contains", "copy",
             "deepcopy", "pickle", "getitem", "slice", "s", "setitem", "setslice", "delitem", "delslice", "set_s", "del_s",
             "set_n_modes", "setattr", "delattr"]
OPERAND_KINDS = ["same", "same", "same", "empty", "self", "seen", "other_type", "int", "list", "tuple", "none"]


def gen_operand(rng, typ: str, kind: str | None = None) -> list:
    kind = kind or rng.choice(OPERAND_KINDS)
    val = (lambda n: gen_occ(rng, n=n)) if typ == "state" else (lambda n: gen_rows(rng, n=n))
    if kind in ("same", "other_type", "list", "tuple"):
        return [kind, val(rng.randint(0, 3))]
    if kind == "seen":
        return [kind, rng.randrange(8)]
    if kind == "int":
        return [kind, rng.choice([0, 1, 2, -1, 3])]
    return [kind]


def gen_ops_step(rng, typ: str) -> dict:
    r = rng.random()
    step: dict = {"on": rng.choice([0, 0, 0, 1, 2, 3, 5, 7])}
    if r < 0.30:
        step.update(op="iadd", via=rng.choice(IADD_VIA), arg=gen_operand(rng, typ, rng.choice(["same", "same", "same", None])))
    elif r < 0.45:
        step.update(op=rng.choice(AUG_OPS), arg=gen_operand(rng, typ))
    elif r < 0.60:
        step.update(op=rng.choice(BIN_OPS), arg=gen_operand(rng, typ))
    elif r < 0.70:
        step.update(op=rng.choice(FOLD_OPS), arg=gen_operand(rng, typ, rng.choice(["same", "same", "seen", "self", "empty"])),
                    arg2=gen_operand(rng, typ, rng.choice(["same", "seen", "self"])))
    elif r < 0.80:
        fit = lambda: ["fit", gen_occ(rng, n=5) if typ == "state" else gen_rows(rng, n=5)]  # noqa: E731
        step.update(op=rng.choice(MERGE_OPS), arg=rng.choice([fit(), fit(), ["self"], ["seen", rng.randrange(8)]]), arg2=fit())
    else:
        step.update(op=rng.choice(UNARY_OPS), k=rng.randint(-3, 4), sl=gen_slice(rng, 4, False), proto=rng.randint(0, 5))
    return step


def gen_ops_case(ctx: Ctx, rng) -> dict:
    typ = rng.choice(["state", "state", "astate"])
    v = gen_occ(rng, n=rng.randint(0, 6)) if typ == "state" else gen_rows(rng, n=rng.randint(0, 5))
    return {"kind": "ops", "type": typ, "v": v, "prog": [gen_ops_step(rng, typ) for _ in range(rng.randint(1, 6))]}


def ops_corpus() -> list:
    """every operator form x every operand kind on an aliased object, and the accumulation histories (directed stream)"""
    out = []
    for typ, v, x, y in (("state", [1, 0, 2], [0, 3], [4]), ("astate", [[1, 0], [], [2]], [[4], []], [[5, 5]]),
                         ("state", [], [1], [0]), ("state", [0, 1], [1, 0], [0, 0])):
        case = lambda prog: {"kind": "ops", "type": typ, "v": v, "prog": prog}  # noqa: E731,B023
        operands = [["same", x], ["empty"], ["self"], ["seen", 1], ["other_type", x], ["int", 2], ["list", x], ["tuple", x], ["none"]]
        for via in IADD_VIA:
            for arg in operands:
                out.append(case([{"op": "iadd", "via": via, "on": 0, "arg": arg}]))
            # the same object is the start of two accumulations; a derived value is accumulated onto as well
            out.append(case([{"op": "iadd", "via": via, "on": 0, "arg": ["same", x]}, {"op": "iadd", "via": via, "on": 0, "arg": ["same", y]},
                             {"op": "iadd", "via": via, "on": 2, "arg": ["same", y]}, {"op": "iadd", "via": via, "on": 2, "arg": ["seen", 0]},
                             {"op": "iadd", "via": via, "on": 0, "arg": ["same", x]}]))
        for op in AUG_OPS[1:]:
            for arg in operands:
                out.append(case([{"op": op, "on": 0, "arg": arg}, {"op": op, "on": 0, "arg": arg}]))
        for op in BIN_OPS:
            for arg in operands:
                out.append(case([{"op": op, "on": 0, "arg": arg}]))
        for op in FOLD_OPS:
            for a1, a2 in ((["same", x], ["same", y]), (["self"], ["same", x]), (["empty"], ["self"]), (["seen", 0], ["seen", 0])):
                out.append(case([{"op": op, "on": 0, "arg": a1, "arg2": a2}, {"op": op, "on": 0, "arg": a1, "arg2": a2}]))
        for op in MERGE_OPS:
            for arg in (["fit", x], ["self"], ["seen", 0]):
                out.append(case([{"op": op, "on": 0, "arg": arg, "arg2": ["fit", y]}, {"op": op, "on": 1, "arg": arg, "arg2": ["fit", y]}]))
        for op in UNARY_OPS:
            for k in ((0, 1, -1, 7) if op in ("getitem", "contains", "setitem", "delitem") else range(6) if op == "pickle" else (0,)):
                out.append(case([{"op": op, "on": 0, "k": k, "sl": [None, None, -1] if k else [0, 2, None], "proto": k}]))
        # a derived value (slice / copy / sum) is then used as the left side of an augmented assignment
        for first in ({"op": "slice", "on": 0, "k": 0, "sl": [None, None, None]}, {"op": "copy", "on": 0, "k": 0}, {"op": "deepcopy", "on": 0, "k": 0},
                      {"op": "pickle", "on": 0, "k": 0, "proto": 4}, {"op": "add", "on": 0, "arg": ["empty"]},
                      {"op": "radd", "on": 0, "arg": ["empty"]}, {"op": "merge", "on": 0, "arg": ["fit", x], "arg2": ["fit", y]}):
            out.append(case([first, {"op": "iadd", "via": "name", "on": 1, "arg": ["same", x]}, {"op": "iadd", "via": "name", "on": 2, "arg": ["same", x]},
                             {"op": "imul", "on": 1, "arg": ["int", 2]}]))
    return out


def gen_heralds_case(ctx: Ctx, rng) -> dict:
    s = gen_occ(rng, n=rng.randint(0, 10 if SIZE["big"] else 7))
    nh = rng.choice([0, 1, 1, 2, 2, 3, 4] + ([5, 6, 7] if SIZE["big"] else []))
    n = len(s) + nh
    keys = rng.sample(range(n), nh)  # any key order: the dictionary is built in this order
    if nh and rng.random() < 0.15:
        keys[rng.randrange(nh)] = rng.choice([n, n + 2, -1, -n - 1])  # out of range
        if len(set(keys)) != nh:
            keys = list(dict.fromkeys(keys))
    h = [[k, rng.randint(0, 3)] for k in keys]
    m = rng.choice([0, 1, 2, 3])
    if rng.random() < 0.8 and len(s) >= m:
        modes = rng.sample(range(len(s)), m)
    else:
        modes = [rng.randint(-len(s) - 1, len(s) + 1) for _ in range(m)]  # repeats, negatives, out of range
    return {"kind": "heralds", "s": s, "h": h, "modes": modes, "as_state": rng.random() < 0.5}


DB_SPECIAL = ["inf", "-inf", "-0.0", "nextafter(1,2)", "nextafter(0,-1)", "int0", "int1", "1e300"]
DB_LARGE = [80.0, 100.0, 120.0, 150.0, 156.0, 159.0, 160.0, 200.0, 323.0, 1e3, 1e6, 1e300, float("inf")]
DB_ARGTYPES = ["float", "float", "int", "np.float64", "np.int64", "fraction"]


def gen_db_case(ctx: Ctx, rng) -> dict:
    r = rng.random()
    if r < 0.2:
        # the guard of decimal_to_db_loss: just outside [0, 1), the two ends, values that round to an end
        if rng.random() < 0.3:
            return {"kind": "db", "mode": "guard", "special": rng.choice(DB_SPECIAL)}
        k = rng.choice([10, 30, 40, 52, 53, 54, 60, 80])
        l = rng.choice([Fraction(1), Fraction(-1, 8), Fraction(5, 4), Fraction(-3), Fraction(1) + Fraction(1, 2 ** 40),
                        Fraction(-1, 2 ** 60), Fraction(0), Fraction(2), Fraction(1) + Fraction(1, 2 ** k), -Fraction(1, 2 ** k),
                        Fraction(1) - Fraction(1, 2 ** (54 + k % 7))])  # the last rounds to exactly 1.0
        return {"kind": "db", "mode": "guard", "l": frac_str(l)}
    if r < 0.62:
        # exact pair: transmission p in (0, 1] rational, dB value x = -10 log10 p; p close to 0 (decimal loss close to 1),
        # close to 1 (0 dB side) and exactly 1 (0 dB) are drawn on purpose
        den = rng.choice([1, 2, 4, 5, 8, 10, 16, 100, 1000, 10 ** 5, 2 ** rng.randint(5, 52), 2 ** 52, 10 ** rng.randint(6, 15)])
        num = rng.choice([1, 1, rng.randint(1, min(den, 9)), den, den - 1 if den > 1 else 1, rng.randint(1, den), rng.randint(1, den)])
        p = Fraction(num, den)
        return {"kind": "db", "mode": "pair", "p": frac_str(p), "neg": rng.random() < 0.5}
    if r < 0.72:
        # beyond the range in which the round trip is well conditioned (oracle-only)
        return {"kind": "db", "mode": "large", "x": rng.choice(DB_LARGE) * rng.choice([1, -1])}
    # round trips on arbitrary floats; whole numbers also as int / numpy / Fraction arguments
    x = rng.choice([0.0, -0.0, rng.uniform(0, 3), rng.uniform(0, 60), -rng.uniform(0, 60), float(rng.randint(0, 40)),
                    -float(rng.randint(0, 40)), 10.0 ** -rng.randint(1, 300), -(10.0 ** -rng.randint(1, 16)), 60.0, -60.0])
    case = {"kind": "db", "mode": "round", "x": x}
    if x == int(x) and rng.random() < 0.6:
        case["argtype"] = rng.choice(DB_ARGTYPES)
    return case


def db_arg(x: float, argtype: str):
    if argtype == "int":
        return int(x)
    if argtype == "fraction":
        return Fraction(int(x))
    if argtype.startswith("np."):
        t = getattr(np, argtype[3:])
        return t(int(x)) if "int" in argtype else t(x)
    return x


SEED_KINDS = ["int", "int", "int", "none", "bool", "float_int", "float_int", "float_negint", "float_frac", "np_int", "np_int",
              "np_float", "np_bool", "fraction", "fraction_frac", "decimal", "other", "other", "bigint", "negint"]
# values at which seed handling is most likely to change: zero (falsy), one, the edges of the 32 / 53 / 63 / 64 bit ranges
SEED_BOUNDARY = [0, 0, 0, 0, 1, 1, 2, 2 ** 31 - 1, 2 ** 31, 2 ** 32 - 1, 2 ** 32 - 1, 2 ** 32, 2 ** 53, 2 ** 63 - 1, 2 ** 64 - 1]
NP_INTS = ["int8", "int16", "int32", "int64", "uint8", "uint16", "uint32", "uint64", "intp"]
NP_FLOATS = ["float64", "float64", "float32", "float16", "longdouble"]
N_OTHER = 17


def gen_rand_case(ctx: Ctx, rng) -> dict:
    kind = rng.choice(SEED_KINDS)
    v = rng.choice(SEED_BOUNDARY) if rng.random() < 0.5 else rng.randint(0, 2 ** 20)
    case = {"kind": "rand", "N": rng.randint(1, 10 if SIZE["big"] else 7), "seed_kind": kind, "v": v}
    if kind == "np_int":
        case["np"] = rng.choice(NP_INTS)
    elif kind == "np_float":
        case["np"] = rng.choice(NP_FLOATS)
    elif kind == "float_int" and v == 0 and rng.random() < 0.5:
        case["negzero"] = True
    elif kind == "other":
        case["which"] = rng.randrange(N_OTHER)
    return case


def real_spec(x) -> dict:
    """model seed for a finite real number held in a float-like object"""
    f = float(x)
    if math.isnan(f) or math.isinf(f):
        return {"t": "other"}
    if isinstance(x, np.longdouble):  # wider than a float: whole part and remainder separately
        whole = int(x)
        return {"t": "real", "v": frac_str(Fraction(whole) + Fraction(float(x - np.longdouble(whole))))}
    return {"t": "real", "v": frac_str(Fraction(f))}


def make_seed(kind: str, v: int, case: dict | None = None):
    """-> (python seed object, model seed spec)"""
    import decimal

    case = case or {}
    if kind == "int":
        return v, {"t": "int", "v": v}
    if kind == "bigint":
        return v + 2 ** 70, {"t": "int", "v": v + 2 ** 70}
    if kind == "negint":
        return -v - 1, {"t": "int", "v": -v - 1}
    if kind == "none":
        return None, {"t": "none"}
    if kind == "bool":
        return bool(v % 2), {"t": "bool", "v": bool(v % 2)}
    if kind == "float_int":
        x = -0.0 if case.get("negzero") else float(v)  # -0.0 == 0: the integer 0 (what the code does; documented here)
        return x, real_spec(x)
    if kind == "float_negint":
        x = -float(v) - 1.0
        return x, real_spec(x)
    if kind == "float_frac":
        x = v + 0.5  # for v >= 2**53 this float is a whole number again: the model is told what the float really is
        return x, real_spec(x)
    if kind == "np_int":
        t = np.dtype(case.get("np", "int64"))
        info = np.iinfo(t)
        x = t.type(v % (int(info.max) + 1))
        return x, {"t": "real", "v": str(int(x))}
    if kind == "np_float":
        t = np.dtype(case.get("np", "float64"))
        with warnings.catch_warnings():
            warnings.simplefilter("ignore")
            x = t.type(v)  # may round (float32 / float16) or overflow to inf (float16)
        return x, real_spec(x)
    if kind == "np_bool":
        # a numpy bool is not a Python bool: it converts to the integer 0 / 1 and is accepted as such (documented here)
        return np.bool_(v % 2), {"t": "real", "v": str(v % 2)}
    if kind == "fraction":
        return Fraction(v), {"t": "real", "v": str(v)}
    if kind == "fraction_frac":
        return Fraction(2 * v + 1, 2), {"t": "real", "v": frac_str(Fraction(2 * v + 1, 2))}
    if kind == "decimal":
        return decimal.Decimal(v), {"t": "real", "v": str(v)}
    if kind == "str":
        return str(v), {"t": "other"}
    if kind == "nan":
        return float("nan"), {"t": "other"}
    if kind == "other":
        # objects that are not numbers equal to an integer - the falsy ones first
        objs = ["", b"", [], (), {}, 0j, "0", str(v), b"7", [v], (v,), {v: v}, complex(v, 0), float("nan"), float("inf"), float("-inf"),
                complex(0, 1)]
        assert len(objs) == N_OTHER
        return objs[case.get("which", 7) % N_OTHER], {"t": "other"}
    raise ValueError(kind)


# ------------------------------------------------------------------------------------- runners


def py_getitem(l, i):
    return ires(lambda: l[i])


def sl(a):
    return slice(a[0], a[1], a[2])


def run_state(ctx: Ctx, case: dict) -> list[str]:
    probs: list[str] = []
    s = list(case["s"])
    st = State(list(s))
    model = ctx.model.call({"op": "sv", "kind": "state", "s": s, "q": case["q"]})
    h0 = hash(st)
    for q, mq in zip(case["q"], model):
        name = q[0]
        ctx.count("state:" + name)
        m = mres(mq, name)
        exp = None  # what plain Python list semantics say
        if name == "n_photons":
            got, exp = ires(lambda: st.n_photons), ("ok", sum(s))
        elif name == "n_modes":
            got, exp = ires(lambda: st.n_modes), ("ok", len(s))
        elif name == "len":
            got, exp = ires(lambda: len(st)), ("ok", len(s))
        elif name == "s":
            got, exp = ires(lambda: st.s), ("ok", s)
        elif name == "iter":
            got, exp = ires(lambda: list(st)), ("ok", s)
        elif name == "str":
            got, exp = ires(lambda: str(st)), ("ok", "|" + ",".join(map(str, s)) + ">" if s else ">")
            if got[0] == "ok" and repr(st) != f"lightworks.State({got[1]})":
                probs.append("oracle: repr(State) is not built from str(State)")
        elif name == "validate":
            got = ires(lambda: st._validate())
            exp = ("err", "ValueError") if any(x < 0 for x in s) else ("ok", None)
        elif name == "getitem":
            got, exp = ires(lambda: st[q[1]]), py_getitem(s, q[1])
            ctx.count("state:getitem:" + ("neg" if q[1] < 0 else "nonneg") + (":err" if exp[0] == "err" else ""))
        elif name == "slice":
            r = ires(lambda: st[sl(q[1:])])
            exp = ires(lambda: s[sl(q[1:])])
            if r[0] == "ok":
                if not isinstance(r[1], State):
                    probs.append(f"oracle: State[{q[1:]}] is not a State")
                    continue
                got = ("ok", r[1].s)
                if r[1].n_modes != len(got[1]) or r[1].n_photons != sum(got[1]):
                    probs.append("oracle: counts of a sliced State are inconsistent with its contents")
            else:
                got = r
            if q[3] is not None and q[3] < 0:
                ctx.count("state:slice:negstep")
            if exp[0] == "ok" and not exp[1]:
                ctx.count("state:slice:empty")
        elif name == "add":
            o = State(list(q[1]))
            r = ires(lambda: st + o)
            got = ("ok", r[1].s) if r[0] == "ok" else r
            exp = ("ok", s + q[1])
            if r[0] == "ok":
                if r[1].n_photons != st.n_photons + o.n_photons or r[1].n_modes != st.n_modes + o.n_modes:
                    probs.append("oracle: counts are not additive under +")
                third = State([1, 0, 2])
                if not ((st + o) + third == st + (o + third)):
                    probs.append("oracle: + is not associative")
                if r[1][: len(s)] != st or r[1][len(s):] != o:
                    probs.append("oracle: slices of a + b do not give back a and b")
        elif name == "merge":
            o = State(list(q[1]))
            r = ires(lambda: st.merge(o))
            got = ("ok", r[1].s) if r[0] == "ok" else r
            exp = ("ok", [a + b for a, b in zip(s, q[1])]) if len(s) == len(q[1]) else ("err", "ValueError")
            r2 = ires(lambda: o.merge(st))
            if (r[0], r2[0]) == ("ok", "ok"):
                if r[1] != r2[1]:
                    probs.append("oracle: merge is not commutative")
                if r[1].n_photons != st.n_photons + o.n_photons:
                    probs.append("oracle: photon number is not additive under merge")
                if st.merge(o).merge(o) != st.merge(o.merge(o)):
                    probs.append("oracle: merge is not associative")
            elif r[0] != r2[0]:
                probs.append("oracle: merge accepted in one order and refused in the other")
            ctx.count("state:merge:" + exp[0])
        elif name in ("eq", "str_eq"):
            o = State(list(q[1]))
            same = s == q[1]
            ctx.count("state:eq:" + ("equal" if same else "different"))
            if name == "eq":
                got, exp = ires(lambda: st == o), ("ok", same)
                if (st != o) == (st == o):
                    probs.append("oracle: == and != agree")
            else:
                got, exp = ires(lambda: str(st) == str(o)), ("ok", same)
            if same and hash(st) != hash(o):
                probs.append("oracle: equal States hash differently")
            if same and ({st: 1}.get(o) != 1 or o not in {st}):
                probs.append("oracle: an equal State is not found as a dict/set key")
            if not same and st == o:
                probs.append("oracle: States with different occupations compare equal")
            if st == s or st == tuple(s):
                probs.append("oracle: a State compares equal to a plain sequence")
        elif name in ("set_s", "set_n_modes", "set_item"):
            def do():
                if name == "set_s":
                    st.s = [9]
                elif name == "set_n_modes":
                    st.n_modes = 7
                else:
                    st[0] = 9
            got, exp = ires(do), ("err", "StateError")
        elif name == "client":
            handles = []
            for op in q[1]:
                try:
                    if op[0] == "readS":
                        handles.append(st.s if len(handles) % 2 == 0 else list(st))
                    elif op[0] == "append" and op[1] < len(handles):
                        handles[op[1]].append(op[2])
                    elif op[0] == "setS":
                        st.s = [1]
                    elif op[0] == "setNModes":
                        st.n_modes = 1
                    elif op[0] == "setItem":
                        st[0] = 5
                    elif op[0] == "slice":
                        st[sl(op[1:])].s.append(4)
                except Exception:  # noqa: BLE001
                    pass
            got, exp = ires(lambda: st.s), ("ok", s)
            if any(op[0] == "append" for op in q[1]):
                ctx.count("state:client:mutated-a-returned-list")
        else:
            raise ValueError(name)
        if exp is not None and got != exp:
            probs.append(f"oracle: State({s}) {q}: got {got}, list semantics say {exp}")
        if got != m:
            probs.append(f"corr: State({s}) {q}: impl={got} model={m}")
        # the value never changes, whatever was called
        if st.s != s or hash(st) != h0:
            probs.append(f"oracle: State({s}) changed to {st.s} after {q}")
            break
    return probs


def run_astate(ctx: Ctx, case: dict) -> list[str]:
    probs: list[str] = []
    rows = case["rows"]
    arg = [list(r) if r is not None else (1, 2) for r in rows]  # a tuple stands for "not a list"
    snapshot = [list(r) if isinstance(r, list) else r for r in arg]
    model = ctx.model.call({"op": "sv", "kind": "astate", "rows": rows, "q": case["q"]})
    r = ires(lambda: AnnotatedState(arg))
    if arg != snapshot:
        probs.append("oracle: AnnotatedState(...) modified the lists passed to it")
    exp_new = ("err", "TypeError") if any(x is None for x in rows) else ("ok", [sorted(x) for x in rows])
    got_new = ("ok", r[1].s) if r[0] == "ok" else r
    if got_new != exp_new:
        probs.append(f"oracle: AnnotatedState({rows}): got {got_new}, expected {exp_new}")
    if got_new != mres(model["new"], "new"):
        probs.append(f"corr: AnnotatedState({rows}): impl={got_new} model={mres(model['new'], 'new')}")
    if r[0] != "ok" or "q" not in model:
        ctx.count("astate:new:rejected")
        return probs
    st = r[1]
    srt = [sorted(x) for x in rows]
    h0 = hash(st)
    # label order is irrelevant
    rev = AnnotatedState([list(reversed(x)) for x in rows])
    if rev != st or hash(rev) != h0 or str(rev) != str(st):
        probs.append("oracle: AnnotatedState depends on the order of the labels within a mode")
    # constructor argument is not retained
    for x in arg:
        x.append(99)
    if st.s != srt:
        probs.append("oracle: AnnotatedState shares the label lists passed to its constructor")
    for q, mq in zip(case["q"], model["q"]):
        name = q[0]
        ctx.count("astate:" + name)
        m = mres(mq, name)
        exp = None
        if name == "n_photons":
            got, exp = ires(lambda: st.n_photons), ("ok", sum(len(x) for x in rows))
        elif name == "n_modes":
            got, exp = ires(lambda: st.n_modes), ("ok", len(rows))
        elif name == "len":
            got, exp = ires(lambda: len(st)), ("ok", len(rows))
        elif name == "s":
            got, exp = ires(lambda: st.s), ("ok", srt)
        elif name == "iter":
            got, exp = ires(lambda: [list(x) for x in st]), ("ok", srt)
        elif name == "str":
            got = ires(lambda: str(st))
            body = ",".join((f"{len(x)}:(" + ",".join(map(str, x)) + ")") if x else "0" for x in srt)
            exp = ("ok", "|" + body + ">" if srt else ">")
        elif name == "getitem":
            rr = ires(lambda: st[q[1]])
            got = ("ok", list(rr[1])) if rr[0] == "ok" else rr
            exp = py_getitem(srt, q[1])
        elif name == "slice":
            rr = ires(lambda: st[sl(q[1:])])
            exp = ires(lambda: srt[sl(q[1:])])
            if rr[0] == "ok":
                if not isinstance(rr[1], AnnotatedState):
                    probs.append("oracle: a slice of an AnnotatedState is not an AnnotatedState")
                    continue
                got = ("ok", rr[1].s)
                if rr[1].n_modes != len(got[1]) or rr[1].n_photons != sum(len(x) for x in got[1]):
                    probs.append("oracle: counts of a sliced AnnotatedState are inconsistent")
            else:
                got = rr
        elif name == "add":
            o = AnnotatedState([list(x) for x in q[1]])
            rr = ires(lambda: st + o)
            got = ("ok", rr[1].s) if rr[0] == "ok" else rr
            exp = ("ok", srt + [sorted(x) for x in q[1]])
            if rr[0] == "ok":
                third = AnnotatedState([[2, 1], []])
                if (st + o) + third != st + (o + third):
                    probs.append("oracle: + of AnnotatedStates is not associative")
                if rr[1].n_photons != st.n_photons + o.n_photons or rr[1].n_modes != st.n_modes + o.n_modes:
                    probs.append("oracle: counts are not additive under + (AnnotatedState)")
        elif name == "merge":
            o = AnnotatedState([list(x) for x in q[1]])
            rr = ires(lambda: st.merge(o))
            got = ("ok", rr[1].s) if rr[0] == "ok" else rr
            exp = ("ok", [sorted(a + b) for a, b in zip(rows, q[1])]) if len(rows) == len(q[1]) else ("err", "ValueError")
            r2 = ires(lambda: o.merge(st))
            if (rr[0], r2[0]) == ("ok", "ok"):
                if rr[1] != r2[1] or hash(rr[1]) != hash(r2[1]):
                    probs.append("oracle: merge of AnnotatedStates is not commutative")
                if rr[1].n_photons != st.n_photons + o.n_photons:
                    probs.append("oracle: photon number is not additive under merge (AnnotatedState)")
                if st.merge(o).merge(o) != st.merge(o.merge(o)):
                    probs.append("oracle: merge of AnnotatedStates is not associative")
            elif rr[0] != r2[0]:
                probs.append("oracle: merge accepted in one order and refused in the other (AnnotatedState)")
            ctx.count("astate:merge:" + exp[0])
        elif name in ("eq", "str_eq"):
            o = AnnotatedState([list(x) for x in q[1]])
            same = srt == [sorted(x) for x in q[1]]
            ctx.count("astate:eq:" + ("equal-as-multisets" if same else "different"))
            if name == "eq":
                got, exp = ires(lambda: st == o), ("ok", same)
            else:
                got, exp = ires(lambda: str(st) == str(o)), ("ok", same)
            if same and hash(st) != hash(o):
                probs.append("oracle: equal AnnotatedStates hash differently")
            if same and {st: 1}.get(o) != 1:
                probs.append("oracle: an equal AnnotatedState is not found as a dict key")
        elif name in ("set_s", "set_n_modes", "set_item"):
            def do():
                if name == "set_s":
                    st.s = [[9]]
                elif name == "set_n_modes":
                    st.n_modes = 7
                else:
                    st[0] = [9]
            got, exp = ires(do), ("err", "AnnotatedStateError")
        elif name == "client":
            handles: list = []
            aliased = False
            for op in q[1]:
                try:
                    if op[0] == "readS":
                        handles.extend(st.s if len(handles) % 2 == 0 else list(st))
                    elif op[0] == "getRow":
                        handles.append(st[op[1]])
                    elif op[0] == "append" and op[1] < len(handles):
                        handles[op[1]].append(op[2])
                    elif op[0] == "setS":
                        st.s = [[1]]
                    elif op[0] == "setNModes":
                        st.n_modes = 1
                    elif op[0] == "setItem":
                        st[0] = [5]
                    elif op[0] == "slice":
                        for x in st[sl(op[1:])].s:
                            x.append(4)
                except Exception:  # noqa: BLE001
                    pass
            got, exp = ires(lambda: st.s), ("ok", srt)
            if any(op[0] == "getRow" for op in q[1]) and any(op[0] == "append" for op in q[1]):
                ctx.count("astate:client:appended-after-getitem")
                aliased = True
            if got != exp:
                kind = "obj[i] hands out the internal label list" if aliased else "a value handed out by the API aliases the state"
                probs.append(f"oracle: AnnotatedState({srt}) changed to {got[1] if got[0] == 'ok' else got} by client code "
                             f"that only used values returned by the API ({kind}): {q[1]}")
                if got != m:
                    probs.append(f"corr: AnnotatedState({srt}) {q}: impl={got} model={m}")
                break
        else:
            raise ValueError(name)
        if exp is not None and got != exp:
            probs.append(f"oracle: AnnotatedState({srt}) {q}: got {got}, expected {exp}")
        if got != m:
            probs.append(f"corr: AnnotatedState({srt}) {q}: impl={got} model={m}")
        if st.s != srt or hash(st) != h0:
            probs.append(f"oracle: AnnotatedState({srt}) changed to {st.s} after {q}")
            break
    return probs


def observe(x) -> tuple:
    """everything the API tells about a state value, as fresh plain Python data"""
    ann = isinstance(x, AnnotatedState)
    cp = (lambda e: list(e)) if ann else (lambda e: e)
    return (json.dumps(x.s), str(x), repr(x), hash(x), x.n_photons, x.n_modes, len(x), json.dumps([cp(e) for e in x]),
            json.dumps([cp(x[i]) for i in range(len(x))]), json.dumps(x[:].s))


def mutate(h, name: str, val: int) -> bool:
    """in-place change of a list obtained from the API -> whether something was changed"""
    before = json.dumps(h)
    try:
        if name == "append":
            h.append(val)
        elif name == "clear":
            h.clear()
        elif name == "setitem":
            h[0] = val
        elif name == "sort":
            h.sort(reverse=True)
        elif name == "reverse":
            h.reverse()
        elif name == "extend":
            h.extend([val, val])
        elif name == "iadd":
            h += [val]
        elif name == "pop":
            h.pop()
        elif name == "insert":
            h.insert(0, val)
        elif name == "del":
            del h[:]
        elif name == "imul":
            h *= 2
        elif name == "inner":
            if h and isinstance(h[0], list):
                h[0].append(val)
            else:
                h.append(val)
    except (IndexError, TypeError):
        return False
    return json.dumps(h) != before


def run_alias(ctx: Ctx, case: dict) -> list[str]:
    """no model counterpart (the model's client world has three ways to obtain a value): the immutability clause on the
    implementation, for values obtained by every accessor of the public API and changed by every in-place list operation"""
    import copy as copymod

    typ = case["type"]
    ann = typ == "astate"
    cls = AnnotatedState if ann else State
    mk = (lambda v: AnnotatedState([list(r) for r in v])) if ann else (lambda v: State(list(v)))
    st = mk(case["v"])
    ctx.count("alias:oracle-only")
    watch = [("the state", st, observe(st))]  # every state value seen so far, with what it looked like when first seen
    handles: list = []  # (mutable list, accessor it came from)

    def see(name, obj):
        """a derived state: watch it, and harvest the lists its own accessors hand out"""
        watch.append((name, obj, observe(obj)))
        handles.append((obj.s, name + ".s"))
        if ann:
            handles.extend((r, name + ".s[i]") for r in obj.s)
            handles.extend((obj[i], name + "[i]") for i in range(len(obj)))
            handles.extend((r, "iteration of " + name) for r in obj)
        else:
            handles.append((list(obj), "list(" + name + ")"))

    for op in case["prog"]:
        acc = op[0]
        if acc == "mut":
            if not handles:
                continue
            h, src = handles[op[1] % len(handles)]
            changed = mutate(h, op[2], op[3])
            ctx.count("alias:mutation:" + op[2] + (":effective" if changed else ":no-op"))
            for name, obj, was in watch:
                now = ires(lambda: observe(obj))
                if now != ("ok", was):
                    fields = ["s", "str", "repr", "hash", "n_photons", "n_modes", "len", "iteration", "integer subscripts", "full slice"]
                    diff = [f for f, a, b in zip(fields, was, now[1]) if a != b] if now[0] == "ok" else ["reading it raises"]
                    return [f"oracle: aliasing: {cls.__name__} value changed through <{src}>: after {op[2]} on the list it "
                            f"returned, {name} built from {case['v']} reads {now[1][0] if now[0] == 'ok' else now} "
                            f"(was {was[0]}; changed: {', '.join(diff)})"]
            continue
        ctx.count(f"alias:{typ}:{acc}")
        try:
            if acc == "s":
                out = st.s
                handles.append((out, ".s"))
                if ann:
                    handles.extend((r, ".s[i]") for r in out)
            elif acc == "s_row":
                handles.append((st.s[op[1]], ".s[i]"))
            elif acc == "getitem":
                handles.append((st[op[1]], "obj[i]"))
            elif acc == "list":
                out = list(st)
                handles.append((out, "list(obj)"))
                if ann:
                    handles.extend((r, "iteration") for r in out)
            elif acc == "for":
                for r in st:
                    handles.append((r, "iteration"))
            elif acc == "next":
                handles.append((next(iter(st)), "next(iter(obj))"))
            elif acc == "unpack":
                out = [*st]
                handles.append((out, "[*obj]"))
                if ann:
                    handles.extend((r, "[*obj]") for r in out)
            elif acc == "reversed":
                out = list(reversed(st))
                handles.append((out, "reversed(obj)"))
                if ann:
                    handles.extend((r, "reversed(obj)") for r in out)
            elif acc == "slice":
                see(f"obj[{op[1]}:{op[2]}:{op[3]}]", st[sl(op[1:])])
            elif acc in ("add", "radd"):
                o = mk(op[1])
                watch.append(("the other operand of +", o, observe(o)))
                see("obj + other" if acc == "add" else "other + obj", st + o if acc == "add" else o + st)
            elif acc == "merge":
                o = mk(op[1])
                watch.append(("the argument of merge", o, observe(o)))
                see("obj.merge(other)", st.merge(o))
            elif acc == "copy":
                see("copy.copy(obj)", copymod.copy(st))
            elif acc == "deepcopy":
                see("copy.deepcopy(obj)", copymod.deepcopy(st))
            elif acc == "ctor":
                see(f"{cls.__name__}(values of obj)", AnnotatedState(st.s) if ann else State(st))
            elif acc == "heralds":
                handles.append((add_heralds_to_state(st, {}), "add_heralds_to_state(obj, {})"))
                handles.append((remove_heralds_from_state(st, []), "remove_heralds_from_state(obj, [])"))
                if len(st):
                    handles.append((remove_heralds_from_state(st, [0]), "remove_heralds_from_state(obj, [0])"))
                    handles.append((add_heralds_to_state(st, {0: 1}), "add_heralds_to_state(obj, {0: 1})"))
            else:
                raise ValueError(acc)
        except (IndexError, StopIteration, ValueError) as e:
            if isinstance(e, ValueError) and acc not in ("merge", "slice"):
                raise
            ctx.count(f"alias:{typ}:{acc}:not-applicable")
    return []


OBS_FIELDS = ["s", "str", "repr", "hash", "n_photons", "n_modes", "len", "iteration", "integer subscripts", "full slice"]
ADD_FAMILY = ("iadd", "iconcat", "add", "radd")
SYMBOL = {"iadd": "+=", "iconcat": "operator.iconcat", "isub": "-=", "imul": "*=", "imatmul": "@=", "itruediv": "/=", "ifloordiv": "//=",
          "imod": "%=", "ipow": "**=", "ilshift": "<<=", "irshift": ">>=", "iand": "&=", "ixor": "^=", "ior": "|=", "add": "+", "sub": "-",
          "mul": "*", "matmul": "@", "or": "|", "and": "&", "lt": "<", "le": "<=", "gt": ">", "ge": ">=", "eq": "==", "ne": "!="}


def run_ops(ctx: Ctx, case: dict) -> list[str]:
    """operator forms on objects that are referenced elsewhere.  Oracle: the immutability clause (every state object seen so far
    reads as when first seen and is still found as a dict key / set member by an equal fresh key) and list semantics for the forms
    the property defines (+ in all its spellings, merge, ==, len, in, reversed, copies); the value of every sum / merge is also
    compared with the model's `+` / merge"""
    import copy as copymod
    import functools
    import operator
    import pickle
    import types

    typ = case["type"]
    ann = typ == "astate"
    cls = AnnotatedState if ann else State
    kind = "astate" if ann else "state"
    norm = (lambda v: [sorted(r) for r in v]) if ann else (lambda v: list(v))
    mk = (lambda v: AnnotatedState([list(r) for r in v])) if ann else (lambda v: State(list(v)))
    photons = (lambda v: sum(len(r) for r in v)) if ann else (lambda v: sum(v))
    cat = (lambda a, b: sorted(a + b)) if ann else (lambda a, b: a + b)  # merge of one mode
    watch: list = []  # every state object seen, with what it looked like when first seen and the containers holding it
    objs: list = []  # the values a name can be bound to: the original and every result

    def see(name, obj):
        for w in watch:
            if w["obj"] is obj:
                return w
        k = len(watch)
        w = {"name": name, "obj": obj, "was": observe(obj), "val": json.loads(json.dumps(obj.s)), "k": k, "d": {obj: k}, "set": {obj},
             "lst": [obj, obj], "fz": frozenset([obj]), "tup": (obj,)}
        watch.append(w)
        return w

    def valof(obj):
        return see("?", obj)["val"]

    def unchanged(desc: str) -> str | None:
        for w in watch:
            now = ires(lambda: observe(w["obj"]))  # noqa: B023
            if now != ("ok", w["was"]):
                diff = [f for f, a, b in zip(OBS_FIELDS, w["was"], now[1]) if a != b] if now[0] == "ok" else ["reading it raises"]
                return (f"oracle: immutability: a {cls.__name__} changed by <{desc}>: {w['name']} (value {w['val']}) now reads "
                        f"{now[1][0] if now[0] == 'ok' else now} (changed: {', '.join(diff)}); program on {cls.__name__}({case['v']})")
            fresh = mk(w["val"])
            found = ires(lambda: (w["d"].get(fresh), fresh in w["set"], w["obj"] in w["set"], w["d"].get(w["obj"]),  # noqa: B023
                                  w["lst"].count(fresh), fresh in w["fz"], w["tup"].index(fresh), next(iter(w["d"])) is w["obj"]))  # noqa: B023
            if found != ("ok", (w["k"], True, True, w["k"], 2, True, 0, True)):
                return (f"oracle: immutability: after <{desc}> {w['name']} (value {w['val']}), held as a dict key / set member / list "
                        f"element, is no longer found there by an equal {cls.__name__}: {found}")
        return None

    def operand(spec, target):
        """-> (object, its value as a state of this class or None, text)"""
        k = spec[0]
        if k == "same":
            o = mk(spec[1])
            see(f"the operand {cls.__name__}({norm(spec[1])})", o)
            return o, norm(spec[1]), f"{cls.__name__}({norm(spec[1])})"
        if k == "fit":  # a state of the same class and length (merge)
            n = len(valof(target))
            v = [spec[1][i % len(spec[1])] for i in range(n)]
            o = mk(v)
            see(f"the operand {cls.__name__}({norm(v)})", o)
            return o, norm(v), f"{cls.__name__}({norm(v)})"
        if k == "empty":
            o = mk([])
            see("the empty operand", o)
            return o, [], f"{cls.__name__}([])"
        if k == "self":
            return target, valof(target), "the object itself"
        if k == "seen":
            o = objs[spec[1] % len(objs)]
            return o, valof(o), f"the value #{spec[1] % len(objs)} seen earlier"
        if k == "other_type":
            if ann:
                return State([len(r) for r in spec[1]]), None, "a State"
            return AnnotatedState([[j] * max(n, 0) for j, n in enumerate(spec[1])]), None, "an AnnotatedState"
        if k == "int":
            return spec[1], None, repr(spec[1])
        if k == "list":
            return norm(spec[1]), None, f"the list {norm(spec[1])}"
        if k == "tuple":
            return tuple(norm(spec[1])), None, f"the tuple {tuple(norm(spec[1]))}"
        return None, None, "None"

    def model_value(name: str, a: list, b: list):
        q = [[name, b]]
        r = ctx.model.call({"op": "sv", "kind": "state", "s": a, "q": q} if not ann else {"op": "sv", "kind": "astate", "rows": a, "q": q})
        return mres((r["q"] if ann else r)[0], name)

    orig = mk(case["v"])
    see("the original", orig)
    objs.append(orig)
    bad = unchanged("construction")
    if bad:
        return [bad]
    for step in case["prog"]:
        op = step["op"]
        T = objs[step["on"] % len(objs)]
        tv = valof(T)
        tname = f"b (bound to value #{step['on'] % len(objs)} = {tv})"
        exp = None  # ("state", value) | ("value", v) | ("err", class) | None = not defined by the property
        model = None  # (query, left, right) whose model result the state result is compared with
        ctx.count("ops:" + op)
        if op in AUG_OPS or op in BIN_OPS:
            O, ov, otext = operand(step["arg"], T)
            ctx.count(f"ops:operand:{step['arg'][0]}")
            via = step.get("via", "operator") if op == "iadd" else "operator"
            desc = f"b {SYMBOL.get(op, op)} {otext}"
            if op == "radd":
                desc = f"{otext} + b"
            elif op == "rmul":
                desc = f"{otext} * b"
            if op == "iadd":
                ctx.count("ops:iadd:via:" + via)
                desc += {"name": " (b is a second name of the object)", "list": " (written l[0] += ..., l = [obj, obj])",
                         "dict": " (written d['k'] += ..., d = {'k': obj})", "attr": " (written ns.x += ..., ns.x = obj)",
                         "loop": " (twice, in a loop starting from the object)", "operator": " (operator.iadd)"}[via]

                def f():
                    if via == "name":
                        b = T
                        b += O
                        return b
                    if via == "list":
                        l = [T, T]
                        l[0] += O
                        if l[1] is not T:
                            raise AssertionError
                        return l[0]
                    if via == "dict":
                        dd = {"k": T, "other": T}
                        dd["k"] += O
                        return dd["k"]
                    if via == "attr":
                        ns = types.SimpleNamespace(x=T, y=T)
                        ns.x += O
                        return ns.x
                    if via == "loop":
                        acc = T
                        for part in (O, O):
                            acc += part
                        return acc
                    return operator.iadd(T, O)
            elif op in ("radd", "rmul"):
                f = (lambda: O + T) if op == "radd" else (lambda: O * T)
            else:
                fn = getattr(operator, op if op in AUG_OPS else {"or": "or_", "and": "and_"}.get(op, op))
                f = lambda: fn(T, O)  # noqa: E731
            if op in ADD_FAMILY:
                if ov is not None:
                    left, right = (ov, tv) if op == "radd" else (tv, ov)
                    if via == "loop":
                        exp = ("state", left + right + right)
                    else:
                        exp = ("state", left + right)
                        model = ("add", left, right)
                else:
                    exp = ("err", "TypeError")
            elif op in ("eq", "ne"):
                exp = ("value", (ov is not None and ov == tv) == (op == "eq"))
        elif op in FOLD_OPS:
            (O1, v1, t1), (O2, v2, t2) = operand(step["arg"], T), operand(step["arg2"], T)
            if op == "sum_from_empty":
                desc, f, exp = f"sum([b, {t1}, {t2}], {cls.__name__}([]))", (lambda: sum([T, O1, O2], mk([]))), ("state", tv + v1 + v2)
            elif op == "sum_from_obj":
                desc, f, exp = f"sum([{t1}, {t2}], b)", (lambda: sum([O1, O2], T)), ("state", tv + v1 + v2)
            elif op == "sum_default":  # 0 + state: refused unless a reflected + accepts 0
                desc, f = f"sum([b, {t1}])", (lambda: sum([T, O1]))
            elif op == "reduce_add":
                desc, f, exp = f"functools.reduce(operator.add, [b, {t1}, {t2}])", (lambda: functools.reduce(operator.add, [T, O1, O2])), ("state", tv + v1 + v2)
            else:
                desc, f, exp = f"functools.reduce(operator.iadd, [{t1}, {t2}], b)", (lambda: functools.reduce(operator.iadd, [O1, O2], T)), ("state", tv + v1 + v2)
        elif op in MERGE_OPS:
            (O1, v1, t1), (O2, v2, t2) = operand(step["arg"], T), operand(step["arg2"], T)
            ok1, ok2 = len(v1) == len(tv), len(v2) == len(tv)
            m1 = [cat(a, b) for a, b in zip(tv, v1)]
            if op == "merge":
                desc, f, exp = f"b.merge({t1})", (lambda: T.merge(O1)), ("state", m1) if ok1 else ("err", "ValueError")
                model = ("merge", tv, v1) if ok1 else None
            elif op == "merge_reflected":
                desc, f, exp = f"{t1}.merge(b)", (lambda: O1.merge(T)), ("state", m1) if ok1 else ("err", "ValueError")
            elif op == "merge_chain":
                desc, f = f"b.merge({t1}).merge({t2})", (lambda: T.merge(O1).merge(O2))
                exp = ("state", [cat(a, b) for a, b in zip(m1, v2)]) if ok1 and ok2 else ("err", "ValueError")
            else:
                desc, f, exp = "b.merge(b)", (lambda: T.merge(T)), ("state", [cat(a, a) for a in tv])
        else:
            k, slc, proto = step.get("k", 0), sl(step.get("sl", [None, None, None])), step.get("proto", 2)
            desc = {"getitem": f"b[{k}]", "slice": f"b[{slc.start}:{slc.stop}:{slc.step}]", "contains": f"{k} in b", "pickle": f"pickle round trip of b (protocol {proto})",
                    "setitem": f"b[{k}] = 9", "delitem": f"del b[{k}]"}.get(op, f"{op} on b")
            item = ([k] if ann else k)
            if op in ("pos", "neg", "invert", "abs"):
                fn = {"pos": operator.pos, "neg": operator.neg, "invert": operator.invert, "abs": abs}[op]
                f = lambda: fn(T)  # noqa: E731
            elif op == "bool":
                f, exp = (lambda: bool(T)), ("value", len(tv) > 0)
            elif op == "len":
                f, exp = (lambda: len(T)), ("value", len(tv))
            elif op == "hash":
                f, exp = (lambda: hash(T)), ("value", hash(mk(tv)))
            elif op == "str":
                f, exp = (lambda: str(T)), ("value", str(mk(tv)))
            elif op == "repr":
                f, exp = (lambda: repr(T)), ("value", repr(mk(tv)))
            elif op == "format":
                f, exp = (lambda: f"{T}|{T!s:>3}|{T!r}"), ("value", f"{mk(tv)}|{mk(tv)!s:>3}|{mk(tv)!r}")
            elif op == "iter":
                f, exp = (lambda: [list(x) if ann else x for x in iter(T)]), ("value", tv)
            elif op == "reversed":
                f, exp = (lambda: [list(x) if ann else x for x in reversed(T)]), ("value", tv[::-1])
            elif op == "contains":
                f, exp = (lambda: item in T), ("value", item in tv)
            elif op == "s":
                f, exp = (lambda: T.s), ("value", tv)
            elif op == "copy":
                f, exp = (lambda: copymod.copy(T)), ("state", tv)
            elif op == "deepcopy":
                f, exp = (lambda: copymod.deepcopy(T)), ("state", tv)
            elif op == "pickle":
                f = lambda: pickle.loads(pickle.dumps(T, proto))  # noqa: E731,S301
                exp = ("state", tv) if proto >= 2 else None  # protocols 0 / 1 refuse classes with __slots__ (Python's rule)
            elif op == "getitem":
                f = lambda: T[k]  # noqa: E731
                exp = ("value", tv[k]) if -len(tv) <= k < len(tv) else ("err", "IndexError")
            elif op == "slice":
                f, exp = (lambda: T[slc]), ("state", tv[slc])
            else:
                def f():
                    if op == "setitem":
                        T[k] = 9
                    elif op == "setslice":
                        T[slc] = [9]
                    elif op == "delitem":
                        del T[k]
                    elif op == "delslice":
                        del T[slc]
                    elif op == "set_s":
                        T.s = [[9]] if ann else [9]
                    elif op == "del_s":
                        del T.s
                    elif op == "set_n_modes":
                        T.n_modes = 7
                    elif op == "setattr":
                        T.label = "x"
                    elif op == "delattr":
                        del T.n_photons
                    return "accepted"
        got = ires(f)
        ctx.count(f"ops:{op}:{'ok' if got[0] == 'ok' else got[1]}")
        res = got[1] if got[0] == "ok" else None
        if isinstance(res, (State, AnnotatedState)):
            if type(res) is cls:
                objs.append(res)
            fresh_obj = all(w["obj"] is not res for w in watch)
            if not fresh_obj:
                ctx.count("ops:result-is-an-existing-object")
            see(f"the result of <{desc}>", res)
        # the value the property defines for this form
        if exp is not None:
            if exp[0] == "state":
                ev = exp[1]
                if got[0] != "ok" or type(res) is not cls:
                    return [f"oracle: {cls.__name__}({tv}): <{desc}> gave {got if got[0] == 'err' else type(res).__name__}, expected the "
                            f"{cls.__name__} {ev} [form: {op}]"]
                if res.s != ev or res.n_modes != len(ev) or res.n_photons != photons(ev) or res != mk(ev) or hash(res) != hash(mk(ev)):
                    return [f"oracle: {cls.__name__}({tv}): <{desc}> gave {res.s} (n_modes {res.n_modes}, n_photons {res.n_photons}), "
                            f"expected {ev} [form: {op}]"]
                if model is not None:
                    mv = model_value(*model)
                    if mv != ("ok", res.s):
                        return [f"corr: {cls.__name__}({tv}) <{desc}>: impl={res.s} model {model[0]}={mv}"]
            elif exp[0] == "value":
                if got != ("ok", exp[1]) or type(got[1]) is not type(exp[1]):
                    return [f"oracle: {cls.__name__}({tv}): <{desc}> gave {got}, expected {exp[1]!r} [form: {op}]"]
            elif got != exp:
                return [f"oracle: {cls.__name__}({tv}): <{desc}> gave {got if got[0] == 'err' else 'a result'}, expected {exp[1]} [form: {op}]"]
        elif op == "sum_default" and got[0] == "ok" and (type(res) is not cls or res.s != tv + v1):
            return [f"oracle: {cls.__name__}({tv}): <{desc}> gave {got}, expected TypeError or the {cls.__name__} {tv + v1}"]
        bad = unchanged(desc)
        if bad:
            return [bad + f" [form: {op}]"]
    return []


def run_heralds(ctx: Ctx, case: dict) -> list[str]:
    probs: list[str] = []
    s, hl, modes = list(case["s"]), case["h"], list(case["modes"])
    h = {k: v for k, v in hl}
    n = len(s) + len(h)
    arg = State(list(s)) if case.get("as_state") else list(s)
    model = ctx.model.call({"op": "sv", "kind": "heralds", "s": s, "h": [[k, v] for k, v in h.items()], "modes": modes})
    got = ires(lambda: add_heralds_to_state(arg, dict(h)))
    in_range = all(0 <= k < n for k in h)
    ctx.count("heralds:add:" + ("in-range" if in_range else "out-of-range") + (":empty" if not h else ""))
    if list(h) != sorted(h):
        ctx.count("heralds:add:keys-not-in-mode-order")
    m = mres(model["add"], "add_heralds")
    if got != m:
        probs.append(f"corr: add_heralds_to_state({s}, {h}): impl={got} model={m}")
    if (list(arg) if not isinstance(arg, State) else arg.s) != s:
        probs.append("oracle: add_heralds_to_state modified its argument")
    if in_range:
        if got[0] != "ok":
            probs.append(f"oracle: add_heralds_to_state({s}, {h}) raised {got[1]} for in-range heralds")
        else:
            t = got[1]
            if len(t) != n or any(t[k] != v for k, v in h.items()) or [x for i, x in enumerate(t) if i not in h] != s:
                probs.append(f"oracle: add_heralds_to_state({s}, {h}) = {t}: heralds/state modes misplaced")
            if t is arg:
                probs.append("oracle: add_heralds_to_state returned its argument (no copy)")
            # any key order gives the same state
            for hh in (dict(sorted(h.items())), dict(sorted(h.items(), reverse=True))):
                if add_heralds_to_state(list(s), hh) != t:
                    probs.append(f"oracle: add_heralds_to_state depends on the key order of the herald dictionary {h}")
            # round trip, herald modes listed in any order
            for ks in (list(h), sorted(h), sorted(h, reverse=True)):
                back = ires(lambda: remove_heralds_from_state(list(t), list(ks)))
                if back != ("ok", s):
                    probs.append(f"oracle: remove_heralds_from_state(add_heralds_to_state({s}, {h}), {ks}) = {back}, not the original")
            back_s = ires(lambda: remove_heralds_from_state(State(list(t)), list(h)))
            if back_s != ("ok", s):
                probs.append("oracle: round trip through a State argument fails")
            mb = mres(model["remove_of_add"], "remove_heralds")
            if mb != ("ok", s):
                probs.append(f"corr: model round trip gives {mb}")
    # two-step probe: what the helpers return belongs to the caller; changing it must not reach the argument
    for hh in ({}, dict(h) if in_range else {}):
        a2 = State(list(s)) if case.get("as_state") else list(s)
        t2 = ires(lambda: add_heralds_to_state(a2, dict(hh)))
        t3 = ires(lambda: remove_heralds_from_state(a2, []))
        for t in (t2, t3):
            if t[0] == "ok" and isinstance(t[1], list):
                t[1].append(99)
                t[1].reverse()
        if (a2.s if isinstance(a2, State) else a2) != s or (isinstance(a2, State) and (str(a2) != str(State(list(s))) or a2.n_photons != sum(s))):
            probs.append(f"oracle: changing the list returned by add_heralds_to_state / remove_heralds_from_state changed the argument {s}")
    # plain removal
    rem = ires(lambda: remove_heralds_from_state(list(s), list(modes)))
    mr = mres(model["remove"], "remove_heralds")
    if rem != mr:
        probs.append(f"corr: remove_heralds_from_state({s}, {modes}): impl={rem} model={mr}")
    clean = len(set(modes)) == len(modes) and all(0 <= k < len(s) for k in modes)
    ctx.count("heralds:remove:" + ("distinct-in-range" if clean else "irregular"))
    if clean:
        exp = ("ok", [x for i, x in enumerate(s) if i not in modes])
        if rem != exp:
            probs.append(f"oracle: remove_heralds_from_state({s}, {modes}) = {rem}, expected {exp}")
        elif modes:
            again = ires(lambda: add_heralds_to_state(rem[1], {k: s[k] for k in modes}))
            if again != ("ok", s):
                probs.append(f"oracle: re-inserting the removed modes of {s} at {modes} gives {again}")
    return probs


def db_tol(x: float) -> float:
    return 1e-9 + 4e-15 * 10 ** (abs(x) / 10)


def run_db(ctx: Ctx, case: dict) -> list[str]:
    probs: list[str] = []
    mode = case["mode"]
    ctx.count("db:" + mode)
    if mode == "guard" and "special" in case:
        # values a rational cannot express; the clauses of the property only (no model)
        ctx.count("db:guard:" + case["special"] + ":oracle-only")
        sp = {"inf": float("inf"), "-inf": float("-inf"), "-0.0": -0.0, "nextafter(1,2)": math.nextafter(1.0, 2.0),
              "nextafter(0,-1)": math.nextafter(0.0, -1.0), "int0": 0, "int1": 1, "1e300": 1e300}[case["special"]]
        got = ires(lambda: decimal_to_db_loss(sp))
        want = ("ok", 0.0) if sp == 0 else ("err", "ValueError")
        if got != want:
            probs.append(f"oracle: decimal_to_db_loss({sp!r}) = {got}, expected {want} (only values in [0, 1) are converted)")
        return probs
    if mode == "large":
        x = float(case["x"])
        ctx.count("db:large:oracle-only")
        d = ires(lambda: db_loss_to_decimal(x))
        if d[0] != "ok" or not (0.999999 <= d[1] <= 1):
            probs.append(f"oracle: db_loss_to_decimal({x}) = {d} is not a loss just below (or, after rounding, equal to) 1")
            return probs
        if db_loss_to_decimal(-x) != d[1]:
            probs.append("oracle: db_loss_to_decimal depends on the sign of its argument")
        if db_loss_to_decimal(x / 2) > d[1] or db_loss_to_decimal(abs(x) + 1) < d[1]:
            probs.append(f"oracle: db_loss_to_decimal is not monotone in the size of the loss around {x}")
        b = ires(lambda: decimal_to_db_loss(d[1]))
        if d[1] == 1:
            ctx.count("db:large:rounds-to-total-loss")
            if b != ("err", "ValueError"):
                probs.append(f"oracle: decimal_to_db_loss(1.0) = {b}, a ValueError is documented")
        elif b[0] != "ok" or b[1] < 0 or abs(b[1] - abs(x)) > db_tol(x):
            probs.append(f"oracle: decimal_to_db_loss(db_loss_to_decimal({x})) = {b}, expected {abs(x)} within {db_tol(x)}")
        return probs
    if mode == "guard":
        l = Fraction(case["l"])
        got = ires(lambda: decimal_to_db_loss(float(l)))
        lf = Fraction(float(l))  # what the code actually sees
        if 0 < lf < 1:
            # inside the domain after all (no exact power of ten for the model's table): the clause on the implementation only
            ctx.count("db:guard:inside-after-rounding:oracle-only")
            if got[0] != "ok" or got[1] < 0:
                probs.append(f"oracle: decimal_to_db_loss({float(l)!r}) = {got} for a loss inside [0, 1)")
            return probs
        table = [["0", "1"]] if lf == 0 else []
        m = mres(ctx.model.call({"op": "sv", "kind": "db", "fn": "to_db", "x": frac_str(lf), "table": table}), "to_db")
        exp_err = lf < 0 or lf >= 1
        if exp_err and got != ("err", "ValueError"):
            probs.append(f"oracle: decimal_to_db_loss({float(l)}) = {got}, a ValueError is documented")
        if (got[0], got[1] if got[0] == "err" else None) != (m[0], m[1] if m[0] == "err" else None):
            probs.append(f"corr: decimal_to_db_loss({float(l)}): impl={got} model={m}")
        if not exp_err and got[0] == "ok" and abs(got[1] - float(Fraction(m[1]))) > 1e-9:
            probs.append(f"corr: decimal_to_db_loss({float(l)}): impl={got} model={m}")
        return probs
    if mode == "pair":
        p = Fraction(case["p"])
        x = -10 * math.log10(p) + 0.0
        if case["neg"]:
            x = -x
        X = Fraction(x)
        table = [[frac_str(-abs(X) / 10), frac_str(p)]]
        md = mres(ctx.model.call({"op": "sv", "kind": "db", "fn": "to_dec", "x": frac_str(X), "table": table}), "to_dec")
        got = ires(lambda: db_loss_to_decimal(x))
        if got[0] != "ok" or md[0] != "ok" or abs(got[1] - float(Fraction(md[1]))) > 1e-9:
            probs.append(f"corr: db_loss_to_decimal({x}): impl={got} model={md}")
        if got[0] == "ok" and abs(got[1] - float(1 - p)) > 1e-9:
            probs.append(f"oracle: db_loss_to_decimal({x}) = {got[1]}, expected 1 - {p}")
        if got[0] == "ok" and db_loss_to_decimal(-x) != got[1]:
            probs.append("oracle: db_loss_to_decimal depends on the sign of its argument")
        if p == 1:
            ctx.count("db:pair:0dB")
            if got != ("ok", 0.0):
                probs.append(f"oracle: db_loss_to_decimal({x!r}) = {got}, 0 dB is no loss")
        if p < 1 or True:
            l = 1 - p
            mb = mres(ctx.model.call({"op": "sv", "kind": "db", "fn": "to_db", "x": frac_str(l), "table": table}), "to_db")
            gb = ires(lambda: decimal_to_db_loss(float(l)))
            # the float handed over is the decimal loss exactly (then 1 - loss is exact as well) or a rounding of it
            exact = Fraction(float(l)) == l
            ctx.count("db:pair:" + ("decimal-exact-in-float" if exact else "decimal-rounded") +
                      (":loss-near-1" if p < Fraction(1, 1000) else ":loss-near-0" if p > Fraction(999, 1000) else ""))
            tol = 1e-9 if exact else db_tol(x)
            if gb[0] != mb[0] or (gb[0] == "ok" and abs(gb[1] - float(Fraction(mb[1]))) > tol):
                probs.append(f"corr: decimal_to_db_loss({float(l)}): impl={gb} model={mb}")
            if gb[0] == "ok" and (gb[1] < 0 or abs(gb[1] - abs(x)) > tol):
                probs.append(f"oracle: decimal_to_db_loss(1 - {p}) = {gb[1]}, expected {abs(x)}")
        return probs
    x = float(case["x"])
    xa = db_arg(x, case.get("argtype", "float"))
    ctx.count("db:round:arg:" + case.get("argtype", "float") + (":zero" if x == 0 else ":negative" if x < 0 else ""))
    d = ires(lambda: db_loss_to_decimal(xa))
    if d[0] == "ok":
        d = ("ok", float(d[1]))
    if d[0] != "ok" or not (0 <= d[1] < 1):
        probs.append(f"oracle: db_loss_to_decimal({xa!r}) = {d} is not a loss in [0, 1)")
        return probs
    if x == 0 and d[1] != 0:
        probs.append(f"oracle: db_loss_to_decimal({xa!r}) = {d[1]}, 0 dB is no loss")
    if abs(d[1] - float(db_loss_to_decimal(x))) > 1e-6 * max(d[1], 1e-300) + 1e-12 or db_loss_to_decimal(-x) != db_loss_to_decimal(x):
        probs.append(f"oracle: db_loss_to_decimal({xa!r}) differs from the value for the float {x} / for the opposite sign")
    b = ires(lambda: decimal_to_db_loss(d[1]))
    if b[0] != "ok" or abs(b[1] - abs(x)) > db_tol(x):
        probs.append(f"oracle: decimal_to_db_loss(db_loss_to_decimal({x})) = {b}, expected {abs(x)}")
    elif abs(db_loss_to_decimal(b[1]) - d[1]) > 1e-9:
        probs.append(f"oracle: db_loss_to_decimal(decimal_to_db_loss({d[1]})) does not return {d[1]}")
    return probs


_PERM_CONTRACT: dict = {}


def perm_contract_ok() -> bool:
    """numpy contract relied upon for the model's tape: permuting the rows of identity(N) with a
    seeded Generator uses the same order as permuting range(N) with the same seed"""
    if "ok" not in _PERM_CONTRACT:
        ok = True
        for nn in range(1, 11):
            for sd in (0, 1, 7, 12345):
                a = np.random.default_rng(sd).permutation(np.identity(nn, dtype=complex))
                sg = np.random.default_rng(sd).permutation(nn)
                ok = ok and bool((a == np.identity(nn)[sg]).all())
        _PERM_CONTRACT["ok"] = ok
    return _PERM_CONTRACT["ok"]


BIG_N = 12  # two different orders of 12 rows coincide with probability 1/12!


def run_rand(ctx: Ctx, case: dict) -> list[str]:
    probs: list[str] = []
    n, kind = case["N"], case["seed_kind"]
    seed, mseed = make_seed(kind, case["v"], case)
    ctx.count("rand:seed:" + kind + (":" + case["np"] if "np" in case else ""))
    ms = mres(ctx.model.call({"op": "sv", "kind": "seed", "seed": mseed}), "seed")

    def quiet(f):
        with warnings.catch_warnings():
            warnings.simplefilter("ignore")
            return ires(f)

    p1 = quiet(lambda: random_permutation(n, seed))
    u1 = quiet(lambda: random_unitary(n, seed))
    # numpy / scipy accept only part of the integers as a seed (documented contract of the externals):
    # default_rng needs seed >= 0, scipy's RandomState needs 0 <= seed < 2**32; outside they raise ValueError
    def expected(lo_ok, hi):
        if ms[0] == "err":
            return ms
        v = ms[1]
        if v is None or (lo_ok <= int(v) and (hi is None or int(v) < hi)):
            return ("ok", None)
        ctx.count("rand:seed:outside-the-generator-domain")
        return ("err", "ValueError")

    for nm, r, e in (("random_permutation", p1, expected(0, None)), ("random_unitary", u1, expected(0, 2 ** 32))):
        if r[0] != e[0] or (r[0] == "err" and r[1] != e[1]):
            probs.append(f"corr: {nm}({n}, seed={seed!r}): impl={r[0], r[1] if r[0] == 'err' else '...'} "
                         f"model seed processing={ms}, expected outcome {e}")
    if ms[0] == "err":
        ctx.count("rand:seed:refused")
        if mseed["t"] in ("bool", "other") or (mseed["t"] == "real" and Fraction(mseed["v"]).denominator != 1):
            # documented: anything but an integer (or a number equal to one) raises TypeError - also when it is falsy
            for nm, r in (("random_permutation", p1), ("random_unitary", u1)):
                if r != ("err", "TypeError"):
                    probs.append(f"oracle: {nm}({n}, seed={seed!r}) -> {r[0] if r[0] == 'ok' else r}; a seed that is not an "
                                 "integer raises TypeError")
        return probs
    if p1[0] == "err":
        return probs
    if u1[0] == "err":
        u1 = ("ok", np.identity(n))
        seed_u = None
    else:
        seed_u = seed
    p, u = np.asarray(p1[1]), np.asarray(u1[1])
    eye = np.identity(n)
    # validity
    if p.shape != (n, n) or not np.isin(p, [0, 1]).all() or not (p.sum(axis=0) == 1).all() or not (p.sum(axis=1) == 1).all():
        probs.append(f"oracle: random_permutation({n}, {seed!r}) is not a permutation matrix")
    elif np.abs(p @ p.conj().T - eye).max() > 1e-12:
        probs.append(f"oracle: random_permutation({n}, {seed!r}) is not unitary")
    if u.shape != (n, n) or np.abs(u @ u.conj().T - eye).max() > 1e-9 or np.abs(u.conj().T @ u - eye).max() > 1e-9:
        probs.append(f"oracle: random_unitary({n}, {seed!r}) is not unitary")
    if seed is None:
        return probs
    k = int(ms[1])
    ctx.count("rand:seed-value:" + ("0" if k == 0 else "1" if k == 1 else "2^32-1" if k == 2 ** 32 - 1 else
                                    ">=2^32" if k >= 2 ** 32 else "<0" if k < 0 else "other"))
    # reproducibility: the same seed, every time (a larger permutation as well: small ones coincide by chance)
    pb = quiet(lambda: random_permutation(BIG_N, seed))
    for _ in range(2):
        if not np.array_equal(random_permutation(n, seed), p) or not np.array_equal(random_permutation(BIG_N, seed), pb[1]):
            probs.append(f"oracle: random_permutation(N, {seed!r}) is not reproducible")
            break
        if seed_u is not None and not np.array_equal(random_unitary(n, seed), u):
            probs.append(f"oracle: random_unitary({n}, {seed!r}) is not reproducible")
            break
    if kind != "int":
        # a seed that converts to the integer k behaves like k
        if not np.array_equal(random_permutation(BIG_N, k), pb[1]) or not np.array_equal(random_permutation(n, k), p):
            probs.append(f"oracle: seed {seed!r} does not behave like the integer {k} (random_permutation)")
        if seed_u is not None and not np.array_equal(random_unitary(n, k), u):
            probs.append(f"oracle: seed {seed!r} does not behave like the integer {k} (random_unitary)")
    # the seed is used: a neighbouring seed gives another matrix
    other = k + 1 if k + 1 < 2 ** 32 or k >= 2 ** 32 else k - 1
    ctx.count("rand:compared-with-a-different-seed")
    if np.array_equal(random_permutation(BIG_N, other), pb[1]):
        probs.append(f"oracle: random_permutation({BIG_N}, seed) is the same for the seeds {k} and {other}: the seed is not used")
    if seed_u is not None and np.array_equal(random_unitary(n, other), u):
        probs.append(f"oracle: random_unitary({n}, seed) is the same for the seeds {k} and {other}: the seed is not used")
    # model of the permutation given numpy's order (the tape)
    if perm_contract_ok() and k >= 0:
        ctx.count("rand:perm:model-compared")
        sigma = [int(x) for x in np.random.default_rng(k).permutation(n)]
        mp = mres(ctx.model.call({"op": "sv", "kind": "perm", "N": n, "sigma": sigma, "seed": mseed}), "perm")
        if mp[0] != "ok" or [[complex(Fraction(e.split(",")[0]), Fraction(e.split(",")[1])) for e in row] for row in mp[1]] != p.tolist():
            probs.append(f"corr: random_permutation({n}, {seed!r}) differs from the rows of the identity in numpy's order")
    return probs


RUNNERS = {"state": run_state, "astate": run_astate, "heralds": run_heralds, "db": run_db, "rand": run_rand, "alias": run_alias,
           "ops": run_ops}
GENS = {"state": gen_state_case, "astate": gen_astate_case, "heralds": gen_heralds_case, "db": gen_db_case,
        "rand": gen_rand_case, "alias": gen_alias_case, "ops": gen_ops_case}


def run_case(ctx: Ctx, case: dict) -> list[str]:
    return RUNNERS[case["kind"]](ctx, case)


def nontrivial(case: dict) -> bool:
    k = case["kind"]
    if k == "state":
        return len(case["s"]) >= 2 and len(case["q"]) >= 2
    if k == "astate":
        return sum(1 for r in case["rows"] if r and len(r) >= 2) >= 1 and len(case["q"]) >= 2
    if k == "heralds":
        return len(case["h"]) >= 1 and len(case["s"]) >= 1
    if k == "db":
        return case["mode"] != "guard" and case.get("x", 1) != 0
    if k == "alias":
        return len(case["v"]) >= 2 and any(op[0] == "mut" for op in case["prog"])
    if k == "ops":
        return len(case["v"]) >= 2 and len(case["prog"]) >= 1
    return case["N"] >= 2


def shrink(ctx: Ctx, case: dict) -> dict:
    """smaller case that still shows a problem"""
    def fails(c):
        try:
            return bool(run_case(ctx, c))
        except Exception:  # noqa: BLE001
            return False

    cur = dict(case)
    if cur["kind"] in ("state", "astate") and len(cur.get("q", [])) > 1:
        q = ddmin(cur["q"], lambda sub: fails({**cur, "q": sub}))
        cur = {**cur, "q": q}
        for i, qq in enumerate(cur["q"]):
            if qq[0] == "client" and len(qq[1]) > 1:
                ops = ddmin(qq[1], lambda sub: fails({**cur, "q": cur["q"][:i] + [["client", sub]] + cur["q"][i + 1:]}))
                cur = {**cur, "q": cur["q"][:i] + [["client", ops]] + cur["q"][i + 1:]}
    if cur["kind"] == "astate":
        rows = cur["rows"]
        # drop labels while the problem persists
        for i in range(len(rows)):
            while rows[i] and len(rows[i]) > 1:
                cand = [list(r) if r is not None else None for r in rows]
                cand[i] = cand[i][:-1]
                if fails({**cur, "rows": cand}):
                    rows = cand
                else:
                    break
        cur = {**cur, "rows": rows}
    if cur["kind"] in ("alias", "ops") and len(cur["prog"]) > 1:
        cur = {**cur, "prog": ddmin(cur["prog"], lambda sub: fails({**cur, "prog": sub}))}
    if cur["kind"] == "heralds" and len(cur["h"]) > 1:
        cur = {**cur, "h": ddmin(cur["h"], lambda sub: fails({**cur, "h": sub}))}
    return cur if fails(cur) else case


def selftest(ctx: Ctx) -> None:
    """the comparison must be able to see a difference: feed the model a wrong expectation"""
    r = ctx.model.call({"op": "sv", "kind": "state", "s": [1, 0, 2], "q": [["getitem", -1], ["slice", None, None, -1]]})
    if mres(r[0], "getitem") != ("ok", 2) or mres(r[1], "slice") != ("ok", [2, 0, 1]):
        from core import MachineryFault
        raise MachineryFault(f"driver self-test failed: {r}")
    base = run_state(ctx, {"kind": "state", "s": [1, 0], "q": [["eq", [1, 0]]]})  # reported by run() if non-empty
    # an injected model difference has to be reported
    class Fake:
        calls = 0

        def call(self, req):
            return [{"ok": False}]

    real = ctx._model
    ctx._model = Fake()  # type: ignore[assignment]
    try:
        seen = run_state(ctx, {"kind": "state", "s": [1, 0], "q": [["eq", [1, 0]]]})
    finally:
        ctx._model = real
    if not any(p.startswith("corr") and p not in base for p in seen):
        from core import MachineryFault
        raise MachineryFault("harness self-test: an injected model difference was not reported")
    ctx.branches = {}


def misc_probes(ctx: Ctx) -> None:
    """fixed probes of the operator protocol that have no model counterpart (type errors, conversions)"""
    bad = []
    a = State([1, 0, 2])
    if not (State((1, 0, 2)) == a and State(range(3)).s == [0, 1, 2] and hash(State((1, 0, 2))) == hash(a)):
        bad.append("State built from a tuple / range differs from the State of the same occupations")
    for what, f, cls in (
        ("State + list", lambda: a + [1], "TypeError"),
        ("State['a']", lambda: a["a"], "TypeError"),
        ("State[1.0]", lambda: a[1.0], "TypeError"),
        ("AnnotatedState + State", lambda: AnnotatedState([[0]]) + a, "TypeError"),
        ("AnnotatedState['a']", lambda: AnnotatedState([[0]])["a"], "TypeError"),
        ("State.merge(shorter)", lambda: a.merge(State([1])), "ValueError"),
    ):
        r = ires(f)
        ctx.count("misc:" + what)
        if r != ("err", cls):
            bad.append(f"{what} -> {r}, expected {cls}")
    if a == [1, 0, 2] or AnnotatedState([[0]]) == [[0]] or a == AnnotatedState([[], [], []]):
        bad.append("a state compares equal to an object of another type")
    for b in bad:
        ctx.violation("oracle: " + b, {"case": {"kind": "misc"}, "problems": [b]}, sig={"kind": "misc", "defect": b[:50]})
    # observation, not counted: the constructor keeps the list object it is given
    lst = [1, 0]
    st = State(lst)
    lst.append(7)
    if st.s != [1, 0]:
        ctx.notes.append("observation (not counted): State(list) keeps a reference to the caller's list, so the caller can still "
                         "change the state by mutating that list; nothing handed out by the State API allows it")
    ctx.case("misc-probes", True)


def directed_corpus() -> list:
    """the shapes most likely to be mishandled, always run first (in general form: every kind x every boundary)"""
    out = alias_corpus() + ops_corpus()
    # seeds: every kind at the boundary values
    for kind in dict.fromkeys(SEED_KINDS):
        if kind == "np_int":
            for t in NP_INTS:
                out += [{"kind": "rand", "N": 3, "seed_kind": kind, "np": t, "v": v} for v in (0, 1, int(np.iinfo(t).max))]
        elif kind == "np_float":
            for t in dict.fromkeys(NP_FLOATS):
                out += [{"kind": "rand", "N": 3, "seed_kind": kind, "np": t, "v": v} for v in (0, 1, 2048, 2 ** 32 - 1, 2 ** 32)]
        elif kind == "other":
            out += [{"kind": "rand", "N": 2, "seed_kind": kind, "which": w, "v": 5} for w in range(N_OTHER)]
        else:
            out += [{"kind": "rand", "N": n, "seed_kind": kind, "v": v}
                    for n, v in ((3, 0), (1, 0), (4, 1), (3, 2 ** 32 - 1), (3, 2 ** 32), (2, 2 ** 53), (3, 2 ** 63 - 1))]
    out.append({"kind": "rand", "N": 3, "seed_kind": "float_int", "v": 0, "negzero": True})
    # dB: 0 dB in both sign conventions and every argument type, losses next to 0 and next to 1, very large values, the guard
    for p in ("1", "1/2", "1/4503599627370496", "4503599627370495/4503599627370496", "1/1000000000000000", "999999/1000000", "1/10"):
        out += [{"kind": "db", "mode": "pair", "p": p, "neg": neg} for neg in (False, True)]
    for x in (0.0, -0.0, 3.0, -3.0, 60.0, -60.0, 1e-300, -1e-12):
        out.append({"kind": "db", "mode": "round", "x": x})
        if x == int(x):
            out += [{"kind": "db", "mode": "round", "x": x, "argtype": t} for t in dict.fromkeys(DB_ARGTYPES)]
    for x in DB_LARGE:
        out += [{"kind": "db", "mode": "large", "x": x}, {"kind": "db", "mode": "large", "x": -x}]
    out += [{"kind": "db", "mode": "guard", "special": sp} for sp in DB_SPECIAL]
    out += [{"kind": "db", "mode": "guard", "l": l} for l in ("0", "1", "-1/8", "2", "18014398509481983/18014398509481984",
                                                              "4503599627370497/4503599627370496", "-1/1152921504606846976")]
    return out


def run(ctx: Ctx) -> None:
    ctx.rule = ("generated State / AnnotatedState values with 2-8 API queries each (int and slice subscripts incl. negative "
                "indices and steps, +, merge, ==/hash, refused assignments, client programs mutating returned values), two-step "
                "aliasing probes (every accessor x every in-place list operation, also on derived states), operator forms (every "
                "augmented / reflected / folded spelling of +, all other operators, comparisons, copies, pickling, merges) on "
                "objects that are aliased and held as dict keys / set members / list elements, herald "
                "dictionaries in arbitrary key order with removal lists, exact dB pairs (0 dB, losses next to 0 and next to 1), "
                "float round trips in either sign convention and argument type, very large dB values, the guard at and around "
                "0 and 1, seeded random matrices for every seed kind at boundary and random seed values (reproducible, equal to "
                "the integer seed, different from a neighbouring seed); a directed corpus runs first; ~15% malformed requests; "
                "non-trivial = >=2 modes and >=2 queries / a mode with >=2 labels / >=1 herald on a non-empty state / a non-zero "
                "dB value / N>=2 / a mutated handle of a >=2-mode state / an operator program on a >=2-mode state; distinct = distinct case")
    selftest(ctx)
    SIZE["big"] = ctx.thorough
    rng = ctx.rng
    plan = [("state", ctx.n(1500, 25000)), ("astate", ctx.n(1500, 25000)), ("heralds", ctx.n(2000, 40000)),
            ("db", ctx.n(800, 10000)), ("rand", ctx.n(300, 3000)), ("alias", ctx.n(1500, 20000)), ("ops", ctx.n(2000, 25000))]
    misc_probes(ctx)
    # the literal witness of F14 is always part of the run
    corpus = [{"kind": "astate", "rows": [[0], [1]], "q": [["client", [["getRow", 0], ["append", 0, 5]]]]},
              {"kind": "state", "s": [1, 0], "q": [["eq", [1, 0]]]}]
    corpus += directed_corpus()
    todo = [(c["kind"], c) for c in corpus]
    ctx.count("corpus", len(corpus))
    for kind, cnt in plan:
        todo.extend((kind, None) for _ in range(cnt))
    nsample = {}
    for kind, case in todo:
        if ctx.out_of_time():
            break
        if case is None:
            case = GENS[kind](ctx, rng)
        ctx.count("kind:" + kind)
        probs = run_case(ctx, case)
        nsample[kind] = nsample.get(kind, 0) + 1
        ctx.case(json.dumps(case, sort_keys=True), nontrivial(case), sample=case if nsample[kind] == 2 and kind in ("state", "astate", "heralds") else None)
        if probs:
            ctx.count("cases_with_problems")
            small = shrink(ctx, case)
            sprobs = run_case(ctx, small) or probs
            report(ctx, small, sprobs)


RAND_DEFECTS = ["is not reproducible", "does not behave like the integer", "the seed is not used", "is not a permutation matrix",
                "is not unitary", "a seed that is not an integer raises TypeError"]


def signature(case: dict, problem: str) -> dict:
    sig = {"kind": case["kind"]}
    if case["kind"] == "astate" and "hands out the internal label list" in problem:
        sig["defect"] = "AnnotatedState.__getitem__(int) returns the internal list"
    elif case["kind"] == "rand" and any(k in problem for k in RAND_DEFECTS):
        fn = "random_unitary" if "random_unitary" in problem else "random_permutation"
        sig["defect"] = fn + ": " + next(k for k in RAND_DEFECTS if k in problem)
    elif case["kind"] == "alias":
        import re

        m = re.search(r"through <([^>]*)>", problem)
        src = re.sub(r"\[[^\]]*:[^\]]*\]", "[slice]", m.group(1)) if m else "?"
        sig["defect"] = f"{case['type']} value aliases what {src} returned"
    elif case["kind"] == "ops":
        import re

        m = re.search(r"\[form: ([a-z_]+)\]", problem)
        what = "changed by" if "immutability" in problem else "wrong result of"
        sig["defect"] = f"{case['type']}: {what} the operator form {m.group(1) if m else '?'}"
    else:
        import re

        sig["defect"] = " ".join(re.sub(r"[^A-Za-z]+", " ", problem).split()[1:8])
    return sig


def report(ctx: Ctx, case: dict, probs: list[str]) -> None:
    oracle = [p for p in probs if p.startswith("oracle")]
    rep = {"case": case, "problems": probs}
    if oracle:
        sig = signature(case, oracle[0])
        key = json.dumps(sig, sort_keys=True)
        seen = ctx.extra.setdefault("violations_by_signature", {})
        seen[key] = seen.get(key, 0) + 1
        if seen[key] == 1:  # one replay per distinct defect; the count of further instances is kept in the evidence
            ctx.violation(oracle[0], rep, sig=sig)
    else:
        ctx.disagreement(probs[0], rep)


def replay(ctx: Ctx, path: str) -> None:
    data = json.load(open(path))["replay"]
    case = data["case"]
    probs = run_case(ctx, case)
    ctx.case("replay", True, sample=case)
    for p in probs:
        print("replay:", p)
    if probs:
        report(ctx, case, probs)
