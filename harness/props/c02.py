"""
C02 — adding a sub-circuit wires it in order; heralded modes become private ancillas.

Two models are run on every generated tree of circuits:
  * LW.Model.Circuit (Circ.add …): line-by-line model of the bookkeeping code; compared with the
    implementation on per-call outcome, n_modes, input_modes, heralds and U_full (correspondence);
  * LW.Model.Optic (Optic.compose …): the *specification* — ports, private ancillas, one matrix —
    whose canonical closed form [free ports | heralds | loss] is the property's oracle: the
    implementation's U_full with rows/columns selected by its public `heralds` must equal it.

Three streams of programs (helpers in harness/c02gen.py):
  1. a directed corpus: a parent that first ACQUIRES private ancillas in a prescribed layout (one / two /
     three; placed in ascending or descending order; adjacent; at position 0; at the last position; from
     sub-circuits without user modes) and then receives every public call that takes mode arguments -
     herald (one-mode, two-mode, None and keyword forms), bs with the default mode_2, ps, loss (default
     value), barrier with / without list, mode_swaps, add in every argument form (default mode, keyword,
     named, grouped or not) - at user modes below / between / above the ancillas, in-range and just
     out of range; plus nesting with mixed grouping flags, the same block placed more than once;
  2. randomised histories of the same kind (random layouts, random mix of calls, calls on a copy, the
     parent itself added to a larger circuit that owns ancillas);
  3. random trees of circuits (as before), every call issued in a random accepted call form.
In all streams the call forms only change HOW the arguments are passed; the model receives the resolved
arguments that the documentation assigns to the omitted ones, in user mode numbers.
"""

from __future__ import annotations

import itertools
import json
import random
import time

import numpy as np

import c02gen as cf
import lightworks as lw
import circgen as cg
from core import CIRCLE, PYTH, Ctx, ddmin, mat_close, parse_mat

TRUSTED = [
    "Lean 4.33 kernel; Mathlib v4.33 as compiled on this image",
    "axioms: subset of {propext, Classical.choice, Quot.sound} (audited per theorem on every run)",
    "hand-written models LW.Model.Circuit (bookkeeping) and LW.Model.Optic (specification), tied to the code by "
    "this correspondence check",
    "float evaluation of sqrt/arccos/cos/sin/exp up to rounding (1e-9 tolerance)",
    "driver JSON parser and harness comparison code",
]
ASSUMPTIONS = [
    "trees: depth <= 3, <= 6 user modes per circuit, <= 3 declared heralds per circuit, photon numbers 0-2",
    "histories: parents with 1-5 user modes that acquire 1-6 private ancillas before the calls under test; call "
    "forms = omitted / None / keyword / reordered-keyword arguments of the documented signatures (argument TYPES "
    "other than int / list / dict are not varied)",
    "amplitude-level clause follows from the matrix-level one by the Fock functor (DESIGN §4); checked "
    "numerically on the implementation's Simulator by C03/C05",
]


class Gen:
    def __init__(self, ctx: Ctx, rng, frng=None) -> None:
        self.ctx = ctx
        self.rng = rng
        self.frng = frng or rng  # call forms are drawn from their own stream: the trees stay the same
        self.prog: list = []
        self.ports: dict[str, int] = {}
        self.hin: dict[str, set] = {}
        self.hout: dict[str, set] = {}
        self.anc: dict[str, int] = {}
        self.k = 0

    def free(self, cid: str) -> int:
        return self.ports[cid] - len(self.hin[cid])

    def fresh(self) -> str:
        self.k += 1
        return f"c{self.k}"

    def circuit(self, depth: int, max_n: int = 6) -> str:
        rng = self.rng
        cid = self.fresh()
        n = rng.randint(1, max_n)
        self.prog.append(["new", cid, n])
        self.ports[cid], self.hin[cid], self.hout[cid], self.anc[cid] = n, set(), set(), 0
        nops = rng.randint(0, 6 if depth else 5)
        for _ in range(nops):
            r = rng.random()
            if depth > 0 and r < 0.45:
                self.add_sub(cid, depth)
            elif r < 0.62 and len(self.hin[cid]) < min(3, n):
                self.herald(cid)
            elif r < 0.72 and n >= 2:
                # a unitary block (added through add(Unitary(u), mode)); later ancilla insertions may
                # land strictly inside it and must expand it
                sz = rng.randint(2, min(3, n))
                uid = self.fresh()
                self.prog.append(["unitary", uid, cg.mat_json(cg.exact_unitary(rng, sz))])
                self.ports[uid], self.hin[uid], self.hout[uid], self.anc[uid] = sz, set(), set(), 0
                self.emit(["add", cid, uid, rng.randint(0, n - sz), rng.random() < 0.4])
                self.ctx.count("add_unitary_block")
            else:
                self.emit(cg.rand_prim_op(rng, cid, n, p_invalid=0.05))
        return cid

    def emit(self, op: list) -> None:
        """append a call, issued in a random accepted call form (same resolved arguments)"""
        self.prog.append(cf.decorate(self.ctx, self.frng, op, p=0.5))

    def herald(self, cid: str) -> None:
        rng = self.rng
        n = self.ports[cid]
        fi = [m for m in range(n) if m not in self.hin[cid]]
        fo = [m for m in range(n) if m not in self.hout[cid]]
        if rng.random() < 0.08:  # duplicate / out of range -> rejected
            i = rng.choice([*self.hin[cid], n, -1] or [n])
            o = rng.choice(fo or [0])
            self.emit(["herald", cid, rng.randint(0, 2), i, o])
            return
        i = rng.choice(fi)
        o = i if (rng.random() < 0.5 and i in fo) else rng.choice(fo)
        self.hin[cid].add(i)
        self.hout[cid].add(o)
        self.emit(["herald", cid, rng.choice([0, 1, 1, 2]), i, o])
        self.ctx.count("herald_in!=out" if i != o else "herald_in==out")
        if self.anc[cid]:
            self.ctx.count("herald_declared_after_ancillas_exist")

    def add_sub(self, cid: str, depth: int) -> None:
        rng = self.rng
        # reuse an existing circuit object as argument sometimes
        cands = [x for x in self.ports if x != cid and self.free(x) <= self.ports[cid]]
        if cands and rng.random() < 0.3:
            sid = rng.choice(cands)
            self.ctx.count("add_reused_object")
        else:
            sid = self.circuit(depth - 1, max_n=min(5, self.ports[cid] + 2))
        q = self.free(sid)
        p = self.ports[cid]
        nh = len(self.hin[sid]) + self.anc[sid]
        if q > p or rng.random() < 0.08:
            m = rng.choice([p - q + 1, p, -1, p + 2]) if q <= p else rng.randint(0, p)
            self.emit(["add", cid, sid, m, rng.random() < 0.5])
            self.ctx.count("add_rejected_expected")
            return
        m = rng.randint(0, p - q) if p > 0 else 0
        if p == 0 or m >= p:
            self.emit(["add", cid, sid, m, False])
            return
        self.emit(["add", cid, sid, m, rng.random() < 0.5])
        self.ctx.count("add_heralded" if nh else "add_plain")
        if nh and self.anc[cid]:
            self.ctx.count("add_heralded_onto_parent_with_ancillas")
        self.anc[cid] += nh


def gen_program(ctx: Ctx, rng, frng=None) -> tuple[list, list]:
    g = Gen(ctx, rng, frng)
    depth = rng.choice([1, 2, 2, 3])
    g.circuit(depth)
    return g.prog, list(g.ports)


def closed_impl(c):
    n = c.n_modes
    u = np.array(c.U_full)
    big = u.shape[0]
    hin = list(c.heralds["input"].items())
    hout = list(c.heralds["output"].items())
    di, do = dict(hin), dict(hout)
    cols = [m for m in range(n) if m not in di] + [k for k, _ in hin] + list(range(n, big))
    rows = [m for m in range(n) if m not in do] + [k for k, _ in hout] + list(range(n, big))
    return u[np.ix_(rows, cols)], [v for _, v in hin], [v for _, v in hout], n - len(hin)


def match_closed(w, hn_in, hn_out, q, mc) -> str | None:
    """None if the implementation's closed form equals the specification's, up to a permutation of
    heralds that preserves photon numbers; else a description"""
    if hn_in != hn_out:
        return f"herald photon numbers differ between input {hn_in} and output {hn_out}"
    if q != mc["q"]:
        return f"number of free user modes {q} != specification {mc['q']}"
    if sorted(hn_in) != sorted(mc["hn"]):
        return f"herald photon multiset {sorted(hn_in)} != specification {sorted(mc['hn'])}"
    mw = np.array(parse_mat(mc["W"]), dtype=complex).reshape(len(mc["W"]), len(mc["W"]))
    if w.shape != mw.shape:
        return f"closed matrix shape {w.shape} != specification {mw.shape}"
    h = len(hn_in)
    if hn_in == mc["hn"] and mat_close(w, mw):
        return None
    # permutations of heralds preserving photon numbers (bounded)
    if h <= 6:
        for perm in itertools.permutations(range(h)):
            if [hn_in[k] for k in perm] != mc["hn"]:
                continue
            idx = list(range(q)) + [q + k for k in perm] + list(range(q + h, w.shape[0]))
            if mat_close(w[np.ix_(idx, idx)], mw):
                return None
    return "heralded transformation (U_full on [free modes | heralds | loss]) differs from the specified composition"


def run_case(ctx: Ctx, prog: list, ids: list) -> list[str]:
    probs: list[str] = []
    pool: dict = {}
    impl_res = [cf.apply_op(pool, op) for op in prog]
    ids = [i for i in ids if i in pool]
    mres = ctx.model.call({"op": "circ", "prog": prog, "observe": ids, "optic": True})
    for k, (a, b, s) in enumerate(zip(impl_res, mres["results"], mres["optic_results"])):
        if s not in ("n/a", a):
            probs.append(f"oracle: call #{k} {prog[k][:5]} impl={a} but the specification says {s}")
            return probs
        if a != b:
            probs.append(f"corr: call #{k} {prog[k][:5]} impl={a} model={b}")
            return probs
    for cid in ids:
        c = pool[cid]
        m = mres["final"][cid]
        try:
            w, hi, ho, q = closed_impl(c)
        except Exception as e:  # noqa: BLE001
            probs.append(f"oracle: accepted program does not compile for {cid}: {type(e).__name__}: {e}")
            continue
        mc = mres["optic_closed"][cid]
        # model-vs-model: the abstraction of the bookkeeping state must equal the specification EXACTLY
        # (this is the statement of the refinement theorem sem_add, validated on every case)
        if mc is not None and m.get("abs_closed") != mc:
            probs.append(f"corr: {cid}: refinement broken inside the model: abs(bookkeeping).closed != specification.closed")
        if mc is not None:
            d = match_closed(w, hi, ho, q, mc)
            if d:
                probs.append(f"oracle: {cid}: {d}")
        obs = cg.observe(c)
        if obs["n"] != m["n"] or obs["input_modes"] != m["input_modes"]:
            probs.append(f"corr: {cid}: n_modes/input_modes impl=({obs['n']},{obs['input_modes']}) "
                         f"model=({m['n']},{m['input_modes']})")
        elif sorted(map(tuple, obs["in_heralds"])) != sorted(map(tuple, m["in_heralds"])) or \
                sorted(map(tuple, obs["out_heralds"])) != sorted(map(tuple, m["out_heralds"])):
            probs.append(f"corr: {cid}: heralds impl={obs['in_heralds']}/{obs['out_heralds']} "
                         f"model={m['in_heralds']}/{m['out_heralds']}")
        elif not mat_close(obs["U_full"], parse_mat(m["U_full"])):
            probs.append(f"corr: {cid}: U_full differs from the bookkeeping model")
    return probs


def check_program(ctx: Ctx, prog: list, ids: list, nontriv: bool, sample: bool, stream: str) -> None:
    probs = run_case(ctx, prog, ids)
    ctx.case(repr(prog), nontriv, sample=prog if sample else None)
    if not probs:
        return
    ctx.count("programs_with_problems")
    ctx.count(f"programs_with_problems:{stream}")

    def still(sub):
        return cg.well_formed(sub) and bool(run_case(ctx, sub, ids))

    # the first failing programs are shrunk fully (their replays are written); once the report quota is used
    # up the remaining ones are only shrunk briefly, so that a broken library does not cost minutes
    reported = len(ctx.violations) + len(ctx.disagreements)
    small = ddmin(prog, still, max_tests=400 if reported < ctx.max_reports else 25)
    sprobs = run_case(ctx, small, ids) or probs
    oracle = [p for p in sprobs if p.startswith("oracle")]
    if oracle:
        ctx.violation(oracle[0], {"program": small, "problems": sprobs, "observe": ids},
                      sig={"kind": "closed-form", "ops": sorted({o[0] for o in small})})
    else:
        ctx.disagreement(sprobs[0], {"program": small, "problems": sprobs, "observe": ids})


def _has(prog: list, *names: str) -> bool:
    return all(any(op[0] == n for op in prog) for n in names)


def plus_probe(ctx: Ctx, rng) -> None:
    """`a + b` when an operand owns heralded modes (declared directly, or private ancillas acquired through add() at
    depth 1-2, grouped or not): the library refuses (NotImplementedError); whatever it does, heralded modes must stay
    private ancillas carrying their photon number - a sum that comes back with fewer heralds than its operands own, or
    with more user modes, has turned ancillas into ordinary modes.  Implementation only (the model has no `+`)."""
    n = rng.choice([2, 3, 4])

    def heralded_sub():
        sub = lw.Circuit(3)
        sub.bs(0)
        sub.bs(1)
        k = rng.choice([0, 1])
        sub.herald(k, rng.choice([0, 2]))
        return sub

    def operand(kind: str):
        c = lw.Circuit(n)
        c.bs(0)
        if kind == "plain":
            return c
        if kind == "declared":
            c.herald(rng.choice([0, 1]), rng.randrange(n))
            return c
        sub = heralded_sub()
        host = lw.Circuit(n + 1)   # the sub-circuit has 2 user modes: placed at a random user mode of an (n+1)-mode host
        host.bs(0)
        if kind == "nested":
            mid = lw.Circuit(2)
            mid.add(sub, 0, group=rng.random() < 0.5)
            host.add(mid, rng.randrange(n), group=rng.random() < 0.5)
        else:
            host.add(sub, rng.randrange(n), group=(kind == "added_grouped"))
        return host

    kinds = ["plain", "declared", "added_grouped", "added_ungrouped", "nested"]
    ka, kb = rng.choice(kinds[1:]), rng.choice(kinds)
    if rng.random() < 0.5:
        ka, kb = kb, ka
    a, b = operand(ka), operand(kb)
    if a.n_modes != b.n_modes:
        # bring both to the same full width with plain modes (heralded hosts have n+2 modes, plain ones n)
        width = max(a.n_modes, b.n_modes)
        for which, c in (("a", a), ("b", b)):
            if c.n_modes < width:
                wide = lw.Circuit(width)
                wide.add(c, 0, group=False)
                if which == "a":
                    a = wide
                else:
                    b = wide
    ctx.count(f"plus:{ka}+{kb}")
    own = sum(len(c.heralds["input"]) for c in (a, b))
    before = [(c.n_modes, c.input_modes, json.dumps(c.heralds, sort_keys=True, default=str)) for c in (a, b)]
    try:
        r = a + b
    except Exception as e:  # noqa: BLE001
        ctx.count("plus:refused:" + type(e).__name__)
        r = None
    desc = {"plus_probe": {"left": ka, "right": kb, "n": n}}
    if r is not None:
        if own and (len(r.heralds["input"]) < max(len(a.heralds["input"]), len(b.heralds["input"]))
                    or r.input_modes > min(a.input_modes, b.input_modes)):
            ctx.violation(f"oracle: `a + b` with operands owning heralded modes ({ka} + {kb}) returned a circuit with "
                          f"heralds {r.heralds} and {r.input_modes} user modes; the operands have heralds "
                          f"{a.heralds} / {b.heralds} and {a.input_modes} / {b.input_modes} user modes: heralded modes "
                          "did not stay private ancillas", desc, sig={"kind": "plus-heralds"})
            return
    after = [(c.n_modes, c.input_modes, json.dumps(c.heralds, sort_keys=True, default=str)) for c in (a, b)]
    if before != after:
        ctx.violation(f"oracle: `a + b` ({ka} + {kb}) changed an operand's modes / heralds", desc, sig={"kind": "plus-operand"})
    ctx.case(json.dumps(["plus", ka, kb, n]), True)


def run(ctx: Ctx) -> None:
    ctx.rule = ("(1) directed histories: a parent acquires private ancillas in each of "
                f"{len(cf.LAYOUTS)} layouts (1-3 ancillas, ascending / descending placement, adjacent, at position 0, "
                "last, pure-ancilla sub-circuits), then every public call with mode arguments in every call form "
                "(defaults omitted / None / keyword) at every user mode, in range and just out of range; nesting with "
                "mixed grouping flags and repeated placement; (2) randomised histories of the same kind (also on a "
                "copy, also nested into a parent with ancillas); (3) random trees of circuits (depth <= 3; primitives, "
                "declared heralds with in != out in ~50%, additions at random user modes, grouped or not, objects "
                "reused as arguments, ~8% rejected calls, random call forms); non-trivial = contains an accepted "
                "addition of a circuit with heralds; distinct = distinct program")
    seed = ctx.seed
    hrng = random.Random(f"C02-histories-{seed}")
    frng = random.Random(f"C02-forms-{seed}")

    t0 = time.time()
    # -- 1. directed corpus (always first)
    for layout in cf.LAYOUTS:
        for group in cf.PROBE_GROUPS:
            if ctx.out_of_time():
                break
            prog, ids = cf.directed_history(ctx, hrng, layout, group)
            check_program(ctx, prog, ids, True, False, "directed")
    for variant in (0, 1, 2):
        for g1 in (True, False):
            for g2 in (False, True):
                prog, ids = cf.mixed_group_nesting(ctx, hrng, g1, g2, variant)
                check_program(ctx, prog, ids, False, False, "nesting")

    prng = random.Random(f"C02-plus-{seed}")
    for _ in range(ctx.n(60, 600)):
        plus_probe(ctx, prng)

    t1 = time.time()
    # -- 2. randomised histories
    for i in range(ctx.n(110, 2500)):
        if ctx.out_of_time():
            break
        if i % 8 == 7:
            prog, ids = cf.mixed_group_nesting(ctx, hrng, hrng.random() < 0.5, hrng.random() < 0.5, hrng.randrange(3))
            check_program(ctx, prog, ids, False, False, "nesting")
            continue
        prog, ids = cf.random_history(ctx, hrng)
        check_program(ctx, prog, ids, _has(prog, "add", "herald"), i == 0, "history")

    t2 = time.time()
    # -- 3. random trees
    N = ctx.n(300, 8000)
    rng = ctx.rng
    for i in range(N):
        if ctx.out_of_time():
            break
        prog, ids = gen_program(ctx, rng, frng)
        check_program(ctx, prog, ids, _has(prog, "add", "herald"), i < 2, "trees")
    ctx.extra["stream_wall_s"] = {"directed": round(t1 - t0, 1), "histories": round(t2 - t1, 1),
                                  "trees": round(time.time() - t2, 1)}


def replay(ctx: Ctx, path: str) -> None:
    data = json.load(open(path))["replay"]
    if "plus_probe" in data:
        # the probe is a function of its random stream only: the stream of this seed is run again in full
        prng = random.Random(f"C02-plus-{ctx.seed}")
        for _ in range(ctx.n(60, 600)):
            plus_probe(ctx, prng)
        return
    probs = run_case(ctx, data["program"], data["observe"])
    ctx.case("replay", True, sample=data["program"])
    for p in probs:
        print("replay:", p)
        if p.startswith("oracle"):
            ctx.violation(p, data, sig={"kind": "replay"})
        else:
            ctx.disagreement(p, data)
