"""
C15 — state tomography reconstructs the prepared state.

Model: LW.Model.Tomo (measurement enumeration, I->Z reuse, expectation values from dual-rail
outcomes, Pauli expansion, `process` as a function of the order in which the callback saw the
settings; Born-rule outcome tables of a qubit-level state preparation as the specification).
Theorems: LW/Properties/C15.lean.

Streams (all from ctx.rng):
  * "state"   a base circuit on 2n visible modes (qubit-level gate program the model can follow,
              incl. post-selected / heralded CZ, CNOT, arbitrary exact single-qubit unitaries; or a
              "wild" circuit: arbitrary unitary on all modes + beam splitters / phases / swaps) is
              handed to the real StateTomography with a noiseless experiment callback (exact outcome
              frequencies from the implementation's Simulator amplitudes or Sampler distribution);
  * "hist"    HISTORIES on long-lived objects: one (or two, sharing the base circuit) StateTomography
              objects are constructed (on the empty or on the finished circuit), then steps alternate
              between process() and changes of what the result depends on: the base circuit is extended
              in place (gate by gate, by a sub-circuit, by a grouped sub-circuit, by heralded gates that
              add ancilla modes, by primitive bs/ps/swaps calls), a Parameter inside it is set to a new
              value, `experiment` / `experiment_args` are re-assigned (other data source, other input
              state), the circuit is tidied (unpack_groups, ...), process() is repeated unchanged.  Every
              process() call is checked exactly as in the state stream against the base circuit AS IT
              IS NOW (requested circuits = current base + basis changes, base unchanged, rho, .rho,
              fidelity(), model on the cumulative program) and against a FRESH StateTomography on the
              current base circuit (same circuits per setting, same rho);
  * "fid"     state_fidelity on exact pure-state density matrices (1..3 qubits: basis, product, Bell x
              product, GHZ, W, dense) plus Hermitian rounding residue of magnitude 0, 1e-40 .. 1e-17
              (multiples of Pauli strings, null-space/support couplings, dense on the null space, dense
              everywhere, diagonal, sparse), in either / both arguments, ndarray or nested lists:
              1 within 1e-6, finite, no exception (F28);
  * "fidmix"  mixed / low-rank / pure pairs against tr sqrt(sqrt(rho) sigma sqrt(rho)) (the library's
              convention, = model stateFidelity with a true square root) and closed forms (maximally
              mixed vs pure = 1/sqrt(d), commuting, orthogonal, pure vs mixed), both argument orders;
  * "fidp"    fidelity() the method on the matrix process() computed from the exact outcome
              probabilities of a given pure state (stub callback, no emulator);
  * "data"    a stub callback returns synthetic result dictionaries (valid rational counts,
              invalid dual-rail states, missing / surplus results, empty results, zero counts);
  * "init"    constructor argument validation.
RETAINED RESULTS (class Ledger; oracle-only, the model has no object identity).  Clients keep what they are handed:
`rhos = [tomo.process() for value in sweep]`, `.rho`, `fidelity(...)`.  Every history keeps a ledger: for every matrix
process() / .rho hand out THE VERY OBJECT plus a deep copy taken at that time and the |psi><psi| of the configuration
it was computed for; for every object the fidelity it reported; for every container of the client that went INTO the
library (the result dictionaries and the list the callback returned, the `experiment_args` list, the matrix given to
fidelity()) the very object plus a copy.  All of it is re-checked after EVERY later step - the next process() of the
same object (after a Parameter change, an added gate, new experiment_args), the work of other StateTomography objects
(the second long-lived object, the fresh comparison objects, `other` objects on other circuits and of other sizes),
a client writing into a returned matrix (`scribble`), a client clearing / refilling its own result dictionaries,
args list, reference matrix (`clobber`): retained matrices unchanged and still |psi><psi| of THEIR configuration, no
memory shared between the results of different calls or with client arrays, `.rho` / fidelity() of every object still
those of its last process(), client containers exactly as the client left them.  A run-wide list additionally keeps
every matrix any stream was handed (very object + copy) and re-checks them while the run goes on and at its end.
A small directed corpus (HIST_CORPUS, the F28 matrix) always runs first.
Observables only: the circuits the callback receives (n_modes, input_modes, heralds, U_full),
the arguments it receives, process() / .rho, .fidelity(), state_fidelity, exception classes.
"""

from __future__ import annotations

import copy
import json
import os
import random
import subprocess
import sys
from fractions import Fraction

import numpy as np

import circgen as cg
import lightworks as lw
import tomo as tm
from core import Ctx, MachineryFault, ddmin, exc_class, frac_str
from lightworks.tomography import StateTomography, density_from_state

TRUSTED = [
    "Lean 4.33 kernel; Mathlib v4.33 as compiled on this image",
    "axioms: subset of {propext, Classical.choice, Quot.sound} (audited per theorem on every run)",
    "hand-written model LW.Model.Tomo tied to the code by this correspondence check",
    "numpy.linalg.eigh inside state_fidelity (contract: eigendecomposition of a Hermitian matrix; "
    "fidelity is compared with tolerance 1e-6)",
    "float evaluation of 1/2**0.5, complex arithmetic, np.kron (1e-9 tolerance)",
    "the implementation's Simulator / Sampler as the source of noiseless outcome frequencies "
    "(amplitude semantics are the subject of C03/C04)",
    "driver JSON parser and harness comparison code",
]
ASSUMPTIONS = [
    "model scalars are exact elements of Q(i, sqrt2); the code sees the corresponding floats",
    "the order of list(set(...)) inside _get_required_tomo_measurements depends on Python's per-process "
    "string hash seed; the order actually seen by the callback is recorded and fed to the model; "
    "additional orders are exercised in sub-processes with fixed PYTHONHASHSEED values",
    "base circuits: heralds only through added sub-circuits (the library's gates, and user-made unitary sub-circuits "
    "with 1-2 heralds of 0 / 1 photons on any of their modes, also between the two rails of a qubit); a herald declared "
    "directly on the base circuit does not renumber the modes addressed by Circuit.add and is outside "
    "the quantifier (2n visible modes addressed as 0..2n-1)",
    "n = 1..3 qubits in the correspondence check (theorems are for every n)",
    "histories: Circuit.unpack_groups() on a base circuit holding heralded sub-circuits makes their ancilla modes "
    "heralds of the base circuit itself, after which construction calls address full mode numbers; extending "
    "the base circuit AFTER such a call is outside the quantifier like any directly declared herald",
    "histories: the experiment callback and experiment_args are the object's public attributes; the state "
    "'the base circuit prepares' is taken for the input the CURRENT experiment / experiment_args use",
    "global settings (state stream): sampler_probability_threshold in {1e-3 .. 0.3}, unitary_precision in {1e-12 .. 1e-2} "
    "while a case runs, data from the Simulator (the Sampler back-ends legitimately consult the threshold)",
    "fidelity convention: F = tr sqrt(sqrt(rho) sigma sqrt(rho)) (no square), as the code and the model's "
    "stateFidelity define it; mixed-state comparisons are correspondence checks, only F = 1 against the "
    "prepared / returned matrix is a clause of the property",
]

import warnings

warnings.filterwarnings("ignore", message="Matrix is")  # scipy sqrtm on singular (pure-state) matrices

FID_TOL = 1e-6
TOL = 1e-9
TOP_HERALDS = os.environ.get("C15_TOP_HERALDS", "1") == "1"
_META: dict = {}


def meta(ctx: Ctx, n: int) -> dict:
    if n not in _META:
        m = ctx.model.call({"op": "tomo", "kind": "meta", "n": n})
        m["meas_u_np"] = {k: tm.q2mat(v) for k, v in m["meas_u"].items()}
        _META[n] = m
    return _META[n]


# --------------------------------------------------------------------------- case generation


def derived_rng(rng):
    """a random stream of its own, a function of where `rng` stands, that does not consume anything from `rng`: new
    dimensions are added to the generation without changing the cases the older streams produce per seed"""
    st = rng.getstate()[1]
    return random.Random(f"derived-{st[-1]}-{st[0]}-{st[1]}-{st[st[-1] % 624]}")


def gen_wild(rng, n: int) -> list:
    prog: list = []
    if rng.random() < 0.8:
        prog.append(["MODEU", cg.mat_json(cg.exact_unitary(rng, 2 * n))])
    for _ in range(rng.randint(0, 5)):
        r = rng.random()
        if r < 0.6:
            prog.append(["PRIM", cg.rand_prim_op(rng, "c", 2 * n, p_invalid=0.0, allow_loss=False)])
        elif r < 0.8 and n >= 2:
            q = rng.randrange(n - 1)
            prog.append(["CNOT", q, q + 1, {"impl": rng.choice(["ps", "her"])}])
        else:
            prog.append([rng.choice(list(tm.NAMED)), rng.randrange(n)])
    # keep the cost bounded: at most one heralded gate in a wild circuit
    seen = 0
    out = []
    for g in prog:
        if g[0] == "CNOT" and g[3]["impl"] == "her":
            seen += 1
            if seen > 1:
                continue
        out.append(g)
    # a user-made heralded sub-circuit: heralds on any of its modes, also BETWEEN the two rails of a qubit (the
    # library's own gates keep theirs outside).  Own random stream: the wild circuits proper stay what they were per seed.
    xr = derived_rng(rng)
    if seen == 0 and xr.random() < 0.5:
        out.insert(xr.randint(0, len(out)), tm.rand_heralded_unitary(xr, n))
    return out


def state_corpus() -> list:
    """directed one-shot cases: user-made heralded sub-circuits whose heralds sit BETWEEN the two rails of a qubit (every
    qubit of it), on the first / last mode, with input and output herald on different modes, with a 1-photon herald;
    alone and followed / preceded by ordinary gates (fixed random stream: the same cases in every run)"""
    r = random.Random("C15-state-corpus")
    out = []
    for n, her, pre, post in [(1, [[0, 1, 1]], [], []), (2, [[0, 1, 1], [0, 4, 4]], [], []), (2, [[0, 1, 1]], [["H", 0]], [["SX", 1]]),
                              (1, [[0, 0, 2]], [["H", 0]], []), (2, [[1, 2, 2]], [], [["T", 0]]), (3, [[0, 3, 3]], [], [["H", 2]]),
                              (2, [[0, 4, 0]], [["SX", 0], ["H", 1]], [])]:
        m = 2 * n + len(her)
        heru = ["HERU", cg.mat_json(cg.exact_unitary(r, m, depth=2 * m)), her]
        out.append({"stream": "state", "n": n, "prog": [*pre, heru, *post], "in_bits": [0] * n, "source": "sim",
                    "shuffle": r.randrange(1 << 30), "drop_zero": False})
    # states with rare outcomes (probabilities 0.15, 0.04, 0.02 ...), reconstructed while a global setting is not at its
    # default
    for n, prog, sett in [(1, [["H", 0], ["T", 0], ["H", 0]], {"sampler_probability_threshold": 0.3}),
                          (2, [["H", 0], ["T", 0], ["H", 0], ["SX", 1], ["T", 1], ["H", 1], ["CNOT", 0, 1, {"impl": "ps"}]],
                           {"sampler_probability_threshold": 0.1}),
                          (2, [["H", 0], ["T", 0], ["SX", 0], ["T", 0], ["H", 0], ["H", 1], ["Tadj", 1], ["H", 1]],
                           {"sampler_probability_threshold": 1e-2, "unitary_precision": 1e-2}),
                          (1, [["SX", 0], ["T", 0], ["H", 0]], {"unitary_precision": 1e-2})]:
        out.append({"stream": "state", "n": n, "prog": prog, "in_bits": [0] * n, "source": "sim",
                    "shuffle": r.randrange(1 << 30), "drop_zero": False, "settings": sett})
    return out


def gen_state_case(ctx: Ctx, rng) -> dict:
    n = rng.choices([1, 2, 3], weights=[30, 45, 25] if not ctx.thorough else [25, 40, 35])[0]
    wild = rng.random() < 0.3
    if wild:
        prog = gen_wild(rng, n)
    else:
        prog = tm.rand_gate_program(rng, n, max_len=2 + 3 * n, max_her=2 if n < 3 else 1)
    in_bits = [0] * n if rng.random() < 0.75 else [rng.randint(0, 1) for _ in range(n)]
    n_modes_est = 2 * n + sum(2 if g[0] in ("CZ", "CNOT") and g[3]["impl"] == "ps" else 4
                              for g in prog if g[0] in ("CZ", "CNOT"))
    n_modes_est += sum(len(g[2]) + 2 * sum(h[0] for h in g[2]) for g in prog if g[0] == "HERU")
    source = "sim"
    if n_modes_est <= 8 and rng.random() < 0.35:
        source = rng.choice(["permanent", "slos"])
    case = {"stream": "state", "n": n, "prog": prog, "in_bits": in_bits, "source": source,
            "shuffle": rng.randrange(1 << 30), "drop_zero": rng.random() < 0.3}
    if TOP_HERALDS and rng.random() < 0.2:
        # opt-in (C15_TOP_HERALDS=1): an idle vacuum mode heralded DIRECTLY on the base circuit
        case["top_herald"] = rng.choice(["first", "last"])
        case["source"] = "sim"
    # configuration dimension: non-default global settings while the tomography runs (own random stream)
    xr = derived_rng(rng)
    if xr.random() < 0.25:
        key = xr.choice(["sampler_probability_threshold", "sampler_probability_threshold", "unitary_precision"])
        case["settings"] = {key: xr.choice(SETTING_VALUES[key])}
        if xr.random() < 0.3:
            case["settings"]["unitary_precision" if key != "unitary_precision" else "sampler_probability_threshold"] = \
                xr.choice(SETTING_VALUES["unitary_precision" if key != "unitary_precision" else "sampler_probability_threshold"])
        case["source"] = "sim"
    return case


def rand_count(rng):
    r = rng.random()
    if r < 0.5:
        return rng.randint(0, 50)
    if r < 0.8:
        return Fraction(rng.randint(0, 40), rng.choice([1, 2, 4, 8, 16]))
    return Fraction(rng.randint(1, 10**6), 2**20)


def gen_data_case(ctx: Ctx, rng) -> dict:
    n = rng.choices([1, 2, 3], weights=[35, 45, 20])[0]
    fault = rng.choice(["none", "none", "none", "bad_pair", "short", "long", "missing", "surplus", "empty",
                        "zero"])
    results = []
    for _ in range(3**n):
        states = [b for b in range(2**n) if rng.random() < 0.8] or [rng.randrange(2**n)]
        rng.shuffle(states)
        res = [[tm.dual_rail(n, b), frac_str(Fraction(rand_count(rng)))] for b in states]
        if all(Fraction(c) == 0 for _, c in res):
            res[0][1] = "3"
        results.append(res)
    k = rng.randrange(3**n)
    if fault == "bad_pair":
        st = list(results[k][0][0])
        q = rng.randrange(n)
        st[2 * q: 2 * q + 2] = rng.choice([[1, 1], [0, 0], [2, 0], [0, 2]])
        results[k][rng.randrange(len(results[k]))][0] = st
    elif fault == "short":
        e = rng.randrange(len(results[k]))
        results[k][e][0] = results[k][e][0][: 2 * n - rng.choice([1, 2])]
    elif fault == "long":
        e = rng.randrange(len(results[k]))
        results[k][e][0] = results[k][e][0] + [rng.randint(0, 2)]
    elif fault == "missing":
        results = results[:-1]
    elif fault == "surplus":
        results = [*results, results[0]]
    elif fault == "empty":
        results[k] = []
    elif fault == "zero":
        results[k] = [[st, "0"] for st, _ in results[k]]
    return {"stream": "data", "n": n, "results": results, "fault": fault}


def gen_init_case(ctx: Ctx, rng) -> dict:
    n = rng.randint(1, 3)
    return {"stream": "init", "n": n,
            "n_kind": rng.choice(["int", "int", "int", "bool", "float", "str"]),
            "base_kind": rng.choice(["circuit", "circuit", "circuit", "unitary_obj", "none", "ndarray"]),
            "modes": rng.choice([2 * n, 2 * n, 2 * n, 2 * n + 1, max(1, 2 * n - 1), 2 * n + 2]),
            "exp_kind": rng.choice(["function", "function", "lambda", "method", "callable_obj", "none"]),
            "herald_sub": rng.random() < 0.3}


# --------------------------------------------------------------------------- execution


class _Holder:
    def method(self, circuits):  # a bound method is an accepted experiment
        return [{lw.State([1, 0]): 1} for _ in circuits]

    def __call__(self, circuits):
        return self.method(circuits)


def run_init(ctx: Ctx, case: dict) -> list[str]:
    n = case["n"]
    nv = {"int": n, "bool": True, "float": float(n), "str": str(n)}[case["n_kind"]]
    base = lw.Circuit(case["modes"])
    if case["herald_sub"] and case["modes"] >= 2:
        sub = lw.Circuit(3)
        sub.bs(0, 1)
        sub.herald(0, 2, 2)
        base.add(sub, 0)  # adds a private ancilla: input_modes stays `modes`
    bv = {"circuit": base, "unitary_obj": lw.Unitary(np.eye(case["modes"])), "none": None,
          "ndarray": np.eye(case["modes"])}[case["base_kind"]]
    h = _Holder()

    def fn(circuits):
        return h.method(circuits)

    ev = {"function": fn, "lambda": (lambda c: h.method(c)), "method": h.method, "callable_obj": h,
          "none": None}[case["exp_kind"]]
    try:
        StateTomography(nv, bv, ev)
        impl = "ok"
    except Exception as e:  # noqa: BLE001
        impl = exc_class(e)
    m = ctx.model.call({"op": "tomo", "kind": "init", "n": n,
                        "n_is_int": case["n_kind"] == "int",
                        "base_is_circuit": case["base_kind"] in ("circuit", "unitary_obj"),
                        "exp_is_function": case["exp_kind"] in ("function", "lambda", "method"),
                        "input_modes": case["modes"]})
    mm = m if isinstance(m, str) else m["error"]
    ctx.count("init:" + mm)
    return [] if impl == mm else [f"corr: constructor outcome impl={impl} model={mm} ({case})"]


def norm_exc(name: str) -> str:
    return "Exception" if name == "ZeroDivisionError" else name


def observe_order(ctx: Ctx, n: int):
    """the order in which this process enumerates the required settings: observed through a
    throw-away StateTomography on the empty circuit (settings identified from the circuits);
    None entries when a circuit cannot be identified"""
    key = ("order", n)
    if key in _META:
        return _META[key]
    base = lw.Circuit(2 * n)
    got: list = []

    def exp(circuits):
        got.extend(circuits)
        return [{lw.State(tm.dual_rail(n, 0)): 1} for _ in circuits]

    StateTomography(n, base, exp).process()
    uf = np.array(base.U_full)
    order = [tm.identify_setting(c, uf, list(range(2 * n)), n)[0] for c in got]
    _META[key] = order
    return order


def run_data(ctx: Ctx, case: dict) -> list[str]:
    n = case["n"]
    order = observe_order(ctx, n)
    if None in order or sorted(order) != sorted(tm.all_settings(n)):
        return ["oracle: on the empty base circuit the requested circuits are not one per measurement setting "
                f"(identified: {order})"]
    results = case["results"]

    def exp(circuits):  # noqa: ARG001
        # counts: Python ints, or floats that are exactly the dyadic rational given to the model
        return [{lw.State(st): (float(Fraction(c)) if "/" in c else int(c)) for st, c in res} for res in results]

    tomo = StateTomography(n, lw.Circuit(2 * n), exp)
    try:
        raw = tomo.process()
        rho = np.array(raw)
        retain_global(raw, "a matrix returned by process() in the data stream")
        impl = "ok"
    except Exception as e:  # noqa: BLE001
        impl = norm_exc(exc_class(e))
    # the model gets the results keyed by the order this process uses; duplicate states inside one
    # result (possible after the "short"/"long" edits) collapse in the Python dict: mirror that
    mres = []
    for res in results:
        d: dict = {}
        for st, c in res:
            d[tuple(st)] = c
        mres.append([[list(k), v] for k, v in d.items()])
    m = ctx.model.call({"op": "tomo", "kind": "process", "n": n, "order": order, "results": mres})
    probs = []
    ctx.count("data:" + case["fault"])
    if "error" in m:
        ctx.count("data-rejected:" + m["error"])
        if impl != m["error"]:
            probs.append(f"corr: process() on synthetic data impl={impl} model={m['error']}")
        return probs
    if impl != "ok":
        return [f"corr: process() on synthetic data impl={impl} model=ok"]
    mr = tm.q2mat(m["rho"])
    if rho.shape != mr.shape or not np.all(np.abs(rho - mr) <= TOL):
        probs.append(f"corr: rho on synthetic data differs from the model (max {np.abs(rho - mr).max():.2e})")
    if not np.all(np.abs(rho - rho.conj().T) <= TOL) or abs(np.trace(rho) - 1) > TOL:
        probs.append("oracle: rho computed from valid outcome counts is not Hermitian with unit trace")
    return probs


class _ExpHolder:
    """a bound method is an accepted experiment (FunctionType | MethodType)"""

    def __init__(self, fn) -> None:
        self.fn = fn

    def run(self, circuits, bits=None):
        return self.fn(circuits, bits)


def freq_key(c, in_state, src: str):
    try:
        return (np.array(c.U_full).tobytes(), tuple(sorted(c.heralds["output"].items())), tuple(in_state), src)
    except Exception:  # noqa: BLE001
        return None


def make_experiment(cfg: dict, rec: dict, n: int, cache: dict | None = None):
    """noiseless experiment callback (exact outcome frequencies of every requested circuit from the
    implementation's Simulator / Sampler).  cfg: source, drop_zero, shuffle, in_bits, kind.  The callback
    takes an optional second positional argument (input bits handed over through `experiment_args`).
    Everything it is given / returns is recorded in rec["seen"], rec["returned"], rec["bits"].
    `cache` (histories only): frequencies of circuits with bit-identical U_full, heralds and input."""
    import random

    srng = random.Random(cfg["shuffle"])

    def experiment(circuits, bits=None):
        use = list(cfg["in_bits"] if bits is None else bits)
        rec["bits"] = use
        rec["by"] = cfg["shuffle"]  # which callback ran (the seeds are effectively unique per callback)
        in_state = tm.input_state(use)
        rec["seen"].extend(circuits)
        out = []
        for c in circuits:
            src = cfg["source"]
            key = freq_key(c, in_state, src) if cache is not None else None
            fr = cache.get(key) if key is not None else None
            if fr is None:
                fr = tm.exact_frequencies(c, in_state, n, "sim" if src == "sim" else "sampler",
                                          backend=src if src != "sim" else "permanent")
                if key is not None:
                    cache[key] = fr
            items = list(fr.items())
            if cfg["drop_zero"]:
                kept = [(k, v) for k, v in items if v > 0]
                items = kept or items
            srng.shuffle(items)
            rec["returned"].append(items)
            out.append({lw.State(list(k)): v for k, v in items})
        rec["out"] = out  # the very list of dictionaries that is handed to the library (it stays with the client)
        return out

    if cfg.get("kind") == "method":
        return _ExpHolder(experiment).run
    if cfg.get("kind") == "one-arg":
        return lambda circuits: experiment(circuits)  # noqa: PLW0108  (a lambda is a FunctionType too)
    return experiment


def check_process_call(ctx: Ctx, n: int, base, tomo, rec: dict, in_state, mprog, stream: str = "state"):
    """ONE process() call on `tomo` (whose callback records into `rec`) against the property's clauses
    for the base circuit AS IT IS NOW, and against the model (`mprog`: qubit-level program of the
    current base incl. the input X gates, or None when the model cannot follow it).
    Returns (problems, detail | None); detail["rho"] is the returned matrix."""
    mt = meta(ctx, n)
    mu = mt["meas_u_np"]
    probs: list[str] = []
    before = cg.observe(base)
    vis = tm.visible_modes(base)
    if base.input_modes != 2 * n or len(vis) != 2 * n:
        raise MachineryFault(f"generated base circuit has {base.input_modes} input modes, wanted {2 * n}")
    psi = tm.reference_state(base, in_state, n)
    norm = float(np.vdot(psi, psi).real)
    if norm < 1e-7:
        ctx.count(f"{stream}:never-succeeds (skipped)")
        return probs, None
    rec["seen"].clear()
    rec["returned"].clear()
    rec.pop("by", None)
    rec.pop("bits", None)
    seen, returned = rec["seen"], rec["returned"]
    rec.pop("out", None)
    rec.pop("held", None)
    try:
        raw = tomo.process()
        rho = np.array(raw)
    except Exception as e:  # noqa: BLE001
        probs.append(f"oracle: process() raised {exc_class(e)} on noiseless data: {e}")
        return probs, None
    retain_global(raw, f"a matrix returned by process() in the {stream} stream")
    # ---- clause: client data is left alone: the dictionaries the callback returned are as it returned them
    out_now = rec.get("out")
    if out_now is not None and not results_intact(out_now, returned):
        probs.append("oracle: process() changed the result dictionaries (or the list of them) the experiment returned")
    # ---- clause: the circuits the callback receives
    after = cg.observe(base)
    if (before["n"], before["in_heralds"], before["out_heralds"]) != (after["n"], after["in_heralds"], after["out_heralds"]) \
            or not np.array_equal(before["U_full"], after["U_full"]):
        probs.append("oracle: the base circuit was modified by process()")
    if any(c is base for c in seen):
        probs.append("oracle: the callback received the base circuit object itself")
    if len(seen) != 3**n:
        probs.append(f"oracle: callback received {len(seen)} circuits, expected 3^n = {3**n}")
    order = []
    for k, c in enumerate(seen):
        o = cg.observe(c)
        if (o["n"], o["input_modes"], o["in_heralds"], o["out_heralds"]) != \
                (before["n"], before["input_modes"], before["in_heralds"], before["out_heralds"]):
            probs.append(f"oracle: requested circuit #{k} differs from the base in modes / heralds")
        lab, blocks = tm.identify_setting(c, before["U_full"], vis, n)
        if lab is None:
            probs.append(f"oracle: requested circuit #{k} is not the base circuit followed by single-qubit basis "
                         f"changes B with B^dagger Z B in {{X, Y, Z}}")
            order.append(None)
        else:
            order.append(lab)
            if not all(np.all(np.abs(b - mu[g]) <= TOL) for b, g in zip(blocks, lab.split(","))):
                probs.append(f"corr: basis-change unitaries of requested circuit #{k} ({lab}) differ from the "
                             f"model's MEASUREMENT_MAPPING matrices")
    if None not in order and sorted(order) != sorted(tm.all_settings(n)):
        probs.append("oracle: the requested circuits do not cover every measurement setting exactly once")
    # ---- clause: rho is the density matrix of the prepared state
    ref = np.outer(psi, psi.conj()) / norm
    detail = {"order": order, "norm": norm, "rho": rho, "psi": psi, "raw": raw, "ref": ref, "attr": None, "ref_in": None, "fid": None}
    if rho.shape != ref.shape:
        probs.append(f"oracle: rho has shape {rho.shape}")
        return probs, None
    if not np.all(np.abs(rho - rho.conj().T) <= TOL):
        probs.append("oracle: rho is not Hermitian")
    if not abs(np.trace(rho) - 1) <= TOL:
        probs.append(f"oracle: trace(rho) = {np.trace(rho)}")
    if not np.all(np.abs(rho - ref) <= TOL):
        probs.append(f"oracle: rho differs from |psi><psi| of the state the base circuit prepares "
                     f"(max {np.abs(rho - ref).max():.2e})")
    try:
        detail["attr"] = tomo.rho
    except Exception as e:  # noqa: BLE001
        probs.append(f"oracle: .rho raised {exc_class(e)} after process()")
    if detail["attr"] is not None and not np.array_equal(np.array(detail["attr"]), rho):
        probs.append("oracle: .rho differs from the matrix process() returned")
    # fidelity() of the (rank one, hence singular) reconstructed matrix.  Until the repair F28 the code
    # took scipy.linalg.sqrtm of it, which returns nan when rounding leaves entries of order 1e-35 in
    # the zero block (which entries appear depends on summation order, i.e. on the per-process
    # string hash seed: the failure was reproducible per process, not per run).
    try:
        ref_in = np.array(density_from_state(psi / np.sqrt(norm)))  # the client's own array
        ref_cp = ref_in.copy()
        fid = tomo.fidelity(ref_in)
        detail["ref_in"], detail["fid"] = ref_in, fid
        if not abs(fid - 1) <= FID_TOL:  # (a nan must not pass)
            probs.append(f"oracle: fidelity against the prepared state is {fid}")
        if not np.array_equal(ref_in, ref_cp):
            probs.append("oracle: fidelity() changed the matrix it was given")
        if not np.array_equal(np.array(raw), rho):
            probs.append("oracle: fidelity() changed the matrix process() had returned")
    except Exception as e:  # noqa: BLE001
        probs.append(f"oracle: fidelity() raised {exc_class(e)}")
    if None in order or len(order) != 3**n or sorted(order) != sorted(tm.all_settings(n)):
        return probs, detail
    # ---- correspondence 1: the post-processing on exactly the numbers the callback returned
    mres = [[[list(k), tm.float_exact(v)] for k, v in items] for items in returned]
    m = ctx.model.call({"op": "tomo", "kind": "process", "n": n, "order": order, "results": mres})
    if "error" in m:
        probs.append(f"corr: model process() rejects the callback's data: {m['error']}")
    else:
        mr = tm.q2mat(m["rho"])
        if not np.all(np.abs(rho - mr) <= TOL):
            probs.append(f"corr: rho differs from the model's process() on the same data (max {np.abs(rho - mr).max():.2e})")
    # ---- correspondence 2: the qubit-level specification (Born tables, exact rho)
    if mprog is not None:
        b = ctx.model.call({"op": "tomo", "kind": "born", "n": n, "order": order, "prog": mprog})
        if "error" in b:
            probs.append(f"corr: model process() on its own Born tables fails: {b['error']}")
        else:
            if not b["rho_is_state"]:
                probs.append("corr: model rho on exact Born tables is not |psi><psi| (theorem contradicted?)")
            br = tm.q2mat(b["rho"])
            if not np.all(np.abs(rho - br) <= TOL):
                probs.append(f"corr: rho differs from the exact density matrix of the qubit-level model state "
                             f"(max {np.abs(rho - br).max():.2e})")
            for k, (items, tab) in enumerate(zip(returned, b["tables"])):
                tot_i = sum(v for _, v in items)
                mt_ = {tuple(st): tm.q2c(v).real for st, v in tab}
                tot_m = sum(mt_.values())
                d = dict(items)
                for st, v in mt_.items():
                    if abs(d.get(st, 0.0) / tot_i - v / tot_m) > TOL:
                        probs.append(f"corr: outcome frequencies of setting {order[k]} differ from the Born table "
                                     f"of the qubit-level model")
                        break
                else:
                    continue
                break
    return probs, detail


def run_state(ctx: Ctx, case: dict, want_detail: bool = False):
    """(case["settings"]: process-global lightworks.settings in force while the case runs - restored afterwards.  The
    reconstruction is a function of the outcome frequencies alone; the data source of such cases is the Simulator, which
    does not consult the settings, unlike the Sampler back-ends)"""
    sett = case.get("settings") or {}
    saved = {k: getattr(lw.settings, k) for k in sett}
    try:
        for k, v in sett.items():
            setattr(lw.settings, k, v)
        return _run_state(ctx, case, want_detail)
    finally:
        for k, v in saved.items():
            setattr(lw.settings, k, v)


SETTING_VALUES = {"sampler_probability_threshold": [1e-3, 1e-2, 0.1, 0.3], "unitary_precision": [1e-12, 1e-4, 1e-2]}


def _run_state(ctx: Ctx, case: dict, want_detail: bool = False):
    n, prog = case["n"], case["prog"]
    base = tm.build_base(n, prog)
    if case.get("top_herald"):
        outer = lw.Circuit(2 * n + 1)
        outer.add(base, 1 if case["top_herald"] == "first" else 0)
        pos = 0 if case["top_herald"] == "first" else 2 * n
        outer.herald(0, pos, pos)
        base = outer
        ctx.count("state:herald-declared-on-base")
    in_state = tm.input_state(case["in_bits"])
    rec = {"seen": [], "returned": []}
    cfg = {"source": case["source"], "drop_zero": case["drop_zero"], "shuffle": case["shuffle"],
           "in_bits": case["in_bits"], "kind": "one-arg"}
    tomo = StateTomography(n, base, make_experiment(cfg, rec, n))
    mprog = tm.model_prog(prog, case["in_bits"]) if tm.is_modelable(prog) else None
    probs, detail = check_process_call(ctx, n, base, tomo, rec, in_state, mprog, "state")
    return (probs, detail) if want_detail else probs



# --------------------------------------------------------------------------- retained results
#
# see the module docstring.  (harness/props/c16.py keeps the same kind of ledger for the process tomography classes.)

SCRIBBLES = ["zero", "scale", "elem", "adjoint"]
# process() returns the object's own `.rho` ndarray on the unchanged library (no defensive copy), so a client writing
# into the returned array is seen by `.rho` / fidelity() of THAT object until its next process().  Counted and reported
# to the maintainers of the framework, not raised (set False to raise it).
SCRIBBLE_MAY_SHOW_IN_OWNER = True


def _same(a, b) -> bool:
    """a retained value against its deep copy (bit for bit; type, dtype and shape included)"""
    if isinstance(a, np.ndarray) or isinstance(b, np.ndarray):
        return isinstance(a, np.ndarray) and isinstance(b, np.ndarray) and a.shape == b.shape \
            and a.dtype == b.dtype and bool(np.array_equal(a, b, equal_nan=True))
    try:
        return type(a) is type(b) and bool(a == b)
    except Exception:  # noqa: BLE001
        return False


def _maxdiff(a, b) -> str:
    try:
        return f"{np.abs(np.asarray(a) - np.asarray(b)).max():.3g}"
    except Exception:  # noqa: BLE001
        return "shape/type"


def _overlap(a, b) -> bool:
    return isinstance(a, np.ndarray) and isinstance(b, np.ndarray) and np.may_share_memory(a, b) \
        and bool(np.shares_memory(a, b))


def results_intact(out, returned: list) -> bool:
    """the very list of dictionaries the callback handed over against what it put into them"""
    try:
        return isinstance(out, list) and len(out) == len(returned) and \
            all(isinstance(d, dict) and [(tuple(k.s), v) for k, v in d.items()] == [(tuple(k), v) for k, v in items]
                for d, items in zip(out, returned))
    except Exception:  # noqa: BLE001
        return False


def rho_clauses(value, ref: np.ndarray) -> list[str]:
    """the property's clauses for ONE retained matrix, for the configuration it was computed for"""
    m = np.asarray(value)
    if m.shape != ref.shape:
        return [f"has shape {m.shape}, expected {ref.shape}"]
    out = []
    if not np.all(np.abs(m - m.conj().T) <= TOL):
        out.append("is not Hermitian")
    if not abs(np.trace(m) - 1) <= TOL:
        out.append(f"has trace {np.trace(m)}")
    if not np.all(np.abs(m - ref) <= TOL):
        out.append(f"is not |psi><psi| of the state it was computed for (max {np.abs(m - ref).max():.2e})")
    return out


_GLOBAL: list = []  # every matrix any stream was handed: (very object, copy, what)
_GLOBAL_CAP = 3000


def retain_global(raw, what: str) -> None:
    if isinstance(raw, np.ndarray) and len(_GLOBAL) < _GLOBAL_CAP:
        _GLOBAL.append((raw, raw.copy(), what))


def recheck_global(ctx: Ctx, when: str) -> None:
    """matrices handed out earlier in this run (by any object, in any stream) are what they were, unless the client
    itself wrote into them (scribbles update the copy)"""
    for k, (raw, cp, what) in enumerate(_GLOBAL):
        if not _same(raw, cp):
            ctx.violation(f"oracle: retained result changed: {what} (the {k + 1}th matrix handed out in this run) is no longer "
                          f"what was handed out (max difference {_maxdiff(raw, cp)}), noticed {when}",
                          {"case": {"stream": "retained", "which": k, "what": what, "when": when,
                                    "note": "run-wide observation (no single case): the replay runs the directed histories, "
                                            "whose ledgers look at the same thing"},
                           "problems": [f"retained result changed: {what}"]}, sig={"kind": "retained result changed (run-wide)"})
            _GLOBAL[k] = (raw, raw.copy(), what)
            return
    ctx.count("retained:run-wide-recheck:oracle-only")
    ctx.count("retained:run-wide-matrices-rechecked", len(_GLOBAL))


def _global_scribbled(raw) -> None:
    for k, (r, _cp, what) in enumerate(_GLOBAL):
        if r is raw or _overlap(r, raw):
            _GLOBAL[k] = (r, r.copy(), what)


class Ledger:
    """every value handed out: the very object, a deep copy taken at the time, what it must satisfy"""

    def __init__(self) -> None:
        self.entries: list[dict] = []
        self.owners: dict = {}
        self.client: list[dict] = []
        self.rechecks = 0

    # -- registration
    def hand_in(self, obj, what: str) -> dict:
        """a container of the client that is handed to the library (reference matrix, args list, result dictionaries)"""
        h = {"raw": obj, "copy": copy.deepcopy(obj), "what": what}
        self.client.append(h)
        return h

    def keep(self, raw, what: str, call, ref: np.ndarray):
        probs = []
        if isinstance(raw, np.ndarray):
            for e in self.entries:
                if e["call"] != call and _overlap(raw, e["raw"]):
                    probs.append(f"oracle: retained results alias each other: {what} "
                                 + ("IS the very ndarray" if raw is e["raw"] else "shares memory with") + f" {e['what']}")
                    break
            for h in self.client:
                if _overlap(raw, h["raw"]):
                    probs.append(f"oracle: retained results alias each other: {what} shares memory with {h['what']}")
                    break
        e = {"raw": raw, "copy": copy.deepcopy(raw), "what": what, "call": call, "ref": ref, "live": True}
        self.entries.append(e)
        return e, probs

    def set_owner(self, key, tomo, name: str, entry: dict, attr, ref_in, fid) -> None:
        self.owners[key] = {"tomo": tomo, "what": name, "entry": entry, "attr_copy": copy.deepcopy(attr), "ref": ref_in, "fid": fid}

    # -- the client post-processes a returned array in place
    def scribble(self, ctx: Ctx, k: int, how: str):
        arrs = [e for e in self.entries if isinstance(e["raw"], np.ndarray) and e["raw"].ndim == 2]
        if not arrs:
            ctx.count("hist:nothing-to-scribble-on")
            return None
        e = arrs[k % len(arrs)]
        raw = e["raw"]
        if not raw.flags.writeable:
            ctx.count("hist:returned-array-is-read-only (not scribbled on)")
            return None
        if how == "zero":
            raw[...] = 0
        elif how == "scale":
            raw *= -2
        elif how == "elem":
            raw[0, -1] += 1
        else:
            raw[...] = raw.conj().T.copy() + 1j
        ctx.count("hist:scribble-" + how)
        for e2 in self.entries:  # (.rho read after the call is the same ndarray on the unchanged library)
            if e2 is e or e2["raw"] is raw or (e2["call"] == e["call"] and _overlap(e2["raw"], raw)):
                e2["copy"] = copy.deepcopy(e2["raw"])
                e2["live"] = False
                if "(then written into by the client)" not in e2["what"]:
                    e2["what"] += " (then written into by the client)"
        _global_scribbled(raw)
        for o in self.owners.values():
            if o["entry"] is not e and o["entry"]["call"] != e["call"]:
                continue
            try:
                cur = o["tomo"].rho
            except Exception:  # noqa: BLE001, S112  (reported by the next recheck)
                continue
            if cur is raw or _overlap(cur, raw):
                ctx.count("hist:scribble-shows-in-.rho-of-the-object (process() returns the object's own ndarray)")
                if SCRIBBLE_MAY_SHOW_IN_OWNER:
                    o["attr_copy"] = copy.deepcopy(cur)
                    o["fid"] = None
            else:
                ctx.count("hist:scribble-on-a-copy (the object keeps its own array)")
        return e["what"]

    def clobbered(self, h: dict) -> None:
        """the client itself changed one of its containers"""
        h["copy"] = copy.deepcopy(h["raw"])

    # -- re-check everything after a later step
    def recheck(self, ctx: Ctx, after: str, worked=None) -> list[str]:
        """`worked`: the object whose own process() is the step (its .rho / fidelity() now report the new result; what it
        handed out BEFORE stays on the books as entries)"""
        probs = []
        for e in self.entries:
            self.rechecks += 1
            if not _same(e["raw"], e["copy"]):
                probs.append(f"oracle: retained result changed: {e['what']} is no longer what was handed out "
                             f"(max difference {_maxdiff(e['raw'], e['copy'])}) after {after}")
                e["copy"] = copy.deepcopy(e["raw"])
                e["live"] = False
                _global_scribbled(e["raw"])  # (reported here, with a replayable history: not once more run-wide)
            elif e["live"]:
                bad = rho_clauses(e["raw"], e["ref"])
                if bad:
                    probs.append(f"oracle: retained result no longer satisfies its clauses: {e['what']} {bad[0]}, after {after}")
                    e["live"] = False
        for h in self.client:
            self.rechecks += 1
            if not _same(h["raw"], h["copy"]):
                probs.append(f"oracle: client data modified: {h['what']} is not what the client left there, after {after}")
                h["copy"] = copy.deepcopy(h["raw"])
        for key, o in self.owners.items():
            if key == worked:
                continue
            self.rechecks += 1
            try:
                cur = o["tomo"].rho
            except Exception as e:  # noqa: BLE001
                probs.append(f"oracle: retained result changed: .rho of {o['what']} raises {exc_class(e)} after {after}")
                continue
            if not _same(cur, o["attr_copy"]):
                probs.append(f"oracle: retained result changed: .rho of {o['what']} no longer is what its last process() "
                             f"returned (max difference {_maxdiff(cur, o['attr_copy'])}) after {after}")
                o["attr_copy"] = copy.deepcopy(cur)
                o["fid"] = None
            elif o["fid"] is not None and o["ref"] is not None:
                try:
                    f = o["tomo"].fidelity(o["ref"])
                except Exception as e:  # noqa: BLE001
                    probs.append(f"oracle: retained result changed: fidelity() of {o['what']} raises {exc_class(e)} after {after}")
                    o["fid"] = None
                    continue
                if not abs(f - o["fid"]) <= 1e-12:
                    probs.append(f"oracle: retained result changed: fidelity() of {o['what']} against the same matrix now "
                                 f"reports {f:.9f}, it reported {o['fid']:.9f} after its process(), after {after}")
                    o["fid"] = f
        return probs


def retain_call(ctx: Ctx, led: Ledger, tomo, name: str, key, call_no: int, detail: dict, rec: dict | None) -> list[str]:
    """register everything ONE process() call handed out, everything that went into it, and what the object now reports"""
    call = (key, call_no)
    raw, attr = detail["raw"], detail["attr"]
    e, probs = led.keep(raw, f"the matrix returned by process() call #{call_no} of {name}", call, detail["ref"])
    if not isinstance(raw, np.ndarray):
        ctx.count("hist:process()-does-not-return-an-ndarray")
    if attr is raw:
        ctx.count("hist:.rho-is-the-returned-ndarray")
    elif isinstance(attr, np.ndarray):
        _, p2 = led.keep(attr, f".rho of {name} read after its process() call #{call_no}", call, detail["ref"])
        probs += p2
    if detail["ref_in"] is not None:
        led.hand_in(detail["ref_in"], f"the matrix handed to fidelity() of {name} after its process() call #{call_no}")
    led.set_owner(key, tomo, name, e, attr, detail["ref_in"], detail["fid"])
    if rec is not None and rec.get("out") is not None:
        rec["held"] = led.hand_in(rec["out"], f"the result dictionaries the experiment returned to process() call #{call_no} of {name}")
    return probs


# --------------------------------------------------------------------------- histories on long-lived objects
#
# One (or two) StateTomography objects live through a sequence of steps: the base circuit they were
# built on is extended in place (single gates, sub-circuits, grouped sub-circuits, heralded gates that
# add private ancilla modes, primitive bs/ps/swaps calls), a Parameter the base circuit depends on is
# changed, the experiment callback or its extra arguments are re-assigned, the circuit is tidied
# (unpack_groups, ...), and process() / .rho / fidelity() are used again after every change.  After every
# process() the clauses of the property are evaluated for the base circuit AS IT IS NOW (exactly as in
# the one-shot "state" stream), the result is compared with a FRESH StateTomography built on the
# current base circuit, and with the model on the cumulative qubit-level program.

PHASE_Q2 = ["1,0,0,0", "0,0,1/2,1/2", "0,1,0,0", "0,0,-1/2,1/2", "-1,0,0,0", "0,0,-1/2,-1/2", "0,-1,0,0",
            "0,0,1/2,-1/2"]  # exp(i k pi/4) in Q(i, sqrt2)
TIDY_OPS = ["unpack_groups", "compress_mode_swaps", "remove_non_adjacent_bs", "barrier"]


def param_value(v: dict) -> float:
    return v["k"] * np.pi / 4 if v["kind"] == "phase" else float(v["v"])


def hist_apply_gate(c, g: list, pobj: dict) -> None:
    if g[0] == "PPS":  # phase shifter with a live Parameter on one rail of qubit g[1]
        c.ps(2 * g[1] + g[2], pobj[g[3]])
    elif g[0] == "PBS":  # beam splitter across the rails of qubit g[1], reflectivity a live Parameter
        c.bs(2 * g[1], 2 * g[1] + 1, reflectivity=pobj[g[2]])
    else:
        tm.extend_base(c, [g])


def hist_apply(base, n: int, gates: list, pobj: dict, how: str) -> None:
    if how == "each":
        for g in gates:
            hist_apply_gate(base, g, pobj)
        return
    sub = lw.Circuit(2 * n)
    for g in gates:
        hist_apply_gate(sub, g, pobj)
    base.add(sub, 0, group=(how == "group"))


def hist_model_prog(prog: list, ptab: dict, bits: list):
    out = [["X", q] for q, b in enumerate(bits) if b]
    for g in prog:
        if g[0] in ("MODEU", "PRIM", "PBS", "HERU"):
            return None
        if g[0] == "PPS":
            ph = PHASE_Q2[ptab[g[3]]["k"] % 8]
            one, zero = "1,0,0,0", "0,0,0,0"
            out.append(["U", g[1], [[ph, zero], [zero, one]] if g[2] == 0 else [[one, zero], [zero, ph]]])
        else:
            out.append(g)
    return out


def rand_exp_cfg(rng, n: int, small: bool, bits=None) -> dict:
    source = "sim"
    if small and rng.random() < 0.3:
        source = rng.choice(["permanent", "slos"])
    if bits is None:
        bits = [0] * n if rng.random() < 0.7 else [rng.randint(0, 1) for _ in range(n)]
    return {"source": source, "drop_zero": rng.random() < 0.3, "shuffle": rng.randrange(1 << 30),
            "in_bits": bits, "kind": rng.choice(["function", "function", "method", "one-arg"])}


def other_bits(rng, n: int, cur: list) -> list:
    b = list(cur)
    q = rng.randrange(n)
    b[q] ^= 1
    for k in range(n):
        if k != q and rng.random() < 0.3:
            b[k] ^= 1
    return b


def gen_hist_case(ctx: Ctx, rng) -> dict:
    # (the retained-results steps draw from a stream of their own, derived from the state of `rng` without consuming it:
    # the histories proper stay what they were per seed)
    xrng = derived_rng(rng)
    n = rng.choices([1, 2, 3], weights=[40, 45, 15])[0]
    wild = rng.random() < 0.25
    prog = gen_wild(rng, n) if wild else tm.rand_gate_program(rng, n, max_len=2 + 2 * n, max_her=1)
    if len(prog) < 2:
        prog = [["H", 0], *prog, [rng.choice(["S", "T", "SX", "H"]), rng.randrange(n)]]
    params: dict = {}
    for _ in range(rng.choice([0, 0, 1, 1, 2])):
        pid = str(len(params))
        q = rng.randrange(n)
        if rng.random() < 0.75:
            params[pid] = {"kind": "phase", "k": rng.randrange(8)}
            gate = ["PPS", q, rng.randint(0, 1), pid]
        else:
            params[pid] = {"kind": "refl", "v": rng.choice([0.0, 0.5, 1.0, round(rng.random(), 3)])}
            gate = ["PBS", q, pid]
        pos = rng.randint(0, len(prog))
        # a superposition in front, so that the parameter is visible in the state
        prog[pos:pos] = [[rng.choice(["H", "SX"]), q], gate] if rng.random() < 0.6 else [gate]
    n_her = sum(1 for g in prog if g[0] in ("CZ", "CNOT") and g[3]["impl"] == "her")
    n_ps = sum(1 for g in prog if g[0] in ("CZ", "CNOT") and g[3]["impl"] == "ps")
    n_heru = sum(len(g[2]) + 2 * sum(h[0] for h in g[2]) for g in prog if g[0] == "HERU")
    small = 2 * n + 4 * n_her + 2 * n_ps + n_heru <= 8
    rounds = rng.choice([2, 2, 3, 3, 4])
    cuts = sorted(rng.randint(0, len(prog)) for _ in range(rounds - 1))
    if cuts[0] == len(prog):
        cuts[0] = rng.randint(0, len(prog) - 1)  # something is left to add after the first process()
    chunks = [prog[a:b] for a, b in zip([0, *cuts], [*cuts, len(prog)])]
    n_obj = rng.choice([1, 1, 1, 2])
    steps: list = []
    objs_cfg = []
    for o in range(n_obj):
        cfg = rand_exp_cfg(rng, n, small)
        args = None
        if cfg["kind"] != "one-arg" and rng.random() < 0.35:
            args = [0] * n if rng.random() < 0.6 else [rng.randint(0, 1) for _ in range(n)]
        objs_cfg.append({"op": "new", "obj": o, "exp": cfg, "args": args})
    early = rng.random() < 0.5  # construct -> mutate -> use   /   build the circuit -> construct -> use
    if early:
        steps += objs_cfg
    state = [dict(c) for c in objs_cfg]  # what the generator believes about each object
    for r, chunk in enumerate(chunks):
        if chunk:
            steps.append({"op": "extend", "gates": chunk, "how": rng.choice(["each", "each", "sub", "group"])})
        if r == 0 and not early:
            steps += objs_cfg
        if r > 0:
            if params and rng.random() < 0.6:
                pid = rng.choice(list(params))
                if params[pid]["kind"] == "phase":
                    steps.append({"op": "setparam", "pid": pid, "k": (params[pid]["k"] + rng.randint(1, 7)) % 8})
                else:
                    steps.append({"op": "setparam", "pid": pid,
                                  "v": rng.choice([0.0, 0.5, 1.0, round(rng.random(), 3)])})
            o = rng.randrange(n_obj)
            x = rng.random()
            if x < 0.25:
                cur = state[o]["args"] if state[o]["args"] is not None else state[o]["exp"]["in_bits"]
                bits = other_bits(rng, n, cur) if rng.random() < 0.7 else list(cur)
                cfg = rand_exp_cfg(rng, n, small, bits)
                if state[o]["args"] is not None and cfg["kind"] == "one-arg":
                    cfg["kind"] = "function"
                steps.append({"op": "setexp", "obj": o, "exp": cfg})
                state[o]["exp"] = cfg
            elif x < 0.5 and state[o]["exp"]["kind"] != "one-arg":
                cur = state[o]["args"] if state[o]["args"] is not None else state[o]["exp"]["in_bits"]
                bits = None if (state[o]["args"] is not None and rng.random() < 0.2) else other_bits(rng, n, cur)
                if bits is not None and state[o]["args"] is not None and xrng.random() < 0.45:
                    # the client refills the list it handed over (in place) and assigns it again
                    steps.append({"op": "clobber", "what": "args", "obj": o, "args": bits})
                else:
                    steps.append({"op": "setargs", "obj": o, "args": bits})
                state[o]["args"] = bits
            elif x < 0.65:
                what = rng.choice(TIDY_OPS)
                # unpack_groups turns the private ancilla modes of added heralded sub-circuits into heralds
                # declared directly on the base circuit: later construction calls then address full mode
                # numbers (see ASSUMPTIONS) - only generated when nothing is added afterwards
                two_q = any(g[0] in ("CZ", "CNOT") for c in chunks[: r + 1] for g in c)
                if what == "unpack_groups" and two_q and any(chunks[r + 1:]):
                    what = "compress_mode_swaps"
                steps.append({"op": "tidy", "what": what})
        who = [rng.randrange(n_obj)] if rng.random() < 0.75 else list(range(n_obj))
        if rng.random() < 0.15:
            who = who + [who[0]]  # repeated call without any change
        steps += [{"op": "process", "obj": o} for o in who]
    # what clients do with what they were handed / with what they handed over, and other objects at work, at random
    # points after the first process()
    first = next(k for k, st in enumerate(steps) if st["op"] == "process")

    def ins(st: dict) -> None:
        steps.insert(xrng.randint(first + 1, len(steps)), st)

    if xrng.random() < 0.35:
        for _ in range(xrng.choice([1, 1, 2])):
            ins({"op": "scribble", "entry": xrng.randrange(64), "how": xrng.choice(SCRIBBLES)})
    if xrng.random() < 0.35:
        ins({"op": "clobber", "what": "results", "how": xrng.choice(["clear-dicts", "zero-counts", "drop-list", "refill", "refill", "rotate"])})
    if xrng.random() < 0.2:
        ins({"op": "clobber", "what": "ref"})
    if xrng.random() < 0.4:
        for _ in range(xrng.choice([1, 1, 2])):
            ins(rand_other(xrng, n))
    return {"stream": "hist", "n": n, "params": params, "steps": steps}


def rand_other(rng, n: int) -> dict:
    """a StateTomography object of its own: same size as the history's (55%) or another one, small circuit"""
    n2 = n if rng.random() < 0.55 else rng.choice([k for k in (1, 2) if k != n] or [1])
    prog = tm.rand_gate_program(rng, n2, max_len=1 + 2 * n2, max_her=0)
    if not prog:
        prog = [[rng.choice(["H", "SX"]), 0], [rng.choice(["S", "T", "Y"]), rng.randrange(n2)]]
    return {"op": "other", "n": n2, "prog": prog, "bits": [rng.randint(0, 1) if rng.random() < 0.3 else 0 for _ in range(n2)],
            "shuffle": rng.randrange(1 << 30)}


HIST_CORPUS = [
    # |+>|0>, process, extend by a heralded CNOT (4 -> 8 modes, Bell state), process again
    {"stream": "hist", "n": 2, "params": {}, "steps": [
        {"op": "extend", "gates": [["H", 0]], "how": "each"},
        {"op": "new", "obj": 0, "exp": {"source": "sim", "drop_zero": False, "shuffle": 1, "in_bits": [0, 0],
                                        "kind": "function"}, "args": None},
        {"op": "process", "obj": 0},
        {"op": "extend", "gates": [["CNOT", 0, 1, {"impl": "her"}]], "how": "each"},
        {"op": "process", "obj": 0}]},
    # one qubit: real -> complex -> complex, one gate at a time; object constructed on the empty circuit
    {"stream": "hist", "n": 1, "params": {}, "steps": [
        {"op": "new", "obj": 0, "exp": {"source": "sim", "drop_zero": True, "shuffle": 2, "in_bits": [0],
                                        "kind": "method"}, "args": None},
        {"op": "process", "obj": 0},
        {"op": "extend", "gates": [["H", 0]], "how": "each"},
        {"op": "process", "obj": 0},
        {"op": "extend", "gates": [["S", 0]], "how": "sub"},
        {"op": "process", "obj": 0},
        {"op": "extend", "gates": [["T", 0]], "how": "group"},
        {"op": "process", "obj": 0}]},
    # a Parameter the base circuit depends on changes between two calls: (|00> + e^{ik pi/4}|11>)/sqrt2
    {"stream": "hist", "n": 2, "params": {"0": {"kind": "phase", "k": 0}}, "steps": [
        {"op": "extend", "gates": [["H", 0], ["CNOT", 0, 1, {"impl": "ps"}], ["PPS", 1, 1, "0"]], "how": "each"},
        {"op": "new", "obj": 0, "exp": {"source": "sim", "drop_zero": False, "shuffle": 3, "in_bits": [0, 0],
                                        "kind": "function"}, "args": None},
        {"op": "process", "obj": 0},
        {"op": "setparam", "pid": "0", "k": 2},
        {"op": "process", "obj": 0},
        {"op": "setparam", "pid": "0", "k": 5},
        {"op": "process", "obj": 0}]},
    # experiment_args re-assigned (the input state the experiment uses), then the experiment itself
    {"stream": "hist", "n": 2, "params": {}, "steps": [
        {"op": "extend", "gates": [["H", 0], ["T", 0], ["SX", 1]], "how": "sub"},
        {"op": "new", "obj": 0, "exp": {"source": "sim", "drop_zero": False, "shuffle": 4, "in_bits": [0, 0],
                                        "kind": "function"}, "args": [0, 0]},
        {"op": "process", "obj": 0},
        {"op": "setargs", "obj": 0, "args": [1, 0]},
        {"op": "process", "obj": 0},
        {"op": "setexp", "obj": 0, "exp": {"source": "permanent", "drop_zero": True, "shuffle": 5,
                                           "in_bits": [0, 1], "kind": "method"}},
        {"op": "setargs", "obj": 0, "args": None},
        {"op": "process", "obj": 0}]},
    # two tomography objects share one base circuit; used alternately around an extension
    {"stream": "hist", "n": 2, "params": {}, "steps": [
        {"op": "extend", "gates": [["SX", 0], ["H", 1]], "how": "each"},
        {"op": "new", "obj": 0, "exp": {"source": "sim", "drop_zero": False, "shuffle": 6, "in_bits": [0, 0],
                                        "kind": "function"}, "args": None},
        {"op": "new", "obj": 1, "exp": {"source": "slos", "drop_zero": False, "shuffle": 7, "in_bits": [0, 1],
                                        "kind": "one-arg"}, "args": None},
        {"op": "process", "obj": 0},
        {"op": "extend", "gates": [["CZ", 0, 1, {"impl": "ps"}], ["S", 1]], "how": "group"},
        {"op": "process", "obj": 1},
        {"op": "process", "obj": 0},
        {"op": "process", "obj": 0}]},
    # three qubits: Bell pair x |0>  ->  GHZ, then tidy the circuit and call again
    {"stream": "hist", "n": 3, "params": {}, "steps": [
        {"op": "new", "obj": 0, "exp": {"source": "sim", "drop_zero": False, "shuffle": 8, "in_bits": [0, 0, 0],
                                        "kind": "function"}, "args": None},
        {"op": "extend", "gates": [["H", 0], ["CNOT", 0, 1, {"impl": "ps"}]], "how": "group"},
        {"op": "process", "obj": 0},
        {"op": "extend", "gates": [["CNOT", 1, 2, {"impl": "ps"}], ["Sadj", 2]], "how": "each"},
        {"op": "process", "obj": 0},
        {"op": "tidy", "what": "unpack_groups"},
        {"op": "process", "obj": 0}]},
    # heralded / post-selected gates are in the base circuit while it is measured, then construction goes on (by single
    # gates, by a sub-circuit) and it is measured again
    {"stream": "hist", "n": 2, "params": {}, "steps": [
        {"op": "extend", "gates": [["H", 0], ["CNOT", 0, 1, {"impl": "her"}]], "how": "each"},
        {"op": "new", "obj": 0, "exp": {"source": "sim", "drop_zero": False, "shuffle": 15, "in_bits": [0, 0],
                                        "kind": "function"}, "args": None},
        {"op": "process", "obj": 0},
        {"op": "extend", "gates": [["SX", 1], ["T", 0]], "how": "each"},
        {"op": "process", "obj": 0},
        {"op": "extend", "gates": [["CZ", 0, 1, {"impl": "ps"}], ["H", 1]], "how": "sub"},
        {"op": "process", "obj": 0},
        {"op": "extend", "gates": [["Y", 0]], "how": "each"},
        {"op": "process", "obj": 0}]},
    # a Parameter sweep on ONE object, `rhos = [tomo.process() for value in sweep]`: every collected matrix is looked at
    # after the sweep; then the client zeroes the first one, other objects (same size, another size) work, the client
    # clears its result dictionaries and the matrices it gave to fidelity(), and the sweep goes on
    {"stream": "hist", "n": 2, "params": {"0": {"kind": "refl", "v": 0.5}, "1": {"kind": "phase", "k": 0}}, "steps": [
        {"op": "extend", "gates": [["PBS", 0, "0"], ["PPS", 0, 1, "1"], ["H", 1], ["CNOT", 0, 1, {"impl": "ps"}]], "how": "each"},
        {"op": "new", "obj": 0, "exp": {"source": "sim", "drop_zero": False, "shuffle": 9, "in_bits": [0, 0],
                                        "kind": "function"}, "args": None},
        {"op": "setparam", "pid": "0", "v": 0.2}, {"op": "setparam", "pid": "1", "k": 1},
        {"op": "process", "obj": 0},
        {"op": "setparam", "pid": "0", "v": 0.5}, {"op": "setparam", "pid": "1", "k": 3},
        {"op": "process", "obj": 0},
        {"op": "setparam", "pid": "0", "v": 0.9}, {"op": "setparam", "pid": "1", "k": 6},
        {"op": "process", "obj": 0},
        {"op": "scribble", "entry": 0, "how": "zero"},
        {"op": "other", "n": 2, "prog": [["SX", 0], ["H", 1], ["CZ", 0, 1, {"impl": "ps"}]], "bits": [0, 1], "shuffle": 10},
        {"op": "other", "n": 1, "prog": [["H", 0], ["T", 0]], "bits": [0], "shuffle": 11},
        {"op": "clobber", "what": "results", "how": "refill"},
        {"op": "clobber", "what": "ref"},
        {"op": "setparam", "pid": "1", "k": 4},
        {"op": "process", "obj": 0},
        {"op": "scribble", "entry": 5, "how": "scale"},
        {"op": "process", "obj": 0}]},
    # one qubit, a gate added between the calls, two objects on the one circuit, the experiment_args list refilled in
    # place for the next run; results of all calls kept
    {"stream": "hist", "n": 1, "params": {}, "steps": [
        {"op": "extend", "gates": [["H", 0]], "how": "each"},
        {"op": "new", "obj": 0, "exp": {"source": "sim", "drop_zero": False, "shuffle": 12, "in_bits": [0],
                                        "kind": "function"}, "args": [0]},
        {"op": "new", "obj": 1, "exp": {"source": "permanent", "drop_zero": True, "shuffle": 13, "in_bits": [1],
                                        "kind": "method"}, "args": [1]},
        {"op": "process", "obj": 0},
        {"op": "process", "obj": 1},
        {"op": "extend", "gates": [["T", 0]], "how": "each"},
        {"op": "process", "obj": 0},
        {"op": "clobber", "what": "args", "obj": 0, "args": [1]},
        {"op": "process", "obj": 0},
        {"op": "clobber", "what": "results", "how": "drop-list"},
        {"op": "extend", "gates": [["SX", 0]], "how": "group"},
        {"op": "clobber", "what": "args", "obj": 1, "args": [0]},
        {"op": "process", "obj": 1},
        {"op": "other", "n": 1, "prog": [["SX", 0]], "bits": [1], "shuffle": 14},
        {"op": "process", "obj": 0}]},
]


def run_hist(ctx: Ctx, case: dict, want_info: bool = False):
    n = case["n"]
    ptab = {pid: dict(v) for pid, v in case["params"].items()}
    pobj = {pid: lw.Parameter(param_value(v)) for pid, v in ptab.items()}
    base = lw.Circuit(2 * n)
    # a TWIN of the base circuit: the same construction calls, never handed to a StateTomography.  "The base circuit is
    # left unchanged" includes what U / heralds do not show right away (group structure, ancilla bookkeeping): the next
    # construction call must land on the base circuit exactly as it lands on the twin.
    twin = lw.Circuit(2 * n)
    cum: list = []
    objs: dict = {}
    cache: dict = {}
    probs: list[str] = []
    led = Ledger()
    info = {"processes": 0, "state_changed_between_calls": 0, "modes_changed_between_calls": 0, "ops": set(), "ledger": led,
            "retained_while_another_object_works": 0}
    unpacked_with_heralds = False
    for i, st in enumerate(case["steps"]):
        op = st["op"]
        if op == "new":
            rec = {"seen": [], "returned": []}
            cfg = dict(st["exp"])
            args = st.get("args")
            alist = None if args is None else [list(args)]  # the client's own list
            try:
                tomo = StateTomography(n, base, make_experiment(cfg, rec, n, cache), alist)
            except Exception as e:  # noqa: BLE001
                # every callback form generated here (function, lambda, bound method) is a valid experiment
                probs.append(f"oracle: hist: step #{i} constructing StateTomography with a {cfg.get('kind') or 'function'} "
                             f"callback raised {exc_class(e)}")
                break
            objs[st["obj"]] = {"tomo": tomo, "rec": rec, "cfg": cfg, "args": args, "last": None, "calls": 0,
                               "pending": set(), "alist": alist,
                               "ahand": None if alist is None else led.hand_in(alist, f"the experiment_args list of object {st['obj']}")}
            probs += [f"{x} [history step {i}]" for x in led.recheck(ctx, f"the construction of StateTomography object {st['obj']}")]
            continue
        if op == "process":
            if st["obj"] not in objs:
                raise MachineryFault("history processes an object that was not constructed")
            o = objs[st["obj"]]
            bits = list(o["args"] if o["args"] is not None else o["cfg"]["in_bits"])
            in_state = tm.input_state(bits)
            mprog = hist_model_prog(cum, ptab, bits)
            p, detail = check_process_call(ctx, n, base, o["tomo"], o["rec"], in_state, mprog, "hist")
            o["calls"] += 1
            info["processes"] += 1
            where = f" [history step {i}: process() call #{o['calls']} on this object" + \
                    (f", after {'+'.join(sorted(o['pending']))}" if o["pending"] else "") + "]"
            key = ("obj", st["obj"])
            name = f"StateTomography object {st['obj']}"
            info["retained_while_another_object_works"] += sum(1 for k2 in led.owners if k2 != key)
            # what was handed out before (by this object, by others) survives this call; then its results go on the books
            p += led.recheck(ctx, f"process() call #{o['calls']} of {name}" +
                             (f" (after {'+'.join(sorted(o['pending']))})" if o["pending"] else ""), worked=key)
            if detail is not None:
                p += retain_call(ctx, led, o["tomo"], name, key, o["calls"], detail, o["rec"])
            if detail is not None and o["rec"].get("bits") != bits:
                p.append(f"oracle: the callback was handed experiment_args {o['rec'].get('bits')}, the object's "
                         f"current experiment / experiment_args say {bits}")
            if detail is not None and o["rec"].get("by") != o["cfg"]["shuffle"]:
                p.append("oracle: process() did not call the experiment currently assigned to the object")
            if detail is not None:
                p += compare_with_fresh(ctx, n, base, o, bits, detail, cache, led, i)
                cur = (detail["psi"] / np.sqrt(detail["norm"]), base.n_modes)
                if o["last"] is not None:
                    for kind in o["pending"]:
                        ctx.count(f"hist:process-after-{kind}")
                    if not o["pending"]:
                        ctx.count("hist:process-repeated-unchanged")
                    if abs(abs(np.vdot(cur[0], o["last"][0])) - 1) > 1e-6:
                        info["state_changed_between_calls"] += 1
                    if cur[1] != o["last"][1]:
                        info["modes_changed_between_calls"] += 1
                o["last"] = cur
            o["pending"] = set()
            probs += [x + where for x in p]
            continue
        # ---- mutations
        info["ops"].add(op)
        tag = op
        if op == "extend" and unpacked_with_heralds:
            ctx.count("hist:extend-after-unpack_groups-with-heralds (outside the quantifier, history stopped)")
            break
        if op == "extend":
            before_modes = base.n_modes
            hist_apply(base, n, st["gates"], pobj, st["how"])
            hist_apply(twin, n, st["gates"], pobj, st["how"])
            cum += st["gates"]
            tag = "extend-" + st["how"] + ("-adding-heralds" if base.n_modes != before_modes else "")
            probs += [f"{x} [history step {i}]" for x in twin_problem(ctx, base, twin, info["processes"], tag)]
        elif op == "setparam":
            ptab[st["pid"]] = {"kind": "phase", "k": st["k"]} if "k" in st else {"kind": "refl", "v": st["v"]}
            pobj[st["pid"]].set(param_value(ptab[st["pid"]]))
        elif op == "setexp":
            o = objs.get(st["obj"])
            if o is None:
                raise MachineryFault("history re-assigns the experiment of an object that was not constructed")
            o["cfg"] = dict(st["exp"])
            o["tomo"].experiment = make_experiment(o["cfg"], o["rec"], n, cache)
        elif op == "setargs":
            o = objs.get(st["obj"])
            if o is None:
                raise MachineryFault("history re-assigns the arguments of an object that was not constructed")
            if o["cfg"]["kind"] == "one-arg" and st["args"] is not None:
                raise MachineryFault("history hands extra arguments to a one-argument callback")
            o["args"] = st["args"]
            o["alist"] = None if st["args"] is None else [list(st["args"])]
            o["ahand"] = None if o["alist"] is None else led.hand_in(o["alist"], f"the experiment_args list of object {st['obj']}")
            o["tomo"].experiment_args = o["alist"]
        elif op == "tidy":
            for c_ in (base, twin):
                if st["what"] == "barrier":
                    c_.barrier()
                else:
                    getattr(c_, st["what"])()
            if st["what"] == "unpack_groups" and base.heralds["output"]:
                unpacked_with_heralds = True
            tag = "tidy-" + st["what"]
            probs += [f"{x} [history step {i}]" for x in twin_problem(ctx, base, twin, info["processes"], tag)]
        elif op == "scribble":
            # the client post-processes a matrix it was handed, in place
            w = led.scribble(ctx, st["entry"], st["how"])
            if w is None:
                continue
            probs += [f"{x} [history step {i}]" for x in led.recheck(ctx, f"the client wrote into {w} ({st['how']})")]
            continue
        elif op == "clobber":
            # the client re-uses ITS OWN containers that went into the library earlier
            what = st["what"]
            if what == "results":
                done = 0
                for o in objs.values():
                    h = o["rec"].get("held")
                    if h is None:
                        continue
                    out = h["raw"]
                    if st["how"] == "clear-dicts":
                        for d in out:
                            d.clear()
                    elif st["how"] == "zero-counts":
                        for d in out:
                            for k in d:
                                d[k] = 0
                    elif st["how"] == "refill":
                        # the dictionaries are used again for the data of the next experiment: valid counts of
                        # another state (here: every outcome equally often)
                        for d in out:
                            d.clear()
                            d.update({s_: 25 for s_ in tm.dual_rail_states(n)})
                    elif st["how"] == "rotate":
                        for d in out:
                            ks, vs = list(d), list(d.values())
                            d.update(dict(zip(ks, vs[1:] + vs[:1])))
                    else:
                        out.clear()
                    led.clobbered(h)
                    done += 1
                if not done:
                    continue
                after = f"the client re-used ({st['how']}) the result dictionaries its experiment had returned"
            elif what == "ref":
                done = 0
                for ow in led.owners.values():
                    h = next((h for h in led.client if h["raw"] is ow["ref"]), None)
                    if h is None or ow["ref"] is None:
                        continue
                    spare = h["copy"].copy()
                    ow["ref"][...] = 0
                    led.clobbered(h)
                    ow["ref"] = spare  # (a matrix with the same values: fidelity() against it must report what it did)
                    led.hand_in(spare, f"the matrix handed to fidelity() of {ow['what']} (second copy)")
                    done += 1
                if not done:
                    continue
                after = "the client zeroed the matrices it had handed to fidelity()"
            elif what == "args":
                o = objs.get(st["obj"])
                if o is None or o["alist"] is None or o["cfg"]["kind"] == "one-arg":
                    raise MachineryFault("history refills the experiment_args list of an object that has none")
                o["alist"][0][:] = list(st["args"])  # refilled in place ...
                led.clobbered(o["ahand"])
                o["tomo"].experiment_args = o["alist"]  # ... and handed over again
                o["args"] = list(st["args"])
                o["pending"].add("experiment_args-list-refilled-in-place")
                after = f"the client refilled the experiment_args list of object {st['obj']} in place and assigned it again"
            else:
                raise MachineryFault(f"unknown clobber {what}")
            ctx.count(f"hist:client-reuses-its-{what}" + (":" + st["how"] if "how" in st else ""))
            probs += [f"{x} [history step {i}]" for x in led.recheck(ctx, after)]
            continue
        elif op == "other":
            # another StateTomography object, on a circuit of its own (same or another size), does its work in between
            n2 = st["n"]
            base2 = tm.build_base(n2, st["prog"])
            rec2 = {"seen": [], "returned": []}
            cfg2 = {"source": "sim", "drop_zero": False, "shuffle": st["shuffle"], "in_bits": list(st["bits"]), "kind": "one-arg"}
            okey = ("other", i)
            oname = f"another StateTomography object (n = {n2}, step {i})"
            try:
                tomo2 = StateTomography(n2, base2, make_experiment(cfg2, rec2, n2, cache))
                p2, det2 = check_process_call(ctx, n2, base2, tomo2, rec2, tm.input_state(st["bits"]), None, "hist")
            except MachineryFault:
                raise
            except Exception as e:  # noqa: BLE001
                probs.append(f"oracle: hist: {oname} raised {exc_class(e)} [history step {i}]")
                continue
            info["retained_while_another_object_works"] += len(led.owners)
            ctx.count("hist:other-object-works:" + ("same-size" if n2 == n else "another-size"))
            p2 += led.recheck(ctx, f"the process() of {oname}", worked=okey)
            if det2 is not None:
                p2 += retain_call(ctx, led, tomo2, oname, okey, 1, det2, rec2)
            probs += [f"{x} [history step {i}]" for x in p2]
            continue
        else:
            raise MachineryFault(f"unknown history step {op}")
        for k, o in objs.items():
            if op in ("setexp", "setargs") and k != st["obj"]:
                continue
            o["pending"].add(tag)
        # a change of what FUTURE results depend on changes nothing that was handed out already
        probs += [f"{x} [history step {i}]" for x in led.recheck(ctx, tag)]
    return (probs, info) if want_info else probs


def twin_problem(ctx: Ctx, base, twin, n_processed: int, tag: str) -> list[str]:
    """after a construction call made on both: the base circuit (handed to StateTomography objects, measured
    `n_processed` times so far) against its never-measured twin"""
    a, b = cg.observe(base), cg.observe(twin)
    if n_processed:
        ctx.count("hist:base-compared-with-never-measured-twin-after-a-construction-call")
    same = (a["n"], a["input_modes"], a["in_heralds"], a["out_heralds"]) == (b["n"], b["input_modes"], b["in_heralds"], b["out_heralds"]) \
        and ("U_full" in a) == ("U_full" in b) and ("U_full" not in a or (a["U_full"].shape == b["U_full"].shape
                                                                     and bool(np.all(np.abs(a["U_full"] - b["U_full"]) <= 1e-12))))
    if same:
        return []
    return [f"oracle: the base circuit was modified by process(): after {tag} it differs from a never-measured twin built by "
            f"the same construction calls ({n_processed} process() calls so far)"]


def compare_with_fresh(ctx: Ctx, n: int, base, o: dict, bits: list, detail: dict, cache: dict,
                       led: "Ledger | None" = None, step: int = 0) -> list[str]:
    """a StateTomography constructed NOW on the same base circuit, same data source: the circuits it
    requests and the matrix it returns are what the long-lived object must have produced too"""
    probs: list[str] = []
    frec = {"seen": [], "returned": []}
    fcfg = dict(o["cfg"], in_bits=bits, kind="one-arg")
    long_seen = list(o["rec"]["seen"])
    try:
        ftomo = StateTomography(n, base, make_experiment(fcfg, frec, n, cache))
        fraw = ftomo.process()
        frho = np.array(fraw)
    except Exception as e:  # noqa: BLE001
        return [f"oracle: process() of a fresh StateTomography on the same base circuit raised {exc_class(e)}"]
    retain_global(fraw, "a matrix returned by process() of a fresh comparison object in the hist stream")
    if led is not None:
        # the fresh object is one more StateTomography at work: nothing on the books may move, and what it hands out
        # goes on the books as well (the object stays alive)
        fkey = ("fresh", step, len(led.entries))
        fname = f"the fresh comparison object of step {step}"
        probs += led.recheck(ctx, f"the process() of {fname}", worked=fkey)
        fdet = {"raw": fraw, "attr": None, "ref": detail["ref"], "ref_in": None, "fid": None}
        try:
            fdet["attr"] = ftomo.rho
        except Exception as e:  # noqa: BLE001
            probs.append(f"oracle: .rho of {fname} raised {exc_class(e)}")
        probs += retain_call(ctx, led, ftomo, fname, fkey, 1, fdet, frec)
    uf = np.array(base.U_full)
    vis = tm.visible_modes(base)
    forder = [tm.identify_setting(c, uf, vis, n)[0] for c in frec["seen"]]
    order = detail["order"]
    if None in order or None in forder or sorted(order) != sorted(forder) or len(set(order)) != len(order):
        if None in forder or sorted(forder) != sorted(tm.all_settings(n)):
            probs.append("oracle: a fresh StateTomography on the same base circuit does not request one circuit per setting")
        return probs  # the long-lived object's circuits were reported by the direct oracle already
    if order != forder:
        ctx.count("hist:fresh-object-uses-another-order")
    fby = dict(zip(forder, frec["seen"]))
    for k, (lab, c) in enumerate(zip(order, long_seen)):
        a, b = cg.observe(c), cg.observe(fby[lab])
        if (a["n"], a["input_modes"], a["in_heralds"], a["out_heralds"]) != \
                (b["n"], b["input_modes"], b["in_heralds"], b["out_heralds"]) \
                or not np.all(np.abs(a["U_full"] - b["U_full"]) <= 1e-12):
            probs.append(f"oracle: requested circuit #{k} ({lab}) differs from the circuit a fresh StateTomography "
                         f"on the same base circuit requests for that setting")
            break
    if frho.shape != detail["rho"].shape or not np.all(np.abs(frho - detail["rho"]) <= TOL):
        probs.append("oracle: rho differs from the rho of a fresh StateTomography on the same base circuit and data")
    ctx.count("hist:compared-with-fresh-object")
    return probs


def shrink_hist(ctx: Ctx, case: dict, lead: str | None = None) -> dict:
    """`lead`: the kind of the first problem; the smaller history must still show a problem of that kind"""
    def still(steps):
        try:
            return any(lead is None or lead in p for p in run_hist(ctx, dict(case, steps=steps)))
        except Exception:  # noqa: BLE001  (a history that is no longer well formed)
            return False

    steps = ddmin(case["steps"], still, max_tests=60) if len(case["steps"]) > 1 else case["steps"]
    # then the gates inside every remaining extension
    for k, st in enumerate(steps):
        if st["op"] == "extend" and len(st["gates"]) > 1:
            def still_g(gates, k=k, st=st):
                return still([*steps[:k], dict(st, gates=gates), *steps[k + 1:]])

            steps = [*steps[:k], dict(st, gates=ddmin(st["gates"], still_g, max_tests=20)), *steps[k + 1:]]
    return dict(case, steps=steps)


# --------------------------------------------------------------------------- fidelity robustness
#
# fidelity() / state_fidelity on matrices as tomography produces them: an exact pure-state density
# matrix plus Hermitian rounding residue of magnitude 0, 1e-40 ... 1e-17 (the matrix square root of
# such a singular matrix is where general-purpose routines break), in the shapes residue really has:
# a tiny multiple of a Pauli string, entries coupling the null space to the support, a dense block on
# the null space, dense everywhere, tiny (also negative) diagonal entries.  Expected: 1 within 1e-6,
# a finite real number, no exception.  Mixed full-rank states are compared with the closed formula
# F = tr sqrt( sqrt(rho) sigma sqrt(rho) )  (the library's convention, model: stateFidelity) and with
# known values, so that a wrong formula is seen too.

H_ = 1 / np.sqrt(2)
ONE_QUBIT = {"0": [1, 0], "1": [0, 1], "+": [H_, H_], "-": [H_, -H_], "+i": [H_, 1j * H_], "-i": [H_, -1j * H_],
             "t": [H_, (1 + 1j) / 2], "r345": [0.6, 0.8], "c345": [0.6, 0.8j]}
PAULI1 = {"I": np.eye(2, dtype=complex), **tm.PAULI_NP}
F28_EPS = 6.25585058458156e-35  # the residue of finding F28 (notes/repro/f28_repro.py)
MAGS = [1e-40, 1e-35, 1e-30, 1e-25, 1e-20, 1e-17]


def mat_json(a) -> list:
    return [[[float(np.real(z)), float(np.imag(z))] for z in row] for row in np.array(a)]


def mat_np(j) -> np.ndarray:
    return np.array([[complex(*z) for z in row] for row in j], dtype=complex)


def kron_all(vs) -> np.ndarray:
    out = np.array([1], dtype=complex)
    for v in vs:
        out = np.kron(out, np.array(v, dtype=complex))
    return out


def rand_pure(rng, n: int):
    kind = rng.choice(["basis", "product", "product", "bell-x", "ghz", "w", "dense"])
    if n == 1 and kind in ("bell-x", "ghz", "w"):
        kind = "product"
    if kind == "basis":
        v = np.zeros(2**n, dtype=complex)
        v[rng.randrange(2**n)] = 1
    elif kind == "product":
        v = kron_all([ONE_QUBIT[rng.choice(list(ONE_QUBIT))] for _ in range(n)])
    elif kind == "bell-x":
        b = np.array(rng.choice([[1, 0, 0, 1], [1, 0, 0, -1], [0, 1, 1, 0], [0, 1, -1j, 0], [1, 0, 0, 1j]]),
                     dtype=complex) * H_
        rest = [ONE_QUBIT[rng.choice(list(ONE_QUBIT))] for _ in range(n - 2)]
        v = kron_all([b, *rest]) if rng.random() < 0.5 else kron_all([*rest, b])
    elif kind == "ghz":
        v = np.zeros(2**n, dtype=complex)
        v[0] = H_
        v[-1] = H_ * rng.choice([1, -1, 1j, -1j])
    elif kind == "w":
        v = np.zeros(2**n, dtype=complex)
        for q in range(n):
            v[1 << q] = 1 / np.sqrt(n)
    else:
        v = np.array([complex(rng.gauss(0, 1), rng.gauss(0, 1)) for _ in range(2**n)])
        v = v / np.linalg.norm(v)
    return kind, v


def rand_mag(rng) -> float:
    r = rng.random()
    if r < 0.25:
        return rng.choice(MAGS)
    if r < 0.3:
        return F28_EPS * rng.choice([1, 0.5, 2, 10, 1e3, 1e-3])
    return 10.0 ** rng.uniform(-40, -17)


def rand_residue(rng, psi: np.ndarray, n: int):
    """(class, sparse entry list [[i, j, re, im], ...] with i <= j; the Hermitian partner is implied)"""
    d = len(psi)
    null = [i for i in range(d) if abs(psi[i]) < 1e-12]
    supp = [i for i in range(d) if i not in null]
    classes = ["pauli", "pauli", "dense-all", "diag", "sparse"]
    if null:
        classes += ["couple", "couple", "couple", "couple", "couple-subset", "dense-null"]
    cls = rng.choice(classes)
    mag = rand_mag(rng)
    ent: dict = {}

    def put(i, j, v):
        v = complex(v)
        if i > j:
            i, j, v = j, i, v.conjugate()
        if i == j:
            v = complex(v.real, 0)
        ent[(i, j)] = ent.get((i, j), 0) + v

    def phase():
        return rng.choice([1, -1, 1j, -1j])

    if cls == "pauli":
        for _ in range(rng.choice([1, 1, 2, 3])):
            s = [rng.choice("IXYZ") for _ in range(n)]
            if all(c == "I" for c in s):
                s[rng.randrange(n)] = rng.choice("XYZ")
            m = np.array([[1]], dtype=complex)
            for c in s:
                m = np.kron(m, PAULI1[c])
            eps = mag * rng.choice([1, -1]) * rng.choice([1, 1, rng.uniform(0.1, 1)])
            for i in range(d):
                for j in range(i, d):
                    if m[i, j] != 0:
                        put(i, j, eps * m[i, j])
    elif cls in ("couple", "couple-subset"):
        rows = null if cls == "couple" or len(null) < 2 else rng.sample(null, rng.randint(2, len(null)))
        style = rng.choice(["same-real", "same-phase", "diff"])
        for i in rows:
            cols = [rng.choice(supp)] if rng.random() < 0.8 else supp
            for j in cols:
                put(i, j, mag * {"same-real": 1, "same-phase": phase(),
                                 "diff": rng.uniform(0.1, 1) * phase()}[style])
        cls += ":" + style
    elif cls == "dense-null":
        for a, i in enumerate(null):
            for j in null[a:]:
                put(i, j, mag * complex(rng.gauss(0, 1), rng.gauss(0, 1)))
    elif cls == "dense-all":
        for i in range(d):
            for j in range(i, d):
                put(i, j, mag * complex(rng.gauss(0, 1), rng.gauss(0, 1)))
    elif cls == "diag":
        for i in (null or list(range(d))):
            put(i, i, mag * rng.choice([1, -1, rng.uniform(-1, 1)]))
    else:
        for _ in range(rng.randint(1, 4)):
            put(rng.randrange(d), rng.randrange(d), mag * rng.uniform(0.1, 1) * phase())
    return cls, [[i, j, v.real, v.imag] for (i, j), v in ent.items()]


def residue_np(d: int, ent: list) -> np.ndarray:
    e = np.zeros((d, d), dtype=complex)
    for i, j, re, im in ent:
        if i == j:
            e[i, i] += re
        else:
            e[i, j] += complex(re, im)
            e[j, i] += complex(re, -im)
    return e


def gen_fid_case(ctx: Ctx, rng, n_trials: int) -> dict:
    n = rng.choices([1, 2, 3], weights=[15, 40, 45])[0]
    kind, psi = rand_pure(rng, n)
    trials = [{"cls": "none", "E": [], "args": "pert-vs-exact", "aslist": rng.random() < 0.3}]
    for _ in range(n_trials):
        cls, ent = rand_residue(rng, psi, n)
        trials.append({"cls": cls, "E": ent,
                       "args": rng.choice(["pert-vs-exact", "pert-vs-exact", "exact-vs-pert", "pert-vs-pert"]),
                       "aslist": rng.random() < 0.15})
    return {"stream": "fid", "n": n, "kind": kind, "psi": [[float(z.real), float(z.imag)] for z in psi],
            "trials": trials}


def _f28_case() -> dict:
    """the matrix of finding F28: |1>|-> as process() returned it (entries exactly 1/2) with the
    residue eps * X(x)X it carried"""
    psi = kron_all([[0, 1], [H_, -H_]])
    e = F28_EPS
    rho0 = np.zeros((4, 4), dtype=complex)
    rho0[2:, 2:] = [[0.5, -0.5], [-0.5, 0.5]]
    return {"stream": "fid", "n": 2, "kind": "product", "psi": [[float(z.real), float(z.imag)] for z in psi],
            "rho0": mat_json(rho0),
            "trials": [{"cls": "pauli", "E": [[0, 3, e, 0.0], [1, 2, e, 0.0]], "args": a, "aslist": False}
                       for a in ("pert-vs-pert", "pert-vs-exact", "exact-vs-pert")]}


def call_fidelity(a, b, aslist: bool):
    from lightworks.tomography import state_fidelity

    if aslist:
        return state_fidelity(np.array(a), [list(r) for r in np.array(b)])
    return state_fidelity(np.array(a), np.array(b))


def check_fid_value(f, want: float, what: str) -> str | None:
    try:
        ok = np.isfinite(f) and abs(complex(f).imag) <= FID_TOL and abs(complex(f).real - want) <= FID_TOL
    except Exception:  # noqa: BLE001
        ok = False
    return None if ok else f"fidelity {what} is {f!r}, expected {want:.9g}"


def run_fid(ctx: Ctx, case: dict) -> list[str]:
    psi = np.array([complex(*z) for z in case["psi"]], dtype=complex)
    d = len(psi)
    rho0 = mat_np(case["rho0"]) if case.get("rho0") else density_from_state(psi)
    probs = []
    for t, tr in enumerate(case["trials"]):
        pert = rho0 + residue_np(d, tr["E"])
        a, b = {"pert-vs-exact": (pert, rho0), "exact-vs-pert": (rho0, pert), "pert-vs-pert": (pert, pert)}[tr["args"]]
        ctx.count("fid:residue=" + tr["cls"].split(":")[0])
        try:
            f = call_fidelity(a, b, tr["aslist"])
        except Exception as e:  # noqa: BLE001
            probs.append(f"oracle: state_fidelity raised {exc_class(e)} on a pure-state density matrix with rounding "
                         f"residue (trial {t}: {tr['cls']}, {tr['args']})")
            continue
        bad = check_fid_value(f, 1.0, f"of a pure-state density matrix with rounding residue against itself "
                                      f"(trial {t}: {tr['cls']}, {tr['args']})")
        if bad:
            probs.append("oracle: " + bad)
    return probs


def shrink_fid(ctx: Ctx, case: dict) -> dict:
    for tr in case["trials"]:
        c = dict(case, trials=[tr])
        if run_fid(ctx, c):
            ent = ddmin(tr["E"], lambda sub: bool(run_fid(ctx, dict(case, trials=[dict(tr, E=sub)]))), max_tests=60) \
                if len(tr["E"]) > 1 else tr["E"]
            return dict(case, trials=[dict(tr, E=ent)])
    return case


def psd_sqrt(m: np.ndarray) -> np.ndarray:
    w, v = np.linalg.eigh((m + m.conj().T) / 2)
    return (v * np.sqrt(np.clip(w, 0, None))) @ v.conj().T


def ref_fidelity(rho: np.ndarray, sigma: np.ndarray) -> float:
    """tr sqrt( sqrt(rho) sigma sqrt(rho) ) = sum of the singular values of sqrt(rho) sqrt(sigma)"""
    return float(np.sum(np.linalg.svd(psd_sqrt(rho) @ psd_sqrt(sigma), compute_uv=False)))


def rand_density(rng, d: int, rank: int | None = None) -> np.ndarray:
    rank = rank or d
    g = np.array([[complex(rng.gauss(0, 1), rng.gauss(0, 1)) for _ in range(rank)] for _ in range(d)])
    m = g @ g.conj().T
    return m / np.trace(m).real


def gen_fidmix_case(ctx: Ctx, rng) -> dict:
    n = rng.choices([1, 2, 3], weights=[35, 45, 20])[0]
    d = 2**n
    what = rng.choice(["self", "self", "mixed-vs-mixed", "maxmixed-vs-pure", "diag-vs-diag", "pure-vs-mixed",
                       "orthogonal-pure", "pure-vs-pure", "self-low-rank"])
    expect = None
    if what in ("self", "self-low-rank"):
        rho = rand_density(rng, d, None if what == "self" else rng.randint(1, max(1, d - 1)))
        sigma, expect = rho, 1.0
    elif what == "mixed-vs-mixed":
        rho, sigma = rand_density(rng, d), rand_density(rng, d)
    elif what == "maxmixed-vs-pure":
        _, psi = rand_pure(rng, n)
        rho, sigma = np.eye(d, dtype=complex) / d, density_from_state(psi)
        expect = 1 / np.sqrt(d)  # the library's fidelity is tr sqrt(.), not its square
        if rng.random() < 0.5:
            rho, sigma = sigma, rho
    elif what == "diag-vs-diag":
        p = np.array([rng.random() + 0.01 for _ in range(d)])
        q = np.array([rng.random() + 0.01 for _ in range(d)])
        p, q = p / p.sum(), q / q.sum()
        rho, sigma = np.diag(p).astype(complex), np.diag(q).astype(complex)
        expect = float(np.sum(np.sqrt(p * q)))
    elif what == "pure-vs-mixed":
        _, psi = rand_pure(rng, n)
        sigma = rand_density(rng, d)
        rho = density_from_state(psi)
        expect = float(np.sqrt(np.vdot(psi, sigma @ psi).real))
        if rng.random() < 0.5:
            rho, sigma = sigma, rho
    elif what == "orthogonal-pure":
        b = rng.sample(range(d), 2)
        u = np.linalg.qr(np.array([[complex(rng.gauss(0, 1), rng.gauss(0, 1)) for _ in range(d)] for _ in range(d)]))[0]
        rho, sigma, expect = density_from_state(u[:, b[0]]), density_from_state(u[:, b[1]]), 0.0
    else:
        _, a = rand_pure(rng, n)
        _, b = rand_pure(rng, n)
        rho, sigma, expect = density_from_state(a), density_from_state(b), float(abs(np.vdot(a, b)))
    return {"stream": "fidmix", "n": n, "what": what, "rho": mat_json(rho), "sigma": mat_json(sigma),
            "expect": expect}


def run_fidmix(ctx: Ctx, case: dict) -> list[str]:
    rho, sigma = mat_np(case["rho"]), mat_np(case["sigma"])
    what = case["what"]
    ctx.count("fidmix:" + what)
    want = ref_fidelity(rho, sigma)
    tol = 1e-6 if what != "orthogonal-pure" else 1e-5  # sqrt of rounding noise of order 1e-16 .. 1e-12
    if case["expect"] is not None and abs(want - case["expect"]) > tol:
        raise MachineryFault(f"reference fidelity {want} differs from the closed form {case['expect']} ({what})")
    try:
        f = call_fidelity(rho, sigma, False)
        g = call_fidelity(sigma, rho, False)
    except Exception as e:  # noqa: BLE001
        return [f"oracle: state_fidelity raised {exc_class(e)} on valid density matrices ({what})"]
    probs = []
    for val, nm in ((f, "F(rho, sigma)"), (g, "F(sigma, rho)")):
        try:
            ok = np.isfinite(val) and abs(complex(val).imag) <= tol and abs(complex(val).real - want) <= tol
        except Exception:  # noqa: BLE001
            ok = False
        if not ok:
            if what in ("self", "self-low-rank"):
                probs.append(f"oracle: fidelity of a density matrix against itself is {val!r} ({what}, n={case['n']})")
            else:
                probs.append(f"corr: {nm} = {val!r} differs from tr sqrt(sqrt(rho) sigma sqrt(rho)) = {want:.9g} "
                             f"({what}, n={case['n']})")
            break
    return probs


def gen_fidp_case(ctx: Ctx, rng) -> dict:
    n = rng.choices([1, 2, 3], weights=[25, 45, 30])[0]
    kind, psi = rand_pure(rng, n)
    return {"stream": "fidp", "n": n, "kind": kind, "psi": [[float(z.real), float(z.imag)] for z in psi],
            "shuffle": rng.randrange(1 << 30), "drop_zero": rng.random() < 0.5}


def run_fidp(ctx: Ctx, case: dict) -> list[str]:
    """fidelity() THE METHOD, on the matrix process() itself computes (with the rounding residue the
    Pauli sum really leaves) from the exact outcome probabilities of a given pure state"""
    import random

    from lightworks.tomography import state_fidelity

    n = case["n"]
    psi = np.array([complex(*z) for z in case["psi"]], dtype=complex)
    order = observe_order(ctx, n)
    if None in order or sorted(order) != sorted(tm.all_settings(n)):
        return ["oracle: on the empty base circuit the requested circuits are not one per measurement setting "
                f"(identified: {order})"]
    mu = meta(ctx, n)["meas_u_np"]
    srng = random.Random(case["shuffle"])

    def exp(circuits):  # noqa: ARG001
        out = []
        for lab in order:
            b = np.array([[1]], dtype=complex)
            for g in lab.split(","):
                b = np.kron(b, mu[g])
            pr = np.abs(b @ psi) ** 2
            items = [(k, float(pr[k])) for k in range(2**n) if pr[k] > 0 or not case["drop_zero"]]
            srng.shuffle(items)
            out.append({lw.State(tm.dual_rail(n, k)): v for k, v in items})
        return out

    tomo = StateTomography(n, lw.Circuit(2 * n), exp)
    ctx.count("fidp:" + case["kind"])
    try:
        raw = tomo.process()
        rho = np.array(raw)
    except Exception as e:  # noqa: BLE001
        return [f"oracle: process() raised {exc_class(e)} on the exact outcome probabilities of a pure state"]
    retain_global(raw, "a matrix returned by process() in the fidp stream")
    ref = density_from_state(psi)
    probs = []
    if rho.shape != ref.shape or not np.all(np.abs(rho - ref) <= TOL):
        probs.append("oracle: rho differs from |psi><psi| on the exact outcome probabilities of a pure state")
        return probs
    d = 2**n
    for sigma, want, nm, kind in ((ref, 1.0, "against the prepared state", "oracle"),
                                  (rho, 1.0, "against the returned matrix itself", "oracle"),
                                  (np.eye(d) / d, 1 / np.sqrt(d), "against the maximally mixed state", "corr")):
        try:
            f = tomo.fidelity(sigma)
        except Exception as e:  # noqa: BLE001
            probs.append(f"oracle: fidelity() {nm} raised {exc_class(e)}")
            continue
        bad = check_fid_value(f, want, nm)
        if bad:
            probs.append(f"{kind}: " + bad)
        else:
            try:
                f2 = state_fidelity(tomo.rho, sigma)
                if not abs(f2 - f) <= FID_TOL:
                    probs.append(f"corr: fidelity() = {f!r} but state_fidelity(.rho, same matrix) = {f2!r}")
            except Exception as e:  # noqa: BLE001
                probs.append(f"oracle: state_fidelity(.rho, ...) raised {exc_class(e)}")
    return probs


def case_key(case: dict) -> str:
    import hashlib

    return case["stream"] + ":" + hashlib.sha1(json.dumps(case, sort_keys=True).encode()).hexdigest()


def run_case(ctx: Ctx, case: dict) -> list[str]:
    if case["stream"] == "retained":  # replay of a run-wide observation: the directed histories keep ledgers of the same
        return [p for c in HIST_CORPUS for p in run_hist(ctx, c)]
    if case["stream"] == "state":
        return run_state(ctx, case)
    if case["stream"] == "data":
        return run_data(ctx, case)
    if case["stream"] == "hist":
        return run_hist(ctx, case)
    if case["stream"] == "fid":
        return run_fid(ctx, case)
    if case["stream"] == "fidmix":
        return run_fidmix(ctx, case)
    if case["stream"] == "fidp":
        return run_fidp(ctx, case)
    return run_init(ctx, case)


# --------------------------------------------------------------------------- hash-order probe

_PROBE = r"""
import json, sys, numpy as np
sys.path.insert(0, sys.argv[1])
import lightworks as lw, tomo as tm
from lightworks.tomography import StateTomography
case = json.loads(sys.argv[2]); n = case["n"]
base = tm.build_base(n, case["prog"]); ins = tm.input_state([0] * n)
uf = np.array(base.U_full); vis = tm.visible_modes(base); seen = []
def exp(cs):
    seen.extend(cs)
    return [{lw.State(list(k)): v for k, v in tm.exact_frequencies(c, ins, n).items()} for c in cs]
try:
    rho = np.array(StateTomography(n, base, exp).process())
except Exception as e:
    print(json.dumps({"impl_error": type(e).__name__ + ": " + str(e)[:200]}))
    sys.exit(0)
order = [tm.identify_setting(c, uf, vis, n)[0] for c in seen]
print(json.dumps({"order": order, "rho": [[[z.real, z.imag] for z in r] for r in rho]}))
"""


def hash_order_probe(ctx: Ctx, rng) -> None:
    """the same tomography in fresh interpreters with different string-hash seeds: the callback sees
    the settings in different orders, rho must not change"""
    n = 2
    prog = [["H", 0], ["CNOT", 0, 1, {"impl": "ps"}], ["T", 1], ["SX", 0]]
    arg = json.dumps({"n": n, "prog": prog})
    here = os.path.dirname(os.path.dirname(os.path.abspath(__file__)))
    outs = []
    for hs in rng.sample(range(1, 10000), ctx.n(2, 6)):
        env = dict(os.environ, PYTHONHASHSEED=str(hs))
        r = subprocess.run([sys.executable, "-B", "-c", _PROBE, here, arg], env=env, capture_output=True,
                           text=True, timeout=300, check=False)
        if r.returncode != 0:
            raise MachineryFault("hash-order probe failed: " + r.stderr[-800:])
        d = json.loads(r.stdout.strip().splitlines()[-1])
        if "impl_error" in d:
            ctx.violation(f"oracle: StateTomography(...).process() on exact outcome frequencies raised {d['impl_error']} "
                          f"(fresh interpreter, PYTHONHASHSEED={hs})",
                          {"stream": "probe", "hashseed": hs, "prog": prog}, sig={"kind": "probe-raises"})
            return
        order = d["order"]
        rho = np.array([[complex(*z) for z in row] for row in d["rho"]])
        outs.append((hs, order, rho))
        ctx.count("hash-order-probe")
    orders = {tuple(o) for _, o, _ in outs}
    ctx.extra["hash_orders_seen"] = [list(o) for o in sorted(orders, key=str)][:4]
    for hs, order, rho in outs:
        if None in order or sorted(order) != sorted(tm.all_settings(n)):
            ctx.violation("oracle: requested circuits do not cover every setting exactly once",
                          {"stream": "probe", "hashseed": hs, "prog": prog, "order": order},
                          sig={"kind": "probe-circuits"})
            return
        b = ctx.model.call({"op": "tomo", "kind": "born", "n": n, "order": order, "prog": prog})
        if "error" in b or not np.all(np.abs(rho - tm.q2mat(b["rho"])) <= TOL):
            ctx.violation(f"oracle: with PYTHONHASHSEED={hs} (callback order {order}) rho is not the prepared state",
                          {"stream": "probe", "hashseed": hs, "prog": prog, "order": order},
                          sig={"kind": "probe-rho"})
            return
    ctx.case("hash-probe", len(orders) > 1, sample=None)


# --------------------------------------------------------------------------- driver of the check


def shrink_state(ctx: Ctx, case: dict) -> dict:
    def still(sub):
        c = dict(case, prog=sub)
        try:
            return bool(run_state(ctx, c))
        except MachineryFault:
            return False

    prog = ddmin(case["prog"], still) if len(case["prog"]) > 1 else case["prog"]
    small = dict(case, prog=prog)
    if any(case["in_bits"]) and still(prog) and run_state(ctx, dict(small, in_bits=[0] * case["n"])):
        small["in_bits"] = [0] * case["n"]
    return small


def report(ctx: Ctx, case: dict, probs: list[str]) -> None:
    # a problem must reproduce on identical input in this process (the property is deterministic)
    again = run_case(ctx, case)
    if not again:
        ctx.count("transient_problem_not_reproduced")
        ctx.notes.append(f"transient, not reproduced on identical input: {probs[0][:120]}")
        return
    probs = again
    ctx.count("cases_with_problems")
    small = case
    if case["stream"] == "state":
        small = shrink_state(ctx, case)
        probs = run_state(ctx, small) or probs
    elif case["stream"] == "hist" and len(ctx.violations) < ctx.max_reports:  # (later ones are only counted)
        lead = ([p for p in probs if p.startswith("oracle")] or probs)[0].split(":")[1].strip()[:25]
        small = shrink_hist(ctx, case, lead)
        probs = run_hist(ctx, small) or probs
    elif case["stream"] == "fid" and len(ctx.violations) < ctx.max_reports:
        small = shrink_fid(ctx, case)
        probs = run_fid(ctx, small) or probs
    oracle = [p for p in probs if p.startswith("oracle")]
    if oracle:
        ctx.violation(oracle[0], {"case": small, "problems": probs},
                      sig={"kind": oracle[0].split(":")[1].strip()[:50], "stream": case["stream"]})
    else:
        ctx.disagreement(probs[0], {"case": small, "problems": probs})


def run(ctx: Ctx) -> None:
    ctx.rule = ("state stream: base circuits on 2n visible modes, n=1..3 (qubit-level programs of named gates, exact "
                "single-qubit unitaries, post-selected/heralded CZ and CNOT in both orientations, swaps; or wild "
                "mode-level circuits), noiseless callback; non-trivial = prepared state has >= 2 non-zero amplitudes "
                "(superposition) ; distinct = distinct (n, program, input). hist stream: long-lived StateTomography "
                "objects, process() -> mutate base circuit / Parameter / experiment / experiment_args -> process() "
                "again, every call checked as in the state stream and against a fresh object; every matrix / fidelity "
                "handed out and every client container handed in (result dictionaries, experiment_args list, reference "
                "matrix) is kept on a ledger (very object + copy) and re-checked after every later step, incl. the work "
                "of other StateTomography objects (same / other size), client writes into returned matrices and the "
                "client clearing / refilling its own containers; non-trivial = the "
                "prepared state changed between two calls on one object. fid / fidmix / fidp streams: state_fidelity "
                "and fidelity() on pure-state matrices with rounding residue (0, 1e-40..1e-17), on mixed states "
                "against the closed formula, and on matrices process() computed; non-trivial = residue present / "
                "not a self comparison / superposition. data stream: synthetic result "
                "dictionaries, ~50% malformed; init stream: constructor validation")
    rng = ctx.rng
    n_state = ctx.n(70, 1500)
    n_data = ctx.n(60, 1500)
    n_init = ctx.n(40, 400)
    n_hist = ctx.n(40, 500)
    n_fid, fid_trials = ctx.n(300, 3000), 30
    n_fidmix = ctx.n(200, 3000)
    n_fidp = ctx.n(100, 1500)
    hash_order_probe(ctx, rng)

    def one_hist(case, directed):
        probs, info = run_hist(ctx, case, want_info=True)
        ctx.count("hist:directed" if directed else f"hist:n={case['n']}")
        ctx.count("hist:objects=" + str(sum(1 for st in case["steps"] if st["op"] == "new")))
        for op in sorted(info["ops"]):
            ctx.count("hist:has-" + op)
        ctx.count("hist:process-calls", info["processes"])
        if info["state_changed_between_calls"]:
            ctx.count("hist:state-changed-between-calls")
        if info["modes_changed_between_calls"]:
            ctx.count("hist:modes-added-between-calls")
        if any(st["op"] == "extend" and any(g[0] in ("MODEU", "PRIM", "PBS", "HERU") for g in st["gates"])
               for st in case["steps"]):
            ctx.count("hist:oracle-only")
        ctx.count("hist:retained-results-rechecked:oracle-only", info["ledger"].rechecks)
        ctx.count("hist:results-on-the-books-while-another-object-works", info["retained_while_another_object_works"])
        ctx.case(case_key(case), info["state_changed_between_calls"] > 0)
        if probs:
            report(ctx, case, probs)
        recheck_global(ctx, "after a history")

    def one_simple(case, fn, nontrivial):
        probs = fn(ctx, case)
        ctx.case(case_key(case), nontrivial)
        if probs:
            report(ctx, case, probs)

    # ---- directed corpus: always first
    for case in HIST_CORPUS:
        one_hist(case, True)
    one_simple(_f28_case(), run_fid, True)
    ctx.count("fid:directed")
    for case in state_corpus():
        ctx.count("state:directed")
        one_simple(case, run_state, True)
    for i in range(n_state):
        if ctx.out_of_time():
            break
        case = gen_state_case(ctx, rng)
        probs, detail = run_state(ctx, case, want_detail=True)
        n = case["n"]
        ctx.count(f"state:n={n}")
        ctx.count("state:source=" + case["source"])
        ctx.count("state:wild" if not tm.is_modelable(case["prog"]) else "state:qubit-level")
        for g in case["prog"]:
            if g[0] in ("CZ", "CNOT"):
                ctx.count(f"state:{g[0]}-{g[3]['impl']}" + ("-reversed" if g[0] == "CNOT" and g[2] < g[1] else ""))
            elif g[0] in ("U", "SWAP", "MODEU", "PRIM"):
                ctx.count("state:" + g[0])
            elif g[0] == "HERU":
                ctx.count("state:user-made-heralded-sub-circuit:oracle-only")
                if any(0 < mi < len(g[1]) - 1 for _ph, mi, _mo in g[2]):
                    ctx.count("state:herald-inside-the-mode-range-of-a-user-made-sub-circuit")
        if any(case["in_bits"]):
            ctx.count("state:input-not-all-zero")
        for k, v in (case.get("settings") or {}).items():
            ctx.count(f"state:settings.{k}={v:g}")
        nontriv = False
        if detail is not None:
            base = tm.build_base(n, case["prog"])
            psi = tm.reference_state(base, tm.input_state(case["in_bits"]), n)
            nz = int(np.sum(np.abs(psi) ** 2 > 1e-9 * detail["norm"]))
            nontriv = nz >= 2
            if n >= 2 and nz >= 2:
                # entangled? (rank of the reshaped amplitude matrix for the first qubit cut)
                sv = np.linalg.svd(psi.reshape(2, -1), compute_uv=False)
                if sv[1] > 1e-6 * sv[0]:
                    ctx.count("state:entangled")
            if np.max(np.abs(psi.imag)) > 1e-9 * np.sqrt(detail["norm"]):
                ctx.count("state:complex-amplitudes")
        ctx.case(json.dumps([n, case["prog"], case["in_bits"]]), nontriv,
                 sample={"n": n, "prog": case["prog"], "order": detail and detail["order"]} if i < 2 else None)
        if probs:
            report(ctx, case, probs)
        if i % 25 == 24:
            recheck_global(ctx, "during the state stream")
    recheck_global(ctx, "after the state stream")
    hrng = random.Random(f"C15-hist-{ctx.seed}")  # own streams: the older streams keep their cases per seed
    for _ in range(n_hist):
        if ctx.out_of_time():
            break
        one_hist(gen_hist_case(ctx, hrng), False)
    frng = random.Random(f"C15-fid-{ctx.seed}")
    for _ in range(n_fid):
        if ctx.out_of_time():
            break
        case = gen_fid_case(ctx, frng, fid_trials)
        ctx.count(f"fid:n={case['n']}")
        ctx.count("fid:state=" + case["kind"])
        ctx.count("fid:trials", len(case["trials"]))
        one_simple(case, run_fid, True)
    for _ in range(n_fidmix):
        if ctx.out_of_time():
            break
        case = gen_fidmix_case(ctx, frng)
        one_simple(case, run_fidmix, case["what"] != "self")
    for _ in range(n_fidp):
        if ctx.out_of_time():
            break
        case = gen_fidp_case(ctx, frng)
        one_simple(case, run_fidp, sum(1 for z in case["psi"] if abs(complex(*z)) > 1e-9) >= 2)
    for _ in range(n_data):
        if ctx.out_of_time():
            break
        case = gen_data_case(ctx, rng)
        probs = run_data(ctx, case)
        ctx.case(json.dumps(case, default=str), case["fault"] == "none")
        if probs:
            report(ctx, case, probs)
    for _ in range(n_init):
        if ctx.out_of_time():
            break
        case = gen_init_case(ctx, rng)
        probs = run_init(ctx, case)
        ctx.case(json.dumps(case), False)
        if probs:
            report(ctx, case, probs)
    recheck_global(ctx, "at the end of the run")
    for n in (1, 2, 3):
        if ("order", n) in _META:
            ctx.extra.setdefault("callback_order_this_process", {})[str(n)] = _META[("order", n)]


def replay(ctx: Ctx, path: str) -> None:
    data = json.load(open(path))
    case = data["replay"]["case"]
    if "stream" not in case and "case" in case:  # replay of an unresolved correspondence disagreement
        case = case["case"]
    probs = run_case(ctx, case)
    ctx.case("replay", True, sample=case)
    for p in probs:
        print("replay:", p)
        if p.startswith("oracle"):
            ctx.violation(p, data["replay"], sig={"kind": "replay"})
        else:
            ctx.disagreement(p, data["replay"])
