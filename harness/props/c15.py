"""
C15 — state tomography reconstructs the prepared state.

Model: LW.Model.Tomo (measurement enumeration, I->Z reuse, expectation values from dual-rail
outcomes, Pauli expansion, `process` as a function of the order in which the callback saw the
settings; Born-rule outcome tables of a qubit-level state preparation as the specification).
Theorems: LW/Properties/C15.lean.

Streams (all from ctx.rng):
  * "state"   a base circuit on 2n visible modes (qubit-level gate program the model can follow,
              incl. post-selected / heralded CZ, CNOT, arbitrary exact single-qubit unitaries; or a
              "wild" circuit: arbitrary unitary on all modes + beam splitters / phases / swaps) is
              handed to the real StateTomography with a noiseless experiment callback (exact outcome
              frequencies from the implementation's Simulator amplitudes or Sampler distribution);
  * "data"    a stub callback returns synthetic result dictionaries (valid rational counts,
              invalid dual-rail states, missing / surplus results, empty results, zero counts);
  * "init"    constructor argument validation.
Observables only: the circuits the callback receives (n_modes, input_modes, heralds, U_full),
process() / .rho, .fidelity(), exception classes.
"""

from __future__ import annotations

import json
import os
import subprocess
import sys
from fractions import Fraction

import numpy as np

import circgen as cg
import lightworks as lw
import tomo as tm
from core import Ctx, MachineryFault, ddmin, exc_class, frac_str
from lightworks.tomography import StateTomography, density_from_state

TRUSTED = [
    "Lean 4.33 kernel; Mathlib v4.33 as compiled on this image",
    "axioms: subset of {propext, Classical.choice, Quot.sound} (audited per theorem on every run)",
    "hand-written model LW.Model.Tomo tied to the code by this correspondence check",
    "numpy.linalg.eigh inside state_fidelity (contract: eigendecomposition of a Hermitian matrix; "
    "fidelity is compared with tolerance 1e-6)",
    "float evaluation of 1/2**0.5, complex arithmetic, np.kron (1e-9 tolerance)",
    "the implementation's Simulator / Sampler as the source of noiseless outcome frequencies "
    "(amplitude semantics are the subject of C03/C04)",
    "driver JSON parser and harness comparison code",
]
ASSUMPTIONS = [
    "model scalars are exact elements of Q(i, sqrt2); the code sees the corresponding floats",
    "the order of list(set(...)) inside _get_required_tomo_measurements depends on Python's per-process "
    "string hash seed; the order actually seen by the callback is recorded and fed to the model; "
    "additional orders are exercised in sub-processes with fixed PYTHONHASHSEED values",
    "base circuits: heralds only through added sub-circuits (the library's gates); a herald declared "
    "directly on the base circuit does not renumber the modes addressed by Circuit.add and is outside "
    "the quantifier (2n visible modes addressed as 0..2n-1)",
    "n = 1..3 qubits in the correspondence check (theorems are for every n)",
]

import warnings

warnings.filterwarnings("ignore", message="Matrix is")  # scipy sqrtm on singular (pure-state) matrices

FID_TOL = 1e-6
TOL = 1e-9
TOP_HERALDS = os.environ.get("C15_TOP_HERALDS", "1") == "1"
_META: dict = {}


def meta(ctx: Ctx, n: int) -> dict:
    if n not in _META:
        m = ctx.model.call({"op": "tomo", "kind": "meta", "n": n})
        m["meas_u_np"] = {k: tm.q2mat(v) for k, v in m["meas_u"].items()}
        _META[n] = m
    return _META[n]


# --------------------------------------------------------------------------- case generation


def gen_wild(rng, n: int) -> list:
    prog: list = []
    if rng.random() < 0.8:
        prog.append(["MODEU", cg.mat_json(cg.exact_unitary(rng, 2 * n))])
    for _ in range(rng.randint(0, 5)):
        r = rng.random()
        if r < 0.6:
            prog.append(["PRIM", cg.rand_prim_op(rng, "c", 2 * n, p_invalid=0.0, allow_loss=False)])
        elif r < 0.8 and n >= 2:
            q = rng.randrange(n - 1)
            prog.append(["CNOT", q, q + 1, {"impl": rng.choice(["ps", "her"])}])
        else:
            prog.append([rng.choice(list(tm.NAMED)), rng.randrange(n)])
    # keep the cost bounded: at most one heralded gate in a wild circuit
    seen = 0
    out = []
    for g in prog:
        if g[0] == "CNOT" and g[3]["impl"] == "her":
            seen += 1
            if seen > 1:
                continue
        out.append(g)
    return out


def gen_state_case(ctx: Ctx, rng) -> dict:
    n = rng.choices([1, 2, 3], weights=[30, 45, 25] if not ctx.thorough else [25, 40, 35])[0]
    wild = rng.random() < 0.3
    if wild:
        prog = gen_wild(rng, n)
    else:
        prog = tm.rand_gate_program(rng, n, max_len=2 + 3 * n, max_her=2 if n < 3 else 1)
    in_bits = [0] * n if rng.random() < 0.75 else [rng.randint(0, 1) for _ in range(n)]
    n_modes_est = 2 * n + sum(2 if g[0] in ("CZ", "CNOT") and g[3]["impl"] == "ps" else 4
                              for g in prog if g[0] in ("CZ", "CNOT"))
    source = "sim"
    if n_modes_est <= 8 and rng.random() < 0.35:
        source = rng.choice(["permanent", "slos"])
    case = {"stream": "state", "n": n, "prog": prog, "in_bits": in_bits, "source": source,
            "shuffle": rng.randrange(1 << 30), "drop_zero": rng.random() < 0.3}
    if TOP_HERALDS and rng.random() < 0.2:
        # opt-in (C15_TOP_HERALDS=1): an idle vacuum mode heralded DIRECTLY on the base circuit
        case["top_herald"] = rng.choice(["first", "last"])
        case["source"] = "sim"
    return case


def rand_count(rng):
    r = rng.random()
    if r < 0.5:
        return rng.randint(0, 50)
    if r < 0.8:
        return Fraction(rng.randint(0, 40), rng.choice([1, 2, 4, 8, 16]))
    return Fraction(rng.randint(1, 10**6), 2**20)


def gen_data_case(ctx: Ctx, rng) -> dict:
    n = rng.choices([1, 2, 3], weights=[35, 45, 20])[0]
    fault = rng.choice(["none", "none", "none", "bad_pair", "short", "long", "missing", "surplus", "empty",
                        "zero"])
    results = []
    for _ in range(3**n):
        states = [b for b in range(2**n) if rng.random() < 0.8] or [rng.randrange(2**n)]
        rng.shuffle(states)
        res = [[tm.dual_rail(n, b), frac_str(Fraction(rand_count(rng)))] for b in states]
        if all(Fraction(c) == 0 for _, c in res):
            res[0][1] = "3"
        results.append(res)
    k = rng.randrange(3**n)
    if fault == "bad_pair":
        st = list(results[k][0][0])
        q = rng.randrange(n)
        st[2 * q: 2 * q + 2] = rng.choice([[1, 1], [0, 0], [2, 0], [0, 2]])
        results[k][rng.randrange(len(results[k]))][0] = st
    elif fault == "short":
        e = rng.randrange(len(results[k]))
        results[k][e][0] = results[k][e][0][: 2 * n - rng.choice([1, 2])]
    elif fault == "long":
        e = rng.randrange(len(results[k]))
        results[k][e][0] = results[k][e][0] + [rng.randint(0, 2)]
    elif fault == "missing":
        results = results[:-1]
    elif fault == "surplus":
        results = [*results, results[0]]
    elif fault == "empty":
        results[k] = []
    elif fault == "zero":
        results[k] = [[st, "0"] for st, _ in results[k]]
    return {"stream": "data", "n": n, "results": results, "fault": fault}


def gen_init_case(ctx: Ctx, rng) -> dict:
    n = rng.randint(1, 3)
    return {"stream": "init", "n": n,
            "n_kind": rng.choice(["int", "int", "int", "bool", "float", "str"]),
            "base_kind": rng.choice(["circuit", "circuit", "circuit", "unitary_obj", "none", "ndarray"]),
            "modes": rng.choice([2 * n, 2 * n, 2 * n, 2 * n + 1, max(1, 2 * n - 1), 2 * n + 2]),
            "exp_kind": rng.choice(["function", "function", "lambda", "method", "callable_obj", "none"]),
            "herald_sub": rng.random() < 0.3}


# --------------------------------------------------------------------------- execution


class _Holder:
    def method(self, circuits):  # a bound method is an accepted experiment
        return [{lw.State([1, 0]): 1} for _ in circuits]

    def __call__(self, circuits):
        return self.method(circuits)


def run_init(ctx: Ctx, case: dict) -> list[str]:
    n = case["n"]
    nv = {"int": n, "bool": True, "float": float(n), "str": str(n)}[case["n_kind"]]
    base = lw.Circuit(case["modes"])
    if case["herald_sub"] and case["modes"] >= 2:
        sub = lw.Circuit(3)
        sub.bs(0, 1)
        sub.herald(0, 2, 2)
        base.add(sub, 0)  # adds a private ancilla: input_modes stays `modes`
    bv = {"circuit": base, "unitary_obj": lw.Unitary(np.eye(case["modes"])), "none": None,
          "ndarray": np.eye(case["modes"])}[case["base_kind"]]
    h = _Holder()

    def fn(circuits):
        return h.method(circuits)

    ev = {"function": fn, "lambda": (lambda c: h.method(c)), "method": h.method, "callable_obj": h,
          "none": None}[case["exp_kind"]]
    try:
        StateTomography(nv, bv, ev)
        impl = "ok"
    except Exception as e:  # noqa: BLE001
        impl = exc_class(e)
    m = ctx.model.call({"op": "tomo", "kind": "init", "n": n,
                        "n_is_int": case["n_kind"] == "int",
                        "base_is_circuit": case["base_kind"] in ("circuit", "unitary_obj"),
                        "exp_is_function": case["exp_kind"] in ("function", "lambda", "method"),
                        "input_modes": case["modes"]})
    mm = m if isinstance(m, str) else m["error"]
    ctx.count("init:" + mm)
    return [] if impl == mm else [f"corr: constructor outcome impl={impl} model={mm} ({case})"]


def norm_exc(name: str) -> str:
    return "Exception" if name == "ZeroDivisionError" else name


def observe_order(ctx: Ctx, n: int):
    """the order in which this process enumerates the required settings: observed through a
    throw-away StateTomography on the empty circuit (settings identified from the circuits);
    None entries when a circuit cannot be identified"""
    key = ("order", n)
    if key in _META:
        return _META[key]
    base = lw.Circuit(2 * n)
    got: list = []

    def exp(circuits):
        got.extend(circuits)
        return [{lw.State(tm.dual_rail(n, 0)): 1} for _ in circuits]

    StateTomography(n, base, exp).process()
    uf = np.array(base.U_full)
    order = [tm.identify_setting(c, uf, list(range(2 * n)), n)[0] for c in got]
    _META[key] = order
    return order


def run_data(ctx: Ctx, case: dict) -> list[str]:
    n = case["n"]
    order = observe_order(ctx, n)
    if None in order or sorted(order) != sorted(tm.all_settings(n)):
        return ["oracle: on the empty base circuit the requested circuits are not one per measurement setting "
                f"(identified: {order})"]
    results = case["results"]

    def exp(circuits):  # noqa: ARG001
        # counts: Python ints, or floats that are exactly the dyadic rational given to the model
        return [{lw.State(st): (float(Fraction(c)) if "/" in c else int(c)) for st, c in res} for res in results]

    tomo = StateTomography(n, lw.Circuit(2 * n), exp)
    try:
        rho = np.array(tomo.process())
        impl = "ok"
    except Exception as e:  # noqa: BLE001
        impl = norm_exc(exc_class(e))
    # the model gets the results keyed by the order this process uses; duplicate states inside one
    # result (possible after the "short"/"long" edits) collapse in the Python dict: mirror that
    mres = []
    for res in results:
        d: dict = {}
        for st, c in res:
            d[tuple(st)] = c
        mres.append([[list(k), v] for k, v in d.items()])
    m = ctx.model.call({"op": "tomo", "kind": "process", "n": n, "order": order, "results": mres})
    probs = []
    ctx.count("data:" + case["fault"])
    if "error" in m:
        ctx.count("data-rejected:" + m["error"])
        if impl != m["error"]:
            probs.append(f"corr: process() on synthetic data impl={impl} model={m['error']}")
        return probs
    if impl != "ok":
        return [f"corr: process() on synthetic data impl={impl} model=ok"]
    mr = tm.q2mat(m["rho"])
    if rho.shape != mr.shape or not np.all(np.abs(rho - mr) <= TOL):
        probs.append(f"corr: rho on synthetic data differs from the model (max {np.abs(rho - mr).max():.2e})")
    if not np.all(np.abs(rho - rho.conj().T) <= TOL) or abs(np.trace(rho) - 1) > TOL:
        probs.append("oracle: rho computed from valid outcome counts is not Hermitian with unit trace")
    return probs


def run_state(ctx: Ctx, case: dict, want_detail: bool = False):
    n, prog = case["n"], case["prog"]
    mt = meta(ctx, n)
    mu = mt["meas_u_np"]
    probs: list[str] = []
    base = tm.build_base(n, prog)
    if case.get("top_herald"):
        outer = lw.Circuit(2 * n + 1)
        outer.add(base, 1 if case["top_herald"] == "first" else 0)
        pos = 0 if case["top_herald"] == "first" else 2 * n
        outer.herald(0, pos, pos)
        base = outer
        ctx.count("state:herald-declared-on-base")
    in_state = tm.input_state(case["in_bits"])
    before = cg.observe(base)
    vis = tm.visible_modes(base)
    if base.input_modes != 2 * n or len(vis) != 2 * n:
        raise MachineryFault(f"generated base circuit has {base.input_modes} input modes, wanted {2 * n}")
    import random

    srng = random.Random(case["shuffle"])
    seen: list = []
    returned: list = []

    def experiment(circuits):
        seen.extend(circuits)
        out = []
        for c in circuits:
            src = case["source"]
            fr = tm.exact_frequencies(c, in_state, n, "sim" if src == "sim" else "sampler",
                                      backend=src if src != "sim" else "permanent")
            items = list(fr.items())
            if case["drop_zero"]:
                kept = [(k, v) for k, v in items if v > 0]
                items = kept or items
            srng.shuffle(items)
            returned.append(items)
            out.append({lw.State(list(k)): v for k, v in items})
        return out

    psi = tm.reference_state(base, in_state, n)
    norm = float(np.vdot(psi, psi).real)
    if norm < 1e-7:
        ctx.count("state:never-succeeds (skipped)")
        return (probs, None) if want_detail else probs
    tomo = StateTomography(n, base, experiment)
    try:
        rho = np.array(tomo.process())
    except Exception as e:  # noqa: BLE001
        probs.append(f"oracle: process() raised {exc_class(e)} on noiseless data: {e}")
        return (probs, None) if want_detail else probs
    # ---- clause: the circuits the callback receives
    after = cg.observe(base)
    if (before["n"], before["in_heralds"], before["out_heralds"]) != (after["n"], after["in_heralds"], after["out_heralds"]) \
            or not np.array_equal(before["U_full"], after["U_full"]):
        probs.append("oracle: the base circuit was modified by process()")
    if any(c is base for c in seen):
        probs.append("oracle: the callback received the base circuit object itself")
    if len(seen) != 3**n:
        probs.append(f"oracle: callback received {len(seen)} circuits, expected 3^n = {3**n}")
    order = []
    for k, c in enumerate(seen):
        o = cg.observe(c)
        if (o["n"], o["input_modes"], o["in_heralds"], o["out_heralds"]) != \
                (before["n"], before["input_modes"], before["in_heralds"], before["out_heralds"]):
            probs.append(f"oracle: requested circuit #{k} differs from the base in modes / heralds")
        lab, blocks = tm.identify_setting(c, before["U_full"], vis, n)
        if lab is None:
            probs.append(f"oracle: requested circuit #{k} is not the base circuit followed by single-qubit basis "
                         f"changes B with B^dagger Z B in {{X, Y, Z}}")
            order.append(None)
        else:
            order.append(lab)
            if not all(np.all(np.abs(b - mu[g]) <= TOL) for b, g in zip(blocks, lab.split(","))):
                probs.append(f"corr: basis-change unitaries of requested circuit #{k} ({lab}) differ from the "
                             f"model's MEASUREMENT_MAPPING matrices")
    if None not in order and sorted(order) != sorted(tm.all_settings(n)):
        probs.append("oracle: the requested circuits do not cover every measurement setting exactly once")
    # ---- clause: rho is the density matrix of the prepared state
    ref = np.outer(psi, psi.conj()) / norm
    if rho.shape != ref.shape:
        probs.append(f"oracle: rho has shape {rho.shape}")
        return (probs, None) if want_detail else probs
    if not np.all(np.abs(rho - rho.conj().T) <= TOL):
        probs.append("oracle: rho is not Hermitian")
    if abs(np.trace(rho) - 1) > TOL:
        probs.append(f"oracle: trace(rho) = {np.trace(rho)}")
    if not np.all(np.abs(rho - ref) <= TOL):
        probs.append(f"oracle: rho differs from |psi><psi| of the state the base circuit prepares "
                     f"(max {np.abs(rho - ref).max():.2e})")
    if not np.array_equal(np.array(tomo.rho), rho):
        probs.append("oracle: .rho differs from the matrix process() returned")
    # fidelity() of the (rank one, hence singular) reconstructed matrix.  Until the repair F28 the code
    # took scipy.linalg.sqrtm of it, which returns nan when rounding leaves entries of order 1e-35 in
    # the zero block (which entries appear depends on summation order, i.e. on the per-process
    # string hash seed: the failure was reproducible per process, not per run).
    try:
        fid = tomo.fidelity(density_from_state(psi / np.sqrt(norm)))
        if abs(fid - 1) > FID_TOL:
            probs.append(f"oracle: fidelity against the prepared state is {fid}")
    except Exception as e:  # noqa: BLE001
        probs.append(f"oracle: fidelity() raised {exc_class(e)}")
    detail = {"order": order, "norm": norm}
    if None in order or len(order) != 3**n or sorted(order) != sorted(tm.all_settings(n)):
        return (probs, detail) if want_detail else probs
    # ---- correspondence 1: the post-processing on exactly the numbers the callback returned
    mres = [[[list(k), tm.float_exact(v)] for k, v in items] for items in returned]
    m = ctx.model.call({"op": "tomo", "kind": "process", "n": n, "order": order, "results": mres})
    if "error" in m:
        probs.append(f"corr: model process() rejects the callback's data: {m['error']}")
    else:
        mr = tm.q2mat(m["rho"])
        if not np.all(np.abs(rho - mr) <= TOL):
            probs.append(f"corr: rho differs from the model's process() on the same data (max {np.abs(rho - mr).max():.2e})")
    # ---- correspondence 2: the qubit-level specification (Born tables, exact rho)
    if tm.is_modelable(prog):
        b = ctx.model.call({"op": "tomo", "kind": "born", "n": n, "order": order,
                            "prog": tm.model_prog(prog, case["in_bits"])})
        if "error" in b:
            probs.append(f"corr: model process() on its own Born tables fails: {b['error']}")
        else:
            if not b["rho_is_state"]:
                probs.append("corr: model rho on exact Born tables is not |psi><psi| (theorem contradicted?)")
            br = tm.q2mat(b["rho"])
            if not np.all(np.abs(rho - br) <= TOL):
                probs.append(f"corr: rho differs from the exact density matrix of the qubit-level model state "
                             f"(max {np.abs(rho - br).max():.2e})")
            for k, (items, tab) in enumerate(zip(returned, b["tables"])):
                tot_i = sum(v for _, v in items)
                mt_ = {tuple(st): tm.q2c(v).real for st, v in tab}
                tot_m = sum(mt_.values())
                d = dict(items)
                for st, v in mt_.items():
                    if abs(d.get(st, 0.0) / tot_i - v / tot_m) > TOL:
                        probs.append(f"corr: outcome frequencies of setting {order[k]} differ from the Born table "
                                     f"of the qubit-level model")
                        break
                else:
                    continue
                break
    return (probs, detail) if want_detail else probs


def run_case(ctx: Ctx, case: dict) -> list[str]:
    if case["stream"] == "state":
        return run_state(ctx, case)
    if case["stream"] == "data":
        return run_data(ctx, case)
    return run_init(ctx, case)


# --------------------------------------------------------------------------- hash-order probe

_PROBE = r"""
import json, sys, numpy as np
sys.path.insert(0, sys.argv[1])
import lightworks as lw, tomo as tm
from lightworks.tomography import StateTomography
case = json.loads(sys.argv[2]); n = case["n"]
base = tm.build_base(n, case["prog"]); ins = tm.input_state([0] * n)
uf = np.array(base.U_full); vis = tm.visible_modes(base); seen = []
def exp(cs):
    seen.extend(cs)
    return [{lw.State(list(k)): v for k, v in tm.exact_frequencies(c, ins, n).items()} for c in cs]
rho = np.array(StateTomography(n, base, exp).process())
order = [tm.identify_setting(c, uf, vis, n)[0] for c in seen]
print(json.dumps({"order": order, "rho": [[[z.real, z.imag] for z in r] for r in rho]}))
"""


def hash_order_probe(ctx: Ctx, rng) -> None:
    """the same tomography in fresh interpreters with different string-hash seeds: the callback sees
    the settings in different orders, rho must not change"""
    n = 2
    prog = [["H", 0], ["CNOT", 0, 1, {"impl": "ps"}], ["T", 1], ["SX", 0]]
    arg = json.dumps({"n": n, "prog": prog})
    here = os.path.dirname(os.path.dirname(os.path.abspath(__file__)))
    outs = []
    for hs in rng.sample(range(1, 10000), ctx.n(2, 6)):
        env = dict(os.environ, PYTHONHASHSEED=str(hs))
        r = subprocess.run([sys.executable, "-B", "-c", _PROBE, here, arg], env=env, capture_output=True,
                           text=True, timeout=300, check=False)
        if r.returncode != 0:
            raise MachineryFault("hash-order probe failed: " + r.stderr[-800:])
        d = json.loads(r.stdout.strip().splitlines()[-1])
        order = d["order"]
        rho = np.array([[complex(*z) for z in row] for row in d["rho"]])
        outs.append((hs, order, rho))
        ctx.count("hash-order-probe")
    orders = {tuple(o) for _, o, _ in outs}
    ctx.extra["hash_orders_seen"] = [list(o) for o in sorted(orders, key=str)][:4]
    for hs, order, rho in outs:
        if None in order or sorted(order) != sorted(tm.all_settings(n)):
            ctx.violation("oracle: requested circuits do not cover every setting exactly once",
                          {"stream": "probe", "hashseed": hs, "prog": prog, "order": order},
                          sig={"kind": "probe-circuits"})
            return
        b = ctx.model.call({"op": "tomo", "kind": "born", "n": n, "order": order, "prog": prog})
        if "error" in b or not np.all(np.abs(rho - tm.q2mat(b["rho"])) <= TOL):
            ctx.violation(f"oracle: with PYTHONHASHSEED={hs} (callback order {order}) rho is not the prepared state",
                          {"stream": "probe", "hashseed": hs, "prog": prog, "order": order},
                          sig={"kind": "probe-rho"})
            return
    ctx.case("hash-probe", len(orders) > 1, sample=None)


# --------------------------------------------------------------------------- driver of the check


def shrink_state(ctx: Ctx, case: dict) -> dict:
    def still(sub):
        c = dict(case, prog=sub)
        try:
            return bool(run_state(ctx, c))
        except MachineryFault:
            return False

    prog = ddmin(case["prog"], still) if len(case["prog"]) > 1 else case["prog"]
    small = dict(case, prog=prog)
    if any(case["in_bits"]) and still(prog) and run_state(ctx, dict(small, in_bits=[0] * case["n"])):
        small["in_bits"] = [0] * case["n"]
    return small


def report(ctx: Ctx, case: dict, probs: list[str]) -> None:
    # a problem must reproduce on identical input in this process (the property is deterministic)
    again = run_case(ctx, case)
    if not again:
        ctx.count("transient_problem_not_reproduced")
        ctx.notes.append(f"transient, not reproduced on identical input: {probs[0][:120]}")
        return
    probs = again
    ctx.count("cases_with_problems")
    small = case
    if case["stream"] == "state":
        small = shrink_state(ctx, case)
        probs = run_state(ctx, small) or probs
    oracle = [p for p in probs if p.startswith("oracle")]
    if oracle:
        ctx.violation(oracle[0], {"case": small, "problems": probs},
                      sig={"kind": oracle[0].split(":")[1].strip()[:50], "stream": case["stream"]})
    else:
        ctx.disagreement(probs[0], {"case": small, "problems": probs})


def run(ctx: Ctx) -> None:
    ctx.rule = ("state stream: base circuits on 2n visible modes, n=1..3 (qubit-level programs of named gates, exact "
                "single-qubit unitaries, post-selected/heralded CZ and CNOT in both orientations, swaps; or wild "
                "mode-level circuits), noiseless callback; non-trivial = prepared state has >= 2 non-zero amplitudes "
                "(superposition) ; distinct = distinct (n, program, input). data stream: synthetic result "
                "dictionaries, ~50% malformed; init stream: constructor validation")
    rng = ctx.rng
    n_state = ctx.n(70, 1500)
    n_data = ctx.n(60, 1500)
    n_init = ctx.n(40, 400)
    hash_order_probe(ctx, rng)
    for i in range(n_state):
        if ctx.out_of_time():
            break
        case = gen_state_case(ctx, rng)
        probs, detail = run_state(ctx, case, want_detail=True)
        n = case["n"]
        ctx.count(f"state:n={n}")
        ctx.count("state:source=" + case["source"])
        ctx.count("state:wild" if not tm.is_modelable(case["prog"]) else "state:qubit-level")
        for g in case["prog"]:
            if g[0] in ("CZ", "CNOT"):
                ctx.count(f"state:{g[0]}-{g[3]['impl']}" + ("-reversed" if g[0] == "CNOT" and g[2] < g[1] else ""))
            elif g[0] in ("U", "SWAP", "MODEU", "PRIM"):
                ctx.count("state:" + g[0])
        if any(case["in_bits"]):
            ctx.count("state:input-not-all-zero")
        nontriv = False
        if detail is not None:
            base = tm.build_base(n, case["prog"])
            psi = tm.reference_state(base, tm.input_state(case["in_bits"]), n)
            nz = int(np.sum(np.abs(psi) ** 2 > 1e-9 * detail["norm"]))
            nontriv = nz >= 2
            if n >= 2 and nz >= 2:
                # entangled? (rank of the reshaped amplitude matrix for the first qubit cut)
                sv = np.linalg.svd(psi.reshape(2, -1), compute_uv=False)
                if sv[1] > 1e-6 * sv[0]:
                    ctx.count("state:entangled")
            if np.max(np.abs(psi.imag)) > 1e-9 * np.sqrt(detail["norm"]):
                ctx.count("state:complex-amplitudes")
        ctx.case(json.dumps([n, case["prog"], case["in_bits"]]), nontriv,
                 sample={"n": n, "prog": case["prog"], "order": detail and detail["order"]} if i < 2 else None)
        if probs:
            report(ctx, case, probs)
    for _ in range(n_data):
        if ctx.out_of_time():
            break
        case = gen_data_case(ctx, rng)
        probs = run_data(ctx, case)
        ctx.case(json.dumps(case, default=str), case["fault"] == "none")
        if probs:
            report(ctx, case, probs)
    for _ in range(n_init):
        if ctx.out_of_time():
            break
        case = gen_init_case(ctx, rng)
        probs = run_init(ctx, case)
        ctx.case(json.dumps(case), False)
        if probs:
            report(ctx, case, probs)
    for n in (1, 2, 3):
        if ("order", n) in _META:
            ctx.extra.setdefault("callback_order_this_process", {})[str(n)] = _META[("order", n)]


def replay(ctx: Ctx, path: str) -> None:
    data = json.load(open(path))
    case = data["replay"]["case"]
    probs = run_case(ctx, case)
    ctx.case("replay", True, sample=case)
    for p in probs:
        print("replay:", p)
        if p.startswith("oracle"):
            ctx.violation(p, data["replay"], sig={"kind": "replay"})
        else:
            ctx.disagreement(p, data["replay"])
