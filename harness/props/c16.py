"""
C16 — process tomography and gate fidelity agree with the library's own references.

Model: LW.Model.ProcTomo (input states, experiment bookkeeping, LI transform rows and the closed
form of the linear solve, reference Choi matrix, MLE data pipeline, gate-fidelity sum) on top of
LW.Model.Tomo.  Theorems: LW/Properties/C16.lean.

Streams (all from ctx.rng):
  * "proc"  a circuit implementing an n-qubit unitary V (n = 1, 2; qubit-level program: named gates,
            exact complex non-symmetric single-qubit unitaries, post-selected / heralded CZ and CNOT
            in both orientations, swaps) goes through the real LIProcessTomography, GateFidelity and
            (a fixed share) MLEProcessTomography with a noiseless callback;
  * "data"  synthetic callback data (valid counts / malformed) for LI and GateFidelity;
  * "ref"   choi_from_unitary / process_fidelity on exact unitaries;
  * "init"  constructor validation.
Oracles are evaluated on the implementation alone: the reference is choi_from_unitary(V) with V the
dual-rail transfer matrix of the base circuit obtained from the implementation's Simulator.
"""

from __future__ import annotations

import json
import warnings
from fractions import Fraction

import numpy as np

import circgen as cg
import lightworks as lw
import tomo as tm
from core import Ctx, ddmin, exc_class, frac_str
from lightworks import emulator
from lightworks.tomography import (
    GateFidelity,
    LIProcessTomography,
    MLEProcessTomography,
    choi_from_unitary,
    process_fidelity,
)
from props import c15

warnings.filterwarnings("ignore", message="Matrix is")
warnings.filterwarnings("ignore", message="Max iterations")

TRUSTED = [
    "Lean 4.33 kernel; Mathlib v4.33 as compiled on this image",
    "axioms: subset of {propext, Classical.choice, Quot.sound} (audited per theorem on every run)",
    "hand-written model LW.Model.ProcTomo / Tomo tied to the code by this correspondence check",
    "numpy.linalg.pinv (contract: the unique solution of the invertible linear system), numpy.linalg.solve, "
    "eigh (also inside state_fidelity / process_fidelity since the repair F28; fidelity compared with tolerance 1e-6)",
    "the projected-gradient optimiser of MLE is NOT modelled: its result is checked against the property's "
    "bound (fidelity >= 0.99, positivity, trace preservation) on every generated case",
    "the implementation's Simulator as the source of noiseless outcome frequencies (C03/C04)",
    "driver JSON parser and harness comparison code",
]
ASSUMPTIONS = [
    "model scalars are exact elements of Q(i, sqrt2); the code sees the corresponding floats",
    "n = 1, 2 qubits (the property's quantifier); theorems about LI / gate fidelity are for every n",
    "order of the required settings inside this process observed once (see C15) and fed to the model",
]

TOL = 1e-8
FID_TOL = 1e-6
LI_INPUTS = ["Z+", "Z-", "X+", "Y+"]


# --------------------------------------------------------------------------- helpers


def combos(vals: list[str], n: int) -> list[str]:
    out = list(vals)
    for _ in range(n - 1):
        out = [a + "," + b for a in out for b in vals]
    return out


def transfer_matrix(base, n: int) -> np.ndarray:
    """dual-rail transfer matrix of the base circuit (implementation's Simulator): V[r, c] is the
    amplitude of dual-rail output r for dual-rail input c (heralds applied)"""
    states = tm.dual_rail_states(n)
    res = emulator.Simulator(base).simulate(states, states)
    return np.array(res.array).T.astype(complex)


def normalise_unitary(v: np.ndarray):
    d = v.shape[0]
    s = np.trace(v.conj().T @ v).real / d
    if s < 1e-12:
        return None
    u = v / np.sqrt(s)
    if not np.all(np.abs(u.conj().T @ u - np.eye(d)) <= 1e-9):
        return None
    return u


class Experiment:
    """noiseless callback with a cache (LI and GateFidelity request identical circuits)"""

    def __init__(self, n: int):
        self.n = n
        self.cache: dict = {}
        self.calls: list = []
        self.returned: list = []
        self.n_circuits = 0

    def fn(self):
        def experiment(circuits, inputs):
            out = []
            ret = []
            self.n_circuits += len(circuits)
            for c, s in zip(circuits, inputs):
                key = (tuple(s), np.array(c.U_full).tobytes())
                if key not in self.cache:
                    self.cache[key] = tm.exact_frequencies(c, s, self.n)
                fr = self.cache[key]
                ret.append(list(fr.items()))
                out.append({lw.State(list(k)): v for k, v in fr.items()})
            self.returned = ret
            return out

        return experiment


def rand_target(rng, n: int, v_prog: list):
    """target unitary for gate fidelity: (json matrix of Q2 strings, numpy matrix)"""
    d = 2**n
    u = cg.exact_unitary(rng, d, depth=rng.randint(1, 2 * d))
    return [[x.s() for x in row] for row in u], cg.mat_np(u)


def gen_proc_case(ctx: Ctx, rng, idx: int) -> dict:
    n = rng.choices([1, 2], weights=[70, 30])[0]
    prog = tm.rand_gate_program(rng, n, max_len=2 + 2 * n, max_her=1)
    if n == 1 and not prog:
        prog = [[rng.choice(list(tm.NAMED)), 0]]
    tj, _ = rand_target(rng, n, prog)
    return {"stream": "proc", "n": n, "prog": prog, "target": tj,
            "mle": (n == 1 and rng.random() < 0.6) or (n == 2 and rng.random() < ctx.n(0.12, 0.25))}


# --------------------------------------------------------------------------- proc stream


def run_proc(ctx: Ctx, case: dict, parts=("li", "gf", "mle")) -> list[str]:
    n, prog = case["n"], case["prog"]
    d = 2**n
    probs: list[str] = []
    order = c15.observe_order(ctx, n)
    if None in order or sorted(order) != sorted(tm.all_settings(n)):
        return ["oracle: requested measurement circuits cannot be identified (see C15)"]
    base = tm.build_base(n, prog)
    before = cg.observe(base)
    v = transfer_matrix(base, n)
    u = normalise_unitary(v)
    if u is None:
        ctx.count("proc:not-unitary (skipped)")
        return probs
    ref = np.array(choi_from_unitary(u))
    exp = Experiment(n)
    # ---------------- linear inversion
    if "li" in parts:
        li = LIProcessTomography(n, base, exp.fn())
        try:
            choi = np.array(li.process())
        except Exception as e:  # noqa: BLE001
            return [f"oracle: LIProcessTomography.process() raised {exc_class(e)} on noiseless data: {e}"]
        if exp.n_circuits != (4**n) * (3**n):
            probs.append(f"oracle: LI requested {exp.n_circuits} experiments, expected 4^n*3^n")
        if choi.shape != ref.shape or not np.all(np.abs(choi - ref) <= TOL):
            probs.append(f"oracle: LI choi differs from choi_from_unitary(V) (max {np.abs(choi - ref).max():.3f})")
        try:
            f = li.fidelity(ref)
            if abs(f - 1) > FID_TOL:
                probs.append(f"oracle: LI fidelity against choi_from_unitary(V) is {f:.6f}")
        except Exception as e:  # noqa: BLE001
            probs.append(f"oracle: LI fidelity raised {exc_class(e)}")
        if not np.array_equal(np.array(li.choi), choi):
            probs.append("oracle: .choi differs from the matrix process() returned")
        m = ctx.model.call({"op": "ptomo", "kind": "li_born", "n": n, "prog": prog, "order": order,
                            "check_system": n == 1 or bool(case.get("mle_model"))})
        if "error" in m:
            probs.append(f"corr: model LI fails on its Born tables: {m['error']}")
        else:
            if not (m["choi_is_ref"] and m["solves_system"]):
                probs.append("corr: model LI result is not the reference Choi matrix / does not solve the system")
            mc = tm.q2mat(m["choi"])
            if not np.all(np.abs(choi - mc) <= TOL):
                probs.append(f"corr: LI choi differs from the model (max {np.abs(choi - mc).max():.3f})")
            if not np.all(np.abs(ref - mc) <= TOL):
                probs.append("corr: choi_from_unitary(V) differs from the model's reference Choi matrix")
        # the post-processing on exactly the callback's numbers
        mres = [[[list(k), tm.float_exact(val)] for k, val in items] for items in exp.returned]
        m2 = ctx.model.call({"op": "ptomo", "kind": "li_data", "n": n, "order": order, "results": mres})
        if "error" in m2:
            probs.append(f"corr: model LI rejects the callback's data: {m2['error']}")
        elif not np.all(np.abs(choi - tm.q2mat(m2["choi"])) <= TOL):
            probs.append("corr: LI choi differs from the model's LI on the same data")
    # ---------------- gate fidelity
    if "gf" in parts:
        gf = GateFidelity(n, base, exp.fn())
        try:
            f_same = gf.process(u)
            tnp = tm.q2mat(case["target"])
            f_t = gf.process(tnp)
        except Exception as e:  # noqa: BLE001
            probs.append(f"oracle: GateFidelity.process raised {exc_class(e)}: {e}")
        else:
            if abs(f_same - 1) > TOL:
                probs.append(f"oracle: gate fidelity against the implemented unitary is {f_same:.9f}")
            want = (abs(np.trace(tnp.conj().T @ u)) ** 2 + d) / (d * (d + 1))
            if abs(f_t - want) > TOL:
                probs.append(f"oracle: gate fidelity {f_t:.9f} differs from (|tr(U^dag V)|^2+d)/(d(d+1)) = {want:.9f}")
            if gf.fidelity != f_t:
                probs.append("oracle: .fidelity differs from the value process() returned")
            m = ctx.model.call({"op": "ptomo", "kind": "gf_born", "n": n, "prog": prog, "order": order,
                                "target": case["target"]})
            if "error" in m:
                probs.append(f"corr: model gate fidelity fails: {m['error']}")
            else:
                if not m["matches_formula"]:
                    probs.append("corr: model gate fidelity differs from the closed formula (theorem contradicted?)")
                if abs(f_t - tm.q2c(m["fidelity"]).real) > TOL:
                    probs.append(f"corr: gate fidelity {f_t:.9f} differs from the model {tm.q2c(m['fidelity']).real:.9f}")
    # ---------------- maximum likelihood
    if "mle" in parts and case.get("mle"):
        ctx.count(f"proc:mle n={n}")
        exp2 = Experiment(n)
        mle = MLEProcessTomography(n, base, exp2.fn())
        try:
            cm = np.array(mle.process())
            fm = mle.fidelity(ref)
        except Exception as e:  # noqa: BLE001
            probs.append(f"oracle: MLEProcessTomography raised {exc_class(e)}: {e}")
        else:
            if fm < 0.99:
                probs.append(f"oracle: MLE fidelity against choi_from_unitary(V) is {fm:.4f} < 0.99")
            herm = (cm + cm.conj().T) / 2
            if np.abs(cm - herm).max() > 1e-6 or np.linalg.eigvalsh(herm).min() < -1e-6:
                probs.append("oracle: MLE choi is not positive semi-definite")
            pt = np.einsum(cm.reshape(d, d, d, d), [0, 1, 2, 1])
            if np.abs(pt - np.eye(d)).max() > 1e-2:
                probs.append(f"oracle: MLE choi is not trace preserving (partial trace off by {np.abs(pt - np.eye(d)).max():.3f})")
        if n == 1 or case.get("mle_model"):
            want_pinned = n == 1 and "F8_model" not in ctx.extra
            m = ctx.model.call({"op": "ptomo", "kind": "mle_born", "n": n, "prog": prog, "order": order,
                                "pinned": want_pinned})
            if "error" in m or not m["consistent"]:
                probs.append("corr: model: p_vec(reference choi) is not proportional to n_vec (theorem contradicted?)")
            elif want_pinned and m.get("consistent_pinned") is False:
                # evidence for F8: with the pinned `_p_vec` (choi.T) the true Choi matrix does not reproduce the data
                ctx.extra["F8_model"] = {"prog": prog, "pinned_p_vec_consistent_with_data": False,
                                         "repaired_p_vec_consistent_with_data": True}
    after = cg.observe(base)
    if (before["n"], before["in_heralds"]) != (after["n"], after["in_heralds"]) or \
            not np.array_equal(before["U_full"], after["U_full"]):
        probs.append("oracle: the base circuit was modified")
    return probs


# --------------------------------------------------------------------------- data stream


def gen_data_case(ctx: Ctx, rng) -> dict:
    n = rng.choices([1, 2], weights=[75, 25])[0]
    which = rng.choice(["li", "gf"])
    fault = rng.choice(["none", "none", "none", "bad_pair", "short_results", "long_results", "empty", "zero",
                        "bad_target"] if which == "gf" else
                       ["none", "none", "none", "bad_pair", "short_results", "long_results", "empty", "zero"])
    total = (4**n) * (3**n)
    results = []
    for _ in range(total):
        states = [b for b in range(2**n) if rng.random() < 0.85] or [rng.randrange(2**n)]
        rng.shuffle(states)
        res = [[tm.dual_rail(n, b), frac_str(Fraction(c15.rand_count(rng)))] for b in states]
        if all(Fraction(c) == 0 for _, c in res):
            res[0][1] = "5"
        results.append(res)
    k = rng.randrange(total)
    if fault == "bad_pair":
        st = list(results[k][0][0])
        q = rng.randrange(n)
        st[2 * q: 2 * q + 2] = rng.choice([[1, 1], [0, 0], [2, 0]])
        results[k][0][0] = st
    elif fault == "short_results":
        results = results[: total - rng.randint(1, 3**n)]
    elif fault == "long_results":
        results = [*results, results[0]]
    elif fault == "empty":
        results[k] = []
    elif fault == "zero":
        results[k] = [[st, "0"] for st, _ in results[k]]
    d = 2**n
    tdim = d if fault != "bad_target" else (d * 2 if d == 2 else 2)
    tj, _ = rand_target(rng, {2: 1, 4: 2}[tdim], [])
    return {"stream": "data", "n": n, "which": which, "fault": fault, "results": results, "target": tj}


def run_data(ctx: Ctx, case: dict) -> list[str]:
    n = case["n"]
    order = c15.observe_order(ctx, n)
    if None in order or sorted(order) != sorted(tm.all_settings(n)):
        return ["oracle: requested measurement circuits cannot be identified (see C15)"]
    results = case["results"]

    def exp(circuits, inputs):  # noqa: ARG001
        return [{lw.State(st): (float(Fraction(c)) if "/" in c else int(c)) for st, c in res} for res in results]

    base = lw.Circuit(2 * n)
    ctx.count(f"data:{case['which']}:{case['fault']}")
    mres = []
    for res in results:
        dd: dict = {}
        for st, c in res:
            dd[tuple(st)] = c
        mres.append([[list(k), v] for k, v in dd.items()])
    if case["which"] == "li":
        try:
            out = np.array(LIProcessTomography(n, base, exp).process())
            impl = "ok"
        except Exception as e:  # noqa: BLE001
            impl = c15.norm_exc(exc_class(e))
        m = ctx.model.call({"op": "ptomo", "kind": "li_data", "n": n, "order": order, "results": mres})
        if "error" in m:
            return [] if impl == m["error"] else [f"corr: LI on synthetic data impl={impl} model={m['error']}"]
        if impl != "ok":
            return [f"corr: LI on synthetic data impl={impl} model=ok"]
        mc = tm.q2mat(m["choi"])
        scale = max(1.0, float(np.abs(mc).max()))
        if not np.all(np.abs(out - mc) <= 1e-8 * scale):
            return [f"corr: LI choi on synthetic data differs from the model (max {np.abs(out - mc).max():.2e})"]
        return []
    tnp = tm.q2mat(case["target"])
    try:
        f = GateFidelity(n, base, exp).process(tnp)
        impl = "ok"
    except Exception as e:  # noqa: BLE001
        impl = c15.norm_exc(exc_class(e))
    m = ctx.model.call({"op": "ptomo", "kind": "gf_data", "n": n, "order": order, "results": mres,
                        "target": case["target"]})
    if "error" in m:
        return [] if impl == m["error"] else [f"corr: gate fidelity on synthetic data impl={impl} model={m['error']}"]
    if impl != "ok":
        return [f"corr: gate fidelity on synthetic data impl={impl} model=ok"]
    mf = tm.q2c(m["fidelity"])
    if abs(f - mf.real) > 1e-8 * max(1.0, abs(mf)):
        return [f"corr: gate fidelity on synthetic data {f} differs from the model {mf.real}"]
    return []


# --------------------------------------------------------------------------- reference stream


def run_ref(ctx: Ctx, case: dict) -> list[str]:
    n, prog = case["n"], case["prog"]
    m = ctx.model.call({"op": "ptomo", "kind": "unitary", "n": n, "prog": prog})
    v = tm.q2mat(m["V"])
    probs = []
    got = np.array(choi_from_unitary(v))
    d = 2**n
    # oracle (definition of the Choi matrix the tomography classes reconstruct): for every input
    # density matrix rho,  E(rho)[c,d] = sum_ab rho[a,b] C[(a,c),(b,d)]  must equal  V rho V^dagger
    c4 = got.reshape(d, d, d, d)  # [a, c, b, d]
    for a in range(d):
        for b in range(d):
            e_ab = np.zeros((d, d), dtype=complex)
            e_ab[a, b] = 1
            if not np.all(np.abs(c4[a, :, b, :] - v @ e_ab @ v.conj().T) <= TOL):
                probs.append("corr: choi_from_unitary(V) is not the Choi matrix of rho -> V rho V^dagger in the "
                             "convention E(rho)[c,d] = sum_ab rho[a,b] C[(a,c),(b,d)] that the model's LI / MLE use "
                             "(row- instead of column-stacking)")
                break
        else:
            continue
        break
    if not np.all(np.abs(got - tm.q2mat(m["choi"])) <= TOL):
        probs.append("corr: choi_from_unitary(V) differs from the model (repaired convention)")
    try:
        f = process_fidelity(got, got)
        if abs(f - 1) > FID_TOL:
            probs.append(f"oracle: process_fidelity(C, C) = {f}")
    except Exception as e:  # noqa: BLE001
        probs.append(f"oracle: process_fidelity raised {exc_class(e)}")
    return probs


# --------------------------------------------------------------------------- init stream


def run_init(ctx: Ctx, case: dict) -> list[str]:
    n = case["n"]
    nv = {"int": n, "bool": True, "float": float(n), "str": str(n)}[case["n_kind"]]
    base = lw.Circuit(case["modes"])
    bv = {"circuit": base, "unitary_obj": lw.Unitary(np.eye(case["modes"])), "none": None,
          "ndarray": np.eye(case["modes"])}[case["base_kind"]]
    h = c15._Holder()

    def fn(circuits, inputs):  # noqa: ARG001
        return []

    ev = {"function": fn, "lambda": (lambda c, i: []), "method": h.method, "callable_obj": h,
          "none": None}[case["exp_kind"]]
    cls = {"li": LIProcessTomography, "mle": MLEProcessTomography, "gf": GateFidelity}[case["cls"]]
    try:
        cls(nv, bv, ev)
        impl = "ok"
    except Exception as e:  # noqa: BLE001
        impl = exc_class(e)
    m = ctx.model.call({"op": "tomo", "kind": "init", "n": n,
                        "n_is_int": case["n_kind"] == "int",
                        "base_is_circuit": case["base_kind"] in ("circuit", "unitary_obj"),
                        "exp_is_function": case["exp_kind"] in ("function", "lambda", "method"),
                        "input_modes": case["modes"]})
    mm = m if isinstance(m, str) else m["error"]
    ctx.count("init:" + mm)
    return [] if impl == mm else [f"corr: constructor outcome impl={impl} model={mm} ({case})"]


# --------------------------------------------------------------------------- driver of the check


def run_case(ctx: Ctx, case: dict) -> list[str]:
    return {"proc": run_proc, "data": run_data, "ref": run_ref, "init": run_init}[case["stream"]](ctx, case)


def report(ctx: Ctx, case: dict, probs: list[str]) -> None:
    # a problem must reproduce on identical input in this process (the property is deterministic)
    again = run_case(ctx, case)
    if not again:
        ctx.count("transient_problem_not_reproduced")
        ctx.notes.append(f"transient, not reproduced on identical input: {probs[0][:120]}")
        return
    probs = again
    ctx.count("cases_with_problems")
    small = case
    if case["stream"] in ("proc", "ref") and len(case["prog"]) > 1:
        first = probs[0].split(":")[1].strip()[:25]

        def still(sub):
            try:
                return any(first in p for p in run_case(ctx, dict(case, prog=sub)))
            except Exception:  # noqa: BLE001
                return False

        small = dict(case, prog=ddmin(case["prog"], still, max_tests=40))
        probs = run_case(ctx, small) or probs
    oracle = [p for p in probs if p.startswith("oracle")]
    if oracle:
        kind = "mle" if "MLE" in oracle[0] else "choi-ref" if "choi" in oracle[0] else oracle[0].split(":")[1].strip()[:40]
        ctx.violation(oracle[0], {"case": small, "problems": probs}, sig={"kind": kind, "stream": case["stream"]})
    else:
        ctx.disagreement(probs[0], {"case": small, "problems": probs})


def run(ctx: Ctx) -> None:
    ctx.rule = ("proc stream: circuits implementing 1- and 2-qubit unitaries (named gates incl. S, T, SX, exact complex "
                "non-symmetric single-qubit unitaries, post-selected / heralded CZ and CNOT in both orientations, swaps) "
                "through LI, GateFidelity (target = V and a random exact target) and MLE (fixed share); non-trivial = "
                "V is not symmetric or not real (the cases on which row/column stacking and the transpose matter); "
                "distinct = distinct (n, program). data stream: synthetic callback data, ~60% malformed; ref stream: "
                "choi_from_unitary on the model's exact V; init stream: constructor validation")
    rng = ctx.rng
    n_proc = ctx.n(32, 300)
    n_data = ctx.n(40, 500)
    n_ref = ctx.n(40, 400)
    n_init = ctx.n(30, 300)
    mle_model_budget = ctx.n(1, 10)
    for i in range(n_proc):
        if ctx.out_of_time():
            break
        case = gen_proc_case(ctx, rng, i)
        if case["n"] == 2 and case["mle"] and mle_model_budget > 0:
            case["mle_model"] = True
            mle_model_budget -= 1
        probs = run_proc(ctx, case)
        n = case["n"]
        ctx.count(f"proc:n={n}")
        for g in case["prog"]:
            if g[0] in ("CZ", "CNOT"):
                ctx.count(f"proc:{g[0]}-{g[3]['impl']}" + ("-reversed" if g[0] == "CNOT" and g[2] < g[1] else ""))
            elif g[0] in ("U", "SWAP", "S", "T", "SX", "Y", "H"):
                ctx.count("proc:" + g[0])
        v = transfer_matrix(tm.build_base(n, case["prog"]), n)
        u = normalise_unitary(v)
        nontriv = u is not None and (np.abs(u - u.T).max() > 1e-6 or np.abs(u.imag).max() > 1e-6)
        if u is not None and np.abs(u - u.T).max() > 1e-6:
            ctx.count("proc:non-symmetric V")
        if u is not None and np.abs(u.imag).max() > 1e-6:
            ctx.count("proc:complex V")
        ctx.case(json.dumps([n, case["prog"]]), bool(nontriv), sample=case if i < 2 else None)
        if probs:
            report(ctx, case, probs)
    for _ in range(n_ref):
        if ctx.out_of_time():
            break
        n = rng.choice([1, 1, 2])
        case = {"stream": "ref", "n": n, "prog": tm.rand_gate_program(rng, n, max_len=5, max_her=0)}
        case["prog"] = [[g[0], g[1], g[2], {"impl": "ps"}] if g[0] in ("CZ", "CNOT") else g for g in case["prog"]]
        probs = run_ref(ctx, case)
        ctx.case(json.dumps(["ref", n, case["prog"]]), False)
        ctx.count("ref")
        if probs:
            report(ctx, case, probs)
    for _ in range(n_data):
        if ctx.out_of_time():
            break
        case = gen_data_case(ctx, rng)
        probs = run_data(ctx, case)
        ctx.case(json.dumps(case, default=str)[:2000], False)
        if probs:
            report(ctx, case, probs)
    for _ in range(n_init):
        if ctx.out_of_time():
            break
        case = c15.gen_init_case(ctx, rng)
        case["n"] = min(case["n"], 2)
        case["modes"] = rng.choice([2 * case["n"], 2 * case["n"], 2 * case["n"] + 1, 2 * case["n"] + 2])
        case["cls"] = rng.choice(["li", "mle", "gf"])
        case["stream"] = "init"
        probs = run_init(ctx, case)
        ctx.case(json.dumps(case), False)
        if probs:
            report(ctx, case, probs)


def replay(ctx: Ctx, path: str) -> None:
    data = json.load(open(path))
    case = data["replay"]["case"]
    probs = run_case(ctx, case)
    ctx.case("replay", True, sample=case)
    for p in probs:
        print("replay:", p)
        if p.startswith("oracle"):
            ctx.violation(p, data["replay"], sig={"kind": "replay"})
        else:
            ctx.disagreement(p, data["replay"])
