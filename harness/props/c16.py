"""
C16 — process tomography and gate fidelity agree with the library's own references.

Model: LW.Model.ProcTomo (input states, experiment bookkeeping, LI transform rows and the closed
form of the linear solve, reference Choi matrix, MLE data pipeline, gate-fidelity sum) on top of
LW.Model.Tomo.  Theorems: LW/Properties/C16.lean.

Streams (all from ctx.rng):
  * "proc"  a circuit implementing an n-qubit unitary V (n = 1, 2; qubit-level program: named gates,
            exact complex non-symmetric single-qubit unitaries, post-selected / heralded CZ and CNOT
            in both orientations, swaps) goes through the real LIProcessTomography, GateFidelity and
            (a fixed share) MLEProcessTomography with a noiseless callback;
  * "data"  synthetic callback data (valid counts / malformed) for LI and GateFidelity;
  * "ref"   choi_from_unitary / process_fidelity on exact unitaries;
  * "init"  constructor validation;
  * "hist"  HISTORIES on long-lived objects of all three classes (a directed corpus that always runs first,
            then random ones from a stream of their own): process() - the base circuit is extended in
            place / a Parameter it depends on is set / `experiment` or `experiment_args` are re-assigned
            (a device with depolarising noise) - process() again, GateFidelity with the current V, the V
            of an earlier call, the previous or a random target, several targets in a row; objects sharing
            one base circuit or holding a copy.  After every call: the clauses for the CURRENT circuit and
            device, equality with a fresh object, currency of the circuits / inputs / arguments handed to
            the callback, the model on the current data and on the cumulative program.
  * "proj"  the projection steps of the MLE optimiser (`_tp_proj`, `_cp_proj`, `_cptp_proj`, one pgdb update) on exact
            data against LW.Model.MLEProj and the clauses proved in LW/Properties/C16Proj.lean (see harness/mleproj.py);
  * "keep"  RETAINED RESULTS (see the section of that name): every value handed out by the three classes and by
            choi_from_unitary is kept - the very object plus a deep copy - and re-checked after every later step
            of a sequence over several objects of the same and of other classes and sizes (a directed corpus
            that always runs first, then random sequences from a stream of their own); the "hist" stream keeps
            such a ledger for every history too.  Oracle-only (the model has no object identity).
Oracles are evaluated on the implementation alone: the reference is choi_from_unitary(V) with V the
dual-rail transfer matrix of the base circuit obtained from the implementation's Simulator.
"""

from __future__ import annotations

import copy
import json
import random
import warnings
from fractions import Fraction

import numpy as np

import circgen as cg
import mleproj
import lightworks as lw
import tomo as tm
from core import Ctx, ddmin, exc_class, frac_str
from lightworks import emulator
from lightworks.tomography import (
    GateFidelity,
    LIProcessTomography,
    MLEProcessTomography,
    choi_from_unitary,
    process_fidelity,
)
from props import c15

warnings.filterwarnings("ignore", message="Matrix is")
warnings.filterwarnings("ignore", message="Max iterations")

TRUSTED = [
    "Lean 4.33 kernel; Mathlib v4.33 as compiled on this image",
    "axioms: subset of {propext, Classical.choice, Quot.sound} (audited per theorem on every run)",
    "hand-written model LW.Model.ProcTomo / Tomo tied to the code by this correspondence check",
    "numpy.linalg.pinv (contract: the unique solution of the invertible linear system), numpy.linalg.solve, "
    "eigh (also inside state_fidelity / process_fidelity since the repair F28; fidelity compared with tolerance 1e-6)",
    "MLE: the projection steps (_tp_proj, _cp_proj given eigh's output, the Dykstra loop, the pgdb update rule) are "
    "modelled (LW.Model.MLEProj) and proved to return positive semi-definite / trace-preserving matrices; CONVERGENCE of "
    "Dykstra's iteration and of the projected gradient descent is NOT modelled: the result is checked against the "
    "property's bound (fidelity >= 0.99, positivity, trace preservation) on every generated case",
    "the implementation's Simulator as the source of noiseless outcome frequencies (C03/C04)",
    "driver JSON parser and harness comparison code",
]
ASSUMPTIONS = [
    "model scalars are exact elements of Q(i, sqrt2); the code sees the corresponding floats",
    "n = 1, 2 qubits (the property's quantifier); theorems about LI / gate fidelity are for every n",
    "order of the required settings inside this process observed once (see C15) and fed to the model",
    "histories: a tomography object measures the base circuit it was given AS IT IS at the time of process() "
    "(in-place extensions and Parameter changes made after construction count), with the experiment and "
    "experiment_args assigned at that time; it may re-measure or reuse data, the result must be that of the "
    "current process.  For a device with depolarising noise lam the clauses are extended by linearity: LI returns "
    "(1-lam) choi_from_unitary(V) + lam I/d, gate fidelity (1-lam) F(U,V) + lam/d; MLE is then only compared with "
    "a fresh object (and checked for positivity / trace preservation)",
]

TOL = 1e-8
FID_TOL = 1e-6
LI_INPUTS = ["Z+", "Z-", "X+", "Y+"]


# --------------------------------------------------------------------------- helpers


def combos(vals: list[str], n: int) -> list[str]:
    out = list(vals)
    for _ in range(n - 1):
        out = [a + "," + b for a in out for b in vals]
    return out


def transfer_matrix(base, n: int) -> np.ndarray:
    """dual-rail transfer matrix of the base circuit (implementation's Simulator): V[r, c] is the
    amplitude of dual-rail output r for dual-rail input c (heralds applied)"""
    states = tm.dual_rail_states(n)
    res = emulator.Simulator(base).simulate(states, states)
    return np.array(res.array).T.astype(complex)


def normalise_unitary(v: np.ndarray):
    d = v.shape[0]
    s = np.trace(v.conj().T @ v).real / d
    if s < 1e-12:
        return None
    u = v / np.sqrt(s)
    if not np.all(np.abs(u.conj().T @ u - np.eye(d)) <= 1e-9):
        return None
    return u


class Experiment:
    """noiseless callback with a cache (LI and GateFidelity request identical circuits)"""

    def __init__(self, n: int):
        self.n = n
        self.cache: dict = {}
        self.calls: list = []
        self.returned: list = []
        self.n_circuits = 0

    def fn(self):
        def experiment(circuits, inputs):
            out = []
            ret = []
            self.n_circuits += len(circuits)
            for c, s in zip(circuits, inputs):
                key = (tuple(s), np.array(c.U_full).tobytes())
                if key not in self.cache:
                    self.cache[key] = tm.exact_frequencies(c, s, self.n)
                fr = self.cache[key]
                ret.append(list(fr.items()))
                out.append({lw.State(list(k)): v for k, v in fr.items()})
            self.returned = ret
            return out

        return experiment


def rand_target(rng, n: int, v_prog: list):
    """target unitary for gate fidelity: (json matrix of Q2 strings, numpy matrix)"""
    d = 2**n
    u = cg.exact_unitary(rng, d, depth=rng.randint(1, 2 * d))
    return [[x.s() for x in row] for row in u], cg.mat_np(u)


def gen_proc_case(ctx: Ctx, rng, idx: int) -> dict:
    n = rng.choices([1, 2], weights=[70, 30])[0]
    prog = tm.rand_gate_program(rng, n, max_len=2 + 2 * n, max_her=1)
    if n == 1 and not prog:
        prog = [[rng.choice(list(tm.NAMED)), 0]]
    tj, _ = rand_target(rng, n, prog)
    return {"stream": "proc", "n": n, "prog": prog, "target": tj,
            "mle": (n == 1 and rng.random() < 0.6) or (n == 2 and rng.random() < ctx.n(0.12, 0.25))}


# --------------------------------------------------------------------------- proc stream


def run_proc(ctx: Ctx, case: dict, parts=("li", "gf", "mle")) -> list[str]:
    n, prog = case["n"], case["prog"]
    d = 2**n
    probs: list[str] = []
    order = c15.observe_order(ctx, n)
    if None in order or sorted(order) != sorted(tm.all_settings(n)):
        return ["oracle: requested measurement circuits cannot be identified (see C15)"]
    base = tm.build_base(n, prog)
    before = cg.observe(base)
    v = transfer_matrix(base, n)
    u = normalise_unitary(v)
    if u is None:
        ctx.count("proc:not-unitary (skipped)")
        return probs
    ref = np.array(choi_from_unitary(u))
    exp = Experiment(n)
    # ---------------- linear inversion
    if "li" in parts:
        li = LIProcessTomography(n, base, exp.fn())
        try:
            choi = np.array(li.process())
        except Exception as e:  # noqa: BLE001
            return [f"oracle: LIProcessTomography.process() raised {exc_class(e)} on noiseless data: {e}"]
        if exp.n_circuits != (4**n) * (3**n):
            probs.append(f"oracle: LI requested {exp.n_circuits} experiments, expected 4^n*3^n")
        if choi.shape != ref.shape or not np.all(np.abs(choi - ref) <= TOL):
            probs.append(f"oracle: LI choi differs from choi_from_unitary(V) (max {np.abs(choi - ref).max():.3f})")
        try:
            f = li.fidelity(ref)
            if abs(f - 1) > FID_TOL:
                probs.append(f"oracle: LI fidelity against choi_from_unitary(V) is {f:.6f}")
        except Exception as e:  # noqa: BLE001
            probs.append(f"oracle: LI fidelity raised {exc_class(e)}")
        if not np.array_equal(np.array(li.choi), choi):
            probs.append("oracle: .choi differs from the matrix process() returned")
        m = ctx.model.call({"op": "ptomo", "kind": "li_born", "n": n, "prog": prog, "order": order,
                            "check_system": n == 1 or bool(case.get("mle_model"))})
        if "error" in m:
            probs.append(f"corr: model LI fails on its Born tables: {m['error']}")
        else:
            if not (m["choi_is_ref"] and m["solves_system"]):
                probs.append("corr: model LI result is not the reference Choi matrix / does not solve the system")
            mc = tm.q2mat(m["choi"])
            if not np.all(np.abs(choi - mc) <= TOL):
                probs.append(f"corr: LI choi differs from the model (max {np.abs(choi - mc).max():.3f})")
            if not np.all(np.abs(ref - mc) <= TOL):
                probs.append("corr: choi_from_unitary(V) differs from the model's reference Choi matrix")
        # the post-processing on exactly the callback's numbers
        mres = [[[list(k), tm.float_exact(val)] for k, val in items] for items in exp.returned]
        m2 = ctx.model.call({"op": "ptomo", "kind": "li_data", "n": n, "order": order, "results": mres})
        if "error" in m2:
            probs.append(f"corr: model LI rejects the callback's data: {m2['error']}")
        elif not np.all(np.abs(choi - tm.q2mat(m2["choi"])) <= TOL):
            probs.append("corr: LI choi differs from the model's LI on the same data")
    # ---------------- gate fidelity
    if "gf" in parts:
        gf = GateFidelity(n, base, exp.fn())
        try:
            f_same = gf.process(u)
            tnp = tm.q2mat(case["target"])
            f_t = gf.process(tnp)
        except Exception as e:  # noqa: BLE001
            probs.append(f"oracle: GateFidelity.process raised {exc_class(e)}: {e}")
        else:
            if abs(f_same - 1) > TOL:
                probs.append(f"oracle: gate fidelity against the implemented unitary is {f_same:.9f}")
            want = (abs(np.trace(tnp.conj().T @ u)) ** 2 + d) / (d * (d + 1))
            if abs(f_t - want) > TOL:
                probs.append(f"oracle: gate fidelity {f_t:.9f} differs from (|tr(U^dag V)|^2+d)/(d(d+1)) = {want:.9f}")
            if gf.fidelity != f_t:
                probs.append("oracle: .fidelity differs from the value process() returned")
            m = ctx.model.call({"op": "ptomo", "kind": "gf_born", "n": n, "prog": prog, "order": order,
                                "target": case["target"]})
            if "error" in m:
                probs.append(f"corr: model gate fidelity fails: {m['error']}")
            else:
                if not m["matches_formula"]:
                    probs.append("corr: model gate fidelity differs from the closed formula (theorem contradicted?)")
                if abs(f_t - tm.q2c(m["fidelity"]).real) > TOL:
                    probs.append(f"corr: gate fidelity {f_t:.9f} differs from the model {tm.q2c(m['fidelity']).real:.9f}")
    # ---------------- maximum likelihood
    if "mle" in parts and case.get("mle"):
        ctx.count(f"proc:mle n={n}")
        exp2 = Experiment(n)
        mle = MLEProcessTomography(n, base, exp2.fn())
        try:
            cm = np.array(mle.process())
            fm = mle.fidelity(ref)
        except Exception as e:  # noqa: BLE001
            probs.append(f"oracle: MLEProcessTomography raised {exc_class(e)}: {e}")
        else:
            if fm < 0.99:
                probs.append(f"oracle: MLE fidelity against choi_from_unitary(V) is {fm:.4f} < 0.99")
            herm = (cm + cm.conj().T) / 2
            if np.abs(cm - herm).max() > 1e-6 or np.linalg.eigvalsh(herm).min() < -1e-6:
                probs.append("oracle: MLE choi is not positive semi-definite")
            pt = np.einsum(cm.reshape(d, d, d, d), [0, 1, 2, 1])
            if np.abs(pt - np.eye(d)).max() > 1e-2:
                probs.append(f"oracle: MLE choi is not trace preserving (partial trace off by {np.abs(pt - np.eye(d)).max():.3f})")
        if n == 1 or case.get("mle_model"):
            want_pinned = n == 1 and "F8_model" not in ctx.extra
            m = ctx.model.call({"op": "ptomo", "kind": "mle_born", "n": n, "prog": prog, "order": order,
                                "pinned": want_pinned})
            if "error" in m or not m["consistent"]:
                probs.append("corr: model: p_vec(reference choi) is not proportional to n_vec (theorem contradicted?)")
            elif want_pinned and m.get("consistent_pinned") is False:
                # evidence for F8: with the pinned `_p_vec` (choi.T) the true Choi matrix does not reproduce the data
                ctx.extra["F8_model"] = {"prog": prog, "pinned_p_vec_consistent_with_data": False,
                                         "repaired_p_vec_consistent_with_data": True}
    after = cg.observe(base)
    if (before["n"], before["in_heralds"]) != (after["n"], after["in_heralds"]) or \
            not np.array_equal(before["U_full"], after["U_full"]):
        probs.append("oracle: the base circuit was modified")
    return probs


# --------------------------------------------------------------------------- data stream


def gen_data_case(ctx: Ctx, rng) -> dict:
    n = rng.choices([1, 2], weights=[75, 25])[0]
    which = rng.choice(["li", "gf"])
    fault = rng.choice(["none", "none", "none", "bad_pair", "short_results", "long_results", "empty", "zero",
                        "bad_target"] if which == "gf" else
                       ["none", "none", "none", "bad_pair", "short_results", "long_results", "empty", "zero"])
    total = (4**n) * (3**n)
    results = []
    for _ in range(total):
        states = [b for b in range(2**n) if rng.random() < 0.85] or [rng.randrange(2**n)]
        rng.shuffle(states)
        res = [[tm.dual_rail(n, b), frac_str(Fraction(c15.rand_count(rng)))] for b in states]
        if all(Fraction(c) == 0 for _, c in res):
            res[0][1] = "5"
        results.append(res)
    k = rng.randrange(total)
    if fault == "bad_pair":
        st = list(results[k][0][0])
        q = rng.randrange(n)
        st[2 * q: 2 * q + 2] = rng.choice([[1, 1], [0, 0], [2, 0]])
        results[k][0][0] = st
    elif fault == "short_results":
        results = results[: total - rng.randint(1, 3**n)]
    elif fault == "long_results":
        results = [*results, results[0]]
    elif fault == "empty":
        results[k] = []
    elif fault == "zero":
        results[k] = [[st, "0"] for st, _ in results[k]]
    d = 2**n
    tdim = d if fault != "bad_target" else (d * 2 if d == 2 else 2)
    tj, _ = rand_target(rng, {2: 1, 4: 2}[tdim], [])
    return {"stream": "data", "n": n, "which": which, "fault": fault, "results": results, "target": tj}


def run_data(ctx: Ctx, case: dict) -> list[str]:
    n = case["n"]
    order = c15.observe_order(ctx, n)
    if None in order or sorted(order) != sorted(tm.all_settings(n)):
        return ["oracle: requested measurement circuits cannot be identified (see C15)"]
    results = case["results"]

    def exp(circuits, inputs):  # noqa: ARG001
        return [{lw.State(st): (float(Fraction(c)) if "/" in c else int(c)) for st, c in res} for res in results]

    base = lw.Circuit(2 * n)
    ctx.count(f"data:{case['which']}:{case['fault']}")
    mres = []
    for res in results:
        dd: dict = {}
        for st, c in res:
            dd[tuple(st)] = c
        mres.append([[list(k), v] for k, v in dd.items()])
    if case["which"] == "li":
        try:
            out = np.array(LIProcessTomography(n, base, exp).process())
            impl = "ok"
        except Exception as e:  # noqa: BLE001
            impl = c15.norm_exc(exc_class(e))
        m = ctx.model.call({"op": "ptomo", "kind": "li_data", "n": n, "order": order, "results": mres})
        if "error" in m:
            return [] if impl == m["error"] else [f"corr: LI on synthetic data impl={impl} model={m['error']}"]
        if impl != "ok":
            return [f"corr: LI on synthetic data impl={impl} model=ok"]
        mc = tm.q2mat(m["choi"])
        scale = max(1.0, float(np.abs(mc).max()))
        if not np.all(np.abs(out - mc) <= 1e-8 * scale):
            return [f"corr: LI choi on synthetic data differs from the model (max {np.abs(out - mc).max():.2e})"]
        return []
    tnp = tm.q2mat(case["target"])
    try:
        f = GateFidelity(n, base, exp).process(tnp)
        impl = "ok"
    except Exception as e:  # noqa: BLE001
        impl = c15.norm_exc(exc_class(e))
    m = ctx.model.call({"op": "ptomo", "kind": "gf_data", "n": n, "order": order, "results": mres,
                        "target": case["target"]})
    if "error" in m:
        return [] if impl == m["error"] else [f"corr: gate fidelity on synthetic data impl={impl} model={m['error']}"]
    if impl != "ok":
        return [f"corr: gate fidelity on synthetic data impl={impl} model=ok"]
    mf = tm.q2c(m["fidelity"])
    if abs(f - mf.real) > 1e-8 * max(1.0, abs(mf)):
        return [f"corr: gate fidelity on synthetic data {f} differs from the model {mf.real}"]
    return []


# --------------------------------------------------------------------------- reference stream


def run_ref(ctx: Ctx, case: dict) -> list[str]:
    n, prog = case["n"], case["prog"]
    m = ctx.model.call({"op": "ptomo", "kind": "unitary", "n": n, "prog": prog})
    v = tm.q2mat(m["V"])
    probs = []
    got = np.array(choi_from_unitary(v))
    d = 2**n
    # oracle (definition of the Choi matrix the tomography classes reconstruct): for every input
    # density matrix rho,  E(rho)[c,d] = sum_ab rho[a,b] C[(a,c),(b,d)]  must equal  V rho V^dagger
    c4 = got.reshape(d, d, d, d)  # [a, c, b, d]
    for a in range(d):
        for b in range(d):
            e_ab = np.zeros((d, d), dtype=complex)
            e_ab[a, b] = 1
            if not np.all(np.abs(c4[a, :, b, :] - v @ e_ab @ v.conj().T) <= TOL):
                probs.append("corr: choi_from_unitary(V) is not the Choi matrix of rho -> V rho V^dagger in the "
                             "convention E(rho)[c,d] = sum_ab rho[a,b] C[(a,c),(b,d)] that the model's LI / MLE use "
                             "(row- instead of column-stacking)")
                break
        else:
            continue
        break
    if not np.all(np.abs(got - tm.q2mat(m["choi"])) <= TOL):
        probs.append("corr: choi_from_unitary(V) differs from the model (repaired convention)")
    try:
        f = process_fidelity(got, got)
        if abs(f - 1) > FID_TOL:
            probs.append(f"oracle: process_fidelity(C, C) = {f}")
    except Exception as e:  # noqa: BLE001
        probs.append(f"oracle: process_fidelity raised {exc_class(e)}")
    return probs


# --------------------------------------------------------------------------- init stream


def run_init(ctx: Ctx, case: dict) -> list[str]:
    n = case["n"]
    nv = {"int": n, "bool": True, "float": float(n), "str": str(n)}[case["n_kind"]]
    base = lw.Circuit(case["modes"])
    bv = {"circuit": base, "unitary_obj": lw.Unitary(np.eye(case["modes"])), "none": None,
          "ndarray": np.eye(case["modes"])}[case["base_kind"]]
    h = c15._Holder()

    def fn(circuits, inputs):  # noqa: ARG001
        return []

    ev = {"function": fn, "lambda": (lambda c, i: []), "method": h.method, "callable_obj": h,
          "none": None}[case["exp_kind"]]
    cls = {"li": LIProcessTomography, "mle": MLEProcessTomography, "gf": GateFidelity}[case["cls"]]
    try:
        cls(nv, bv, ev)
        impl = "ok"
    except Exception as e:  # noqa: BLE001
        impl = exc_class(e)
    m = ctx.model.call({"op": "tomo", "kind": "init", "n": n,
                        "n_is_int": case["n_kind"] == "int",
                        "base_is_circuit": case["base_kind"] in ("circuit", "unitary_obj"),
                        "exp_is_function": case["exp_kind"] in ("function", "lambda", "method"),
                        "input_modes": case["modes"]})
    mm = m if isinstance(m, str) else m["error"]
    ctx.count("init:" + mm)
    return [] if impl == mm else [f"corr: constructor outcome impl={impl} model={mm} ({case})"]


# --------------------------------------------------------------------------- histories on long-lived objects
#
# One to three tomography objects (LIProcessTomography / MLEProcessTomography / GateFidelity, sharing ONE
# base circuit or holding a copy of their own) live through a sequence of steps: process() - the base
# circuit is extended in place (single gates, sub-circuits, grouped sub-circuits, heralded gates that add
# ancilla modes), a Parameter the base circuit depends on is set, `experiment` or `experiment_args` are
# re-assigned (the callback models a device with depolarising noise lam, chosen by the callback or by the
# extra argument: every outcome table becomes (1-lam) p + lam total/d, the channel (1-lam) V.V^dag + lam I/d)
# - process() again (GateFidelity: with the current V, the V of an earlier call, the previous target or a
# random target, possibly several targets in a row).  After EVERY process() call
#   * the property's clauses are evaluated for the base circuit AS IT IS NOW (lam = 0: exactly the clauses
#     of the "proc" stream; lam > 0: the same clauses extended by linearity of LI / the gate-fidelity sum),
#   * the result is compared with a FRESH object of the same class built on the current base circuit and
#     the current device, and - when the callback ran - the circuits / inputs / extra arguments it was
#     handed with those the fresh object hands over (re-measuring is legitimate, stale data is not),
#   * the model evaluates LI / gate fidelity on the data of the current configuration (li_data / gf_data)
#     and, for one-qubit histories the model can follow, on the cumulative qubit-level program (li_born /
#     gf_born).

PHASE_Q2 = ["1,0,0,0", "0,0,1/2,1/2", "0,1,0,0", "0,0,-1/2,1/2", "-1,0,0,0", "0,0,-1/2,-1/2", "0,-1,0,0",
            "0,0,1/2,-1/2"]  # exp(i k pi/4) in Q(i, sqrt2)
NOISES = ["0", "1/4", "1/2", "1"]
CLS = {"li": LIProcessTomography, "mle": MLEProcessTomography, "gf": GateFidelity}
N_INPUTS = {"li": 4, "gf": 4, "mle": 6}
FRESH_TOL = 1e-9
_HIST_BUDGET: dict = {"n2_model": None}  # None = unlimited (replays, re-runs of a reported case)


class _Device:
    """callbacks that are bound methods"""

    def __init__(self, f):
        self.f = f

    def run(self, circuits, inputs, *extra):
        return self.f(circuits, inputs, *extra)


def param_value(v: dict) -> float:
    return v["k"] * np.pi / 4 if v["kind"] == "phase" else float(v["v"])


def hist_apply_gate(c, g: list, pobj: dict) -> None:
    if g[0] == "PPS":  # phase shifter with a live Parameter on one rail of qubit g[1]
        c.ps(2 * g[1] + g[2], pobj[g[3]])
    elif g[0] == "PBS":  # beam splitter across the rails of qubit g[1], reflectivity a live Parameter
        c.bs(2 * g[1], 2 * g[1] + 1, reflectivity=pobj[g[2]])
    else:
        tm.extend_base(c, [g])


def hist_apply(base, n: int, gates: list, pobj: dict, how: str) -> None:
    if how == "each":
        for g in gates:
            hist_apply_gate(base, g, pobj)
        return
    sub = lw.Circuit(2 * n)
    for g in gates:
        hist_apply_gate(sub, g, pobj)
    base.add(sub, 0, group=(how == "group"))


def hist_model_prog(prog: list, ptab: dict):
    """the cumulative program with the current parameter values, or None when the model cannot follow"""
    out = []
    for g in prog:
        if g[0] in ("MODEU", "PRIM", "PBS"):
            return None
        if g[0] == "PPS":
            if ptab[g[3]]["kind"] != "phase":
                return None
            ph = PHASE_Q2[ptab[g[3]]["k"] % 8]
            one, zero = "1,0,0,0", "0,0,0,0"
            out.append(["U", g[1], [[ph, zero], [zero, one]] if g[2] == 0 else [[one, zero], [zero, ph]]])
        else:
            out.append(g)
    return out


def new_rec() -> dict:
    return {"calls": 0, "by": None, "extra": None, "circuits": [], "inputs": [], "returned": []}


def reset_rec(rec: dict) -> None:
    rec.update(calls=0, by=None, extra=None)
    rec["circuits"] = []
    rec["inputs"] = []
    rec["returned"] = []


def make_hist_experiment(cfg: dict, rec: dict, n: int, cache: dict):
    """device callback `experiment(circuits, inputs[, noise])`: exact outcome frequencies of every
    requested circuit (implementation's Simulator) followed by depolarising noise; the extra argument
    (handed over through `experiment_args`) overrides the device's own noise level.  Everything it is
    given / returns is recorded in rec."""
    d = 2**n

    def experiment(circuits, inputs, *extra):
        rec["calls"] += 1
        rec["by"] = cfg["id"]
        rec["extra"] = list(extra)
        lam = float(Fraction(extra[0] if extra else cfg["noise"]))
        rec["circuits"].extend(circuits)
        rec["inputs"].extend(inputs)
        out = []
        for c, s in zip(circuits, inputs):
            her = c.heralds
            key = (tuple(s), tuple(sorted(her["input"].items())), tuple(sorted(her["output"].items())),
                   np.array(c.U_full).tobytes())
            fr = cache.get(key)
            if fr is None:
                fr = tm.exact_frequencies(c, s, n)
                cache[key] = fr
            tot = sum(fr.values())
            items = [(k, v if lam == 0 else (1 - lam) * v + lam * tot / d) for k, v in fr.items()]
            rec["returned"].append(items)
            out.append({lw.State(list(k)): v for k, v in items})
        return out

    if cfg.get("kind") == "method":
        return _Device(experiment).run
    if cfg.get("kind") == "lambda":
        return lambda circuits, inputs, *extra: experiment(circuits, inputs, *extra)
    return experiment


def float_target(t: np.ndarray) -> list:
    """a numeric target as the exact rationals its floats denote (for the model's gf_data)"""
    return [[tm.float_exact(x.real) + "," + tm.float_exact(x.imag) for x in row] for row in t]


def same_up_to_phase(a: np.ndarray, b: np.ndarray) -> bool:
    return a.shape == b.shape and abs(abs(np.trace(a.conj().T @ b)) - a.shape[0]) <= 1e-9


def check_hist_process(ctx: Ctx, n: int, o: dict, st: dict, ptab: dict, cache: dict, info: dict):
    """ONE process() call on the long-lived object `o` against the clauses for its base circuit and its
    device AS THEY ARE NOW, against a fresh object, against the model.  Returns the problems (None when
    the current circuit does not implement a unitary)."""
    d = 2**n
    cls = o["cls"]
    base = o["b"]["circ"]
    probs: list[str] = []
    before = cg.observe(base)
    if base.input_modes != 2 * n:
        raise AssertionError("generated base circuit has the wrong number of input modes")
    u = normalise_unitary(transfer_matrix(base, n))
    if u is None:
        ctx.count("hist:not-unitary (call skipped)")
        return None
    ref = np.array(choi_from_unitary(u))
    lam_s = o["args"][0] if o["args"] else o["cfg"]["noise"]
    lam = float(Fraction(lam_s))
    want_extra = list(o["args"]) if o["args"] else []
    # ---- the target of a gate-fidelity call
    target = None
    if cls == "gf":
        kind = st.get("target", "V")
        if kind == "prevV" and o["lastV"] is None or kind == "firstV" and o["firstV"] is None:
            kind = "V"
        if kind == "prev" and o["last_target"] is None:
            kind = "mat"
        target = {"V": u, "prevV": o["lastV"], "firstV": o["firstV"], "prev": o["last_target"],
                  "mat": tm.q2mat(st["mat"])}[kind]
        ctx.count(f"hist:gf-target={kind}")
        if kind in ("prevV", "firstV") and not same_up_to_phase(target, u):
            ctx.count("hist:gf-target-is-the-unitary-of-an-earlier-call (V changed since)")
        if o["last_target"] is not None and not o["pending"] and not np.array_equal(o["last_target"], target):
            ctx.count("hist:gf-two-different-targets-in-a-row")
    # ---- the call
    rec = o["rec"]
    reset_rec(rec)
    tomo = o["tomo"]
    led = info.get("ledger")
    name = f"{CLS[cls].__name__} #{o.get('key', 0)} (n = {n})"
    target_in = None
    if led is not None and target is not None:
        target_in = np.array(target)  # the client's own array: process() must leave it alone
        led.hand_in(target_in, f"the target matrix handed to process() call #{o['calls'] + 1} of {name}")
    try:
        raw = tomo.process(target if target_in is None else target_in) if cls == "gf" else tomo.process()
        got = raw if cls == "gf" else np.array(raw)
    except Exception as e:  # noqa: BLE001
        return [f"oracle: {CLS[cls].__name__}.process() raised {exc_class(e)} on noiseless data: {e}"]
    info["processes"] += 1
    if led is not None:
        # everything handed out earlier in this history (by this and by the other objects) is still what it was
        probs += led.recheck(ctx, f"process() call #{o['calls'] + 1} of {name}", worked=("obj", o.get("key", 0)))
    n_exp = (N_INPUTS[cls] ** n) * (3**n)
    if rec["calls"] == 0:
        ctx.count("hist:callback-not-called (data reused)")
    else:
        if rec["calls"] != 1 or len(rec["circuits"]) != n_exp or len(rec["inputs"]) != n_exp:
            probs.append(f"oracle: process() called the experiment {rec['calls']} times with {len(rec['circuits'])} "
                         f"circuits / {len(rec['inputs'])} inputs, expected one call with {n_exp}")
        if rec["by"] != o["cfg"]["id"]:
            probs.append("oracle: process() did not call the experiment currently assigned to the object")
        if rec["extra"] != want_extra:
            probs.append(f"oracle: the callback was handed the extra arguments {rec['extra']}, the object's "
                         f"current experiment_args say {want_extra}")
    # ---- the property's clauses for the current V (and the current device)
    eye = np.eye(d * d) / d
    if cls in ("li", "mle"):
        choi = got
        try:
            if not np.array_equal(np.array(tomo.choi), choi):
                probs.append("oracle: .choi differs from the matrix process() returned")
            fid = tomo.fidelity(ref)
        except Exception as e:  # noqa: BLE001
            probs.append(f"oracle: {CLS[cls].__name__} .choi / fidelity raised {exc_class(e)}")
            fid = None
    if cls == "li":
        want = ref if lam == 0 else (1 - lam) * ref + lam * eye
        if choi.shape != ref.shape or not np.all(np.abs(choi - want) <= TOL):
            probs.append("oracle: LI choi differs from choi_from_unitary(V) of the current base circuit"
                         + ("" if lam == 0 else f" mixed with the depolarising channel (noise {lam_s})")
                         + f" (max {np.abs(choi - want).max():.3f})")
        if lam == 0 and fid is not None and abs(fid - 1) > FID_TOL:
            probs.append(f"oracle: LI fidelity against choi_from_unitary(V) of the current base circuit is {fid:.6f}")
    elif cls == "mle":
        if lam == 0 and fid is not None and fid < 0.99:
            probs.append(f"oracle: MLE fidelity against choi_from_unitary(V) of the current base circuit is {fid:.4f} < 0.99")
        herm = (choi + choi.conj().T) / 2
        if np.abs(choi - herm).max() > 1e-6 or np.linalg.eigvalsh(herm).min() < -1e-6:
            probs.append("oracle: MLE choi is not positive semi-definite")
        pt = np.einsum(choi.reshape(d, d, d, d), [0, 1, 2, 1])
        if np.abs(pt - np.eye(d)).max() > 1e-2:
            probs.append(f"oracle: MLE choi is not trace preserving (partial trace off by {np.abs(pt - np.eye(d)).max():.3f})")
    else:
        f_v = (abs(np.trace(target.conj().T @ u)) ** 2 + d) / (d * (d + 1))
        want = f_v if lam == 0 else (1 - lam) * f_v + lam / d
        if abs(got - want) > TOL:
            probs.append(f"oracle: gate fidelity {got:.9f} differs from (|tr(U^dag V)|^2+d)/(d(d+1)) for the V of the "
                         f"current base circuit" + ("" if lam == 0 else f" and depolarising noise {lam_s}")
                         + f" = {want:.9f}")
        try:
            if tomo.fidelity != got:
                probs.append("oracle: .fidelity differs from the value process() returned")
        except Exception as e:  # noqa: BLE001
            probs.append(f"oracle: .fidelity raised {exc_class(e)}")
    # ---- RETAINED RESULTS: the very objects handed out now are kept (with a deep copy) and re-checked after
    #      every later step of the history, starting with the work of the fresh object below
    spec = {"ref": ref, "lam": lam, "want": want if cls == "gf" else None}
    if led is not None:
        probs += retain_call(ctx, led, tomo, cls, n, name, ("obj", o.get("key", 0)), o["calls"] + 1, raw, spec)
    # ---- a fresh object of the same class on the current base circuit and device
    frec = new_rec()
    fresh = CLS[cls](n, base, make_hist_experiment({"id": -1, "noise": lam_s, "kind": "function"}, frec, n, cache))
    try:
        fraw = fresh.process(target) if cls == "gf" else fresh.process()
        fgot = fraw if cls == "gf" else np.array(fraw)
    except Exception as e:  # noqa: BLE001
        probs.append(f"oracle: process() of a fresh {CLS[cls].__name__} on the same base circuit raised {exc_class(e)}")
        fgot = None
    if led is not None:
        probs += led.recheck(ctx, f"process() of another (fresh) {CLS[cls].__name__} on the same base circuit")
        if fgot is not None:
            info["fresh"] = info.get("fresh", 0) + 1
            probs += retain_call(ctx, led, fresh, cls, n, f"fresh {CLS[cls].__name__} #{info['fresh']} (n = {n})",
                                 ("fresh", info["fresh"]), 1, fraw, spec)
    if fgot is not None:
        ctx.count("hist:compared-with-fresh-object")
        if cls == "gf":
            if abs(got - fgot) > FRESH_TOL:
                probs.append(f"oracle: gate fidelity {got:.9f} differs from the {fgot:.9f} a fresh GateFidelity on the "
                             f"same base circuit, experiment and target returns")
        elif got.shape != fgot.shape or not np.all(np.abs(got - fgot) <= (FRESH_TOL if cls == "li" else 1e-6)):
            probs.append(f"oracle: choi differs from the choi of a fresh {CLS[cls].__name__} on the same base circuit "
                         f"and experiment (max {np.abs(got - fgot).max():.3f})")
        if rec["calls"] and len(rec["circuits"]) == len(frec["circuits"]) == len(rec["inputs"]):
            for k, (a, b) in enumerate(zip(rec["circuits"], frec["circuits"])):
                oa, ob = cg.observe(a), cg.observe(b)
                if (oa["n"], oa["input_modes"], oa["in_heralds"], oa["out_heralds"]) != \
                        (ob["n"], ob["input_modes"], ob["in_heralds"], ob["out_heralds"]) \
                        or "U_full" not in oa or "U_full" not in ob \
                        or not np.all(np.abs(oa["U_full"] - ob["U_full"]) <= 1e-12):
                    probs.append(f"oracle: requested circuit #{k} differs from the circuit a fresh "
                                 f"{CLS[cls].__name__} on the same base circuit requests (stale circuit?)")
                    break
                if list(rec["inputs"][k]) != list(frec["inputs"][k]):
                    probs.append(f"oracle: input state #{k} differs from the one a fresh object hands over")
                    break
    # ---- the model on the data of the current configuration / on the cumulative program
    order = c15.observe_order(ctx, n)
    budget_ok = True
    if n == 2 and _HIST_BUDGET["n2_model"] is not None:
        budget_ok = _HIST_BUDGET["n2_model"] > 0
    if cls == "mle":
        ctx.count("hist:mle:oracle-only")
    elif fgot is not None and len(frec["returned"]) == n_exp and budget_ok:
        if n == 2 and _HIST_BUDGET["n2_model"] is not None:
            _HIST_BUDGET["n2_model"] -= 1
        mres = [[[list(k), tm.float_exact(val)] for k, val in items] for items in frec["returned"]]
        if cls == "li":
            m = ctx.model.call({"op": "ptomo", "kind": "li_data", "n": n, "order": order, "results": mres})
            if "error" in m:
                probs.append(f"corr: model LI rejects the data of the current configuration: {m['error']}")
            elif not np.all(np.abs(got - tm.q2mat(m["choi"])) <= TOL):
                probs.append("corr: LI choi differs from the model's LI on the data of the current configuration")
        else:
            m = ctx.model.call({"op": "ptomo", "kind": "gf_data", "n": n, "order": order, "results": mres,
                                "target": float_target(target)})
            if "error" in m:
                probs.append(f"corr: model gate fidelity rejects the data of the current configuration: {m['error']}")
            elif abs(got - tm.q2c(m["fidelity"]).real) > TOL:
                probs.append(f"corr: gate fidelity {got:.9f} differs from the model on the data of the current "
                             f"configuration {tm.q2c(m['fidelity']).real:.9f}")
        ctx.count(f"hist:model-on-data:{cls}")
    elif cls != "mle":
        ctx.count("hist:n=2 model budget used up:oracle-only")
    mprog = hist_model_prog(o["b"]["cum"], ptab)
    if mprog is None:
        ctx.count("hist:program-not-modelable:oracle-only")
    elif n == 1 and lam == 0 and cls == "li":
        m = ctx.model.call({"op": "ptomo", "kind": "li_born", "n": n, "prog": mprog, "order": order,
                            "check_system": True})
        if "error" in m:
            probs.append(f"corr: model LI fails on the Born tables of the cumulative program: {m['error']}")
        else:
            if not (m["choi_is_ref"] and m["solves_system"]):
                probs.append("corr: model LI result is not the reference Choi matrix / does not solve the system")
            if not np.all(np.abs(got - tm.q2mat(m["choi"])) <= TOL):
                probs.append("corr: LI choi differs from the model on the cumulative program of the history")
        ctx.count("hist:model-on-cumulative-program:li")
    elif n == 1 and lam == 0 and cls == "gf" and st.get("target") == "mat":
        m = ctx.model.call({"op": "ptomo", "kind": "gf_born", "n": n, "prog": mprog, "order": order,
                            "target": st["mat"]})
        if "error" in m:
            probs.append(f"corr: model gate fidelity fails on the cumulative program: {m['error']}")
        else:
            if not m["matches_formula"]:
                probs.append("corr: model gate fidelity differs from the closed formula (theorem contradicted?)")
            if abs(got - tm.q2c(m["fidelity"]).real) > TOL:
                probs.append(f"corr: gate fidelity {got:.9f} differs from the model on the cumulative program "
                             f"{tm.q2c(m['fidelity']).real:.9f}")
        ctx.count("hist:model-on-cumulative-program:gf")
    # ---- bookkeeping
    after = cg.observe(base)
    if (before["n"], before["in_heralds"]) != (after["n"], after["in_heralds"]) or \
            not np.array_equal(before["U_full"], after["U_full"]):
        probs.append("oracle: process() modified the base circuit")
    if o["lastV"] is not None:
        for kind in o["pending"]:
            ctx.count(f"hist:process-after-{kind}")
        if not o["pending"]:
            ctx.count("hist:process-repeated-unchanged")
        if not same_up_to_phase(o["lastV"], u):
            info["v_changed"] += 1
        if o["last_lam"] != lam:
            info["noise_changed"] += 1
        if o["last_modes"] != base.n_modes:
            info["modes_changed"] += 1
    if lam > 0:
        ctx.count("hist:process-with-noisy-device")
    if o["firstV"] is None:
        o["firstV"] = u
    o["lastV"], o["last_lam"], o["last_modes"] = u, lam, base.n_modes
    if target is not None:
        o["last_target"] = target
    return probs


def run_hist(ctx: Ctx, case: dict, want_info: bool = False):
    n = case["n"]
    ptab = {pid: dict(v) for pid, v in case["params"].items()}
    pobj = {pid: lw.Parameter(param_value(v)) for pid, v in ptab.items()}
    main = {"circ": lw.Circuit(2 * n), "cum": []}
    objs: dict = {}
    cache: dict = {}
    probs: list[str] = []
    led = Ledger()
    info = {"processes": 0, "v_changed": 0, "noise_changed": 0, "modes_changed": 0, "ops": set(), "cls": set(),
            "ledger": led}
    order = c15.observe_order(ctx, n)
    if None in order or sorted(order) != sorted(tm.all_settings(n)):
        p = ["oracle: requested measurement circuits cannot be identified (see C15)"]
        return (p, info) if want_info else p
    for i, st in enumerate(case["steps"]):
        op = st["op"]
        if i and case["steps"][i - 1]["op"] not in ("new", "process"):
            # retained results describe the configuration they were computed for: changing the circuit, a
            # Parameter, the experiment or its arguments afterwards must not touch them
            probs += [x + f" [history step {i - 1}]" for x in
                      led.recheck(ctx, f"the step '{case['steps'][i - 1]['op']}' of the history")]
        if op == "new":
            b = main if not st.get("own") else {"circ": main["circ"].copy(), "cum": list(main["cum"])}
            rec = new_rec()
            cfg = dict(st["exp"])
            args = st.get("args")
            tomo = CLS[st["cls"]](n, b["circ"], make_hist_experiment(cfg, rec, n, cache),
                                  None if args is None else list(args))
            objs[st["obj"]] = {"cls": st["cls"], "key": st["obj"], "tomo": tomo, "rec": rec, "cfg": cfg, "args": args, "b": b,
                               "own": bool(st.get("own")), "calls": 0, "pending": set(), "lastV": None,
                               "firstV": None, "last_lam": None, "last_modes": None, "last_target": None}
            info["cls"].add(st["cls"])
            continue
        if op == "process":
            o = objs[st["obj"]]  # KeyError: a history that is not well formed (shrinking)
            p = check_hist_process(ctx, n, o, st, ptab, cache, info)
            o["calls"] += 1
            where = f" [history step {i}: process() call #{o['calls']} on this {CLS[o['cls']].__name__}" + \
                    (f", after {'+'.join(sorted(o['pending']))}" if o["pending"] else "") + "]"
            if p is not None:
                probs += [x + where for x in p]
                o["pending"] = set()
            continue
        info["ops"].add(op)
        tag = op
        touched = None  # objects whose configuration the step changes (None: by the base circuit they hold)
        if op == "extend":
            b = main if st.get("on", "main") == "main" else objs[st["on"]]["b"]
            before_modes = b["circ"].n_modes
            hist_apply(b["circ"], n, st["gates"], pobj, st["how"])
            b["cum"] += st["gates"]
            tag = "extend-" + st["how"] + ("-adding-heralds" if b["circ"].n_modes != before_modes else "")
            touched = [k for k, o in objs.items() if o["b"] is b]
        elif op == "setparam":
            ptab[st["pid"]] = {"kind": "phase", "k": st["k"]} if "k" in st else {"kind": "refl", "v": st["v"]}
            pobj[st["pid"]].set(param_value(ptab[st["pid"]]))
            touched = list(objs)
        elif op == "setexp":
            o = objs[st["obj"]]
            o["cfg"] = dict(st["exp"])
            o["tomo"].experiment = make_hist_experiment(o["cfg"], o["rec"], n, cache)
            touched = [st["obj"]]
        elif op == "setargs":
            o = objs[st["obj"]]
            o["args"] = st["args"]
            o["tomo"].experiment_args = None if st["args"] is None else list(st["args"])
            touched = [st["obj"]]
        else:
            raise AssertionError(f"unknown history step {op}")
        for k in touched:
            objs[k]["pending"].add(tag)
    if case["steps"] and case["steps"][-1]["op"] not in ("new", "process"):
        probs += [x + f" [history step {len(case['steps']) - 1}]" for x in
                  led.recheck(ctx, f"the step '{case['steps'][-1]['op']}' of the history")]
    return (probs, info) if want_info else probs


def rand_hist_exp(rng, ids: list, noise: str | None = None) -> dict:
    ids[0] += 1
    if noise is None:
        noise = rng.choices(NOISES, weights=[60, 15, 15, 10])[0]
    return {"id": ids[0], "noise": noise, "kind": rng.choice(["function", "function", "method", "lambda"])}


def rand_process_steps(rng, n: int, obj: int, cls: str, prog: list) -> list:
    if cls != "gf":
        return [{"op": "process", "obj": obj}]
    out = []
    for _ in range(rng.choices([1, 2, 3], weights=[55, 35, 10])[0]):
        kind = rng.choices(["V", "prevV", "firstV", "prev", "mat"], weights=[30, 15, 10, 10, 35])[0]
        tj, _ = rand_target(rng, n, prog)
        out.append({"op": "process", "obj": obj, "target": kind, "mat": tj})
    return out


def gen_hist_case(ctx: Ctx, rng) -> dict:
    cls0 = rng.choices(["gf", "li", "mle"], weights=[45, 35, 20])[0]
    n = 1 if cls0 == "mle" else rng.choices([1, 2], weights=[70, 30])[0]
    # heralded two-qubit gates (ancilla modes appear between two calls) are costly: a small share
    prog = tm.rand_gate_program(rng, n, max_len=2 + 2 * n, max_her=1 if rng.random() < 0.1 else 0)
    if len(prog) < 2:
        prog = [["H", 0], *prog, [rng.choice(["S", "T", "SX", "Y"]), rng.randrange(n)]]
    params: dict = {}
    for _ in range(rng.choice([0, 0, 1, 1, 2])):
        pid = str(len(params))
        q = rng.randrange(n)
        if rng.random() < 0.75:
            params[pid] = {"kind": "phase", "k": rng.randrange(8)}
            gate = ["PPS", q, rng.randint(0, 1), pid]
        else:
            params[pid] = {"kind": "refl", "v": rng.choice([0.0, 0.5, 1.0, round(rng.random(), 3)])}
            gate = ["PBS", q, pid]
        prog.insert(rng.randint(0, len(prog)), gate)
    rounds = rng.choice([2, 2, 3]) if cls0 == "mle" else rng.choice([2, 3, 3, 4])
    cuts = sorted(rng.randint(0, len(prog)) for _ in range(rounds - 1))
    if cuts[0] == len(prog):
        cuts[0] = rng.randint(0, len(prog) - 1)  # something is left to add after the first process()
    chunks = [prog[a:b] for a, b in zip([0, *cuts], [*cuts, len(prog)])]
    ids = [0]
    n_obj = rng.choice([1, 1, 1, 2])
    news = []
    for k in range(n_obj):
        cls = cls0 if k == 0 else rng.choice(["gf", "li"] if n == 2 else ["gf", "li", "gf", "li", "mle"])
        args = None
        if rng.random() < 0.3:
            args = [] if rng.random() < 0.3 else [rng.choice(NOISES)]
        news.append({"op": "new", "obj": k, "cls": cls, "exp": rand_hist_exp(rng, ids), "args": args,
                     "own": k > 0 and rng.random() < 0.4})
    state = [dict(x) for x in news]  # what the generator believes about each object
    early = rng.random() < 0.4  # construct -> mutate -> use   /   build the circuit -> construct -> use
    steps: list = list(news) if early else []
    for r, chunk in enumerate(chunks):
        if chunk:
            own = [k for k, x in enumerate(state) if x["own"]]
            on = rng.choice(own) if (own and r > 0 and rng.random() < 0.25) else "main"
            steps.append({"op": "extend", "gates": chunk, "how": rng.choice(["each", "each", "sub", "group"]),
                          "on": on})
        if r == 0 and not early:
            steps += news
        if r > 0:
            if params and rng.random() < 0.6:
                pid = rng.choice(list(params))
                if params[pid]["kind"] == "phase":
                    steps.append({"op": "setparam", "pid": pid, "k": (params[pid]["k"] + rng.randint(1, 7)) % 8})
                else:
                    steps.append({"op": "setparam", "pid": pid,
                                  "v": rng.choice([0.0, 0.5, 1.0, round(rng.random(), 3)])})
            k = rng.randrange(n_obj)
            x = rng.random()
            if x < 0.25:
                cur = state[k]["exp"]["noise"]
                noise = rng.choice([v for v in NOISES if v != cur]) if rng.random() < 0.7 else cur
                cfg = rand_hist_exp(rng, ids, noise)
                steps.append({"op": "setexp", "obj": k, "exp": cfg})
                state[k]["exp"] = cfg
            elif x < 0.5:
                cur = state[k]["args"]
                args = rng.choice([None, [], *[[v] for v in NOISES if [v] != cur]])
                steps.append({"op": "setargs", "obj": k, "args": args})
                state[k]["args"] = args
        who = [rng.randrange(n_obj)] if rng.random() < 0.6 else list(range(n_obj))
        if rng.random() < 0.15:
            who = [*who, who[0]]  # repeated call without any change
        for k in who:
            steps += rand_process_steps(rng, n, k, state[k]["cls"], prog)
    return {"stream": "hist", "n": n, "params": params, "steps": steps}


def _exp(i: int, noise: str = "0", kind: str = "function") -> dict:
    return {"id": i, "noise": noise, "kind": kind}


_H = [["0,0,1/2,0", "0,0,1/2,0"], ["0,0,1/2,0", "0,0,-1/2,0"]]  # Hadamard in Q(i, sqrt2)
_SH = [["0,0,1/2,0", "0,0,1/2,0"], ["0,0,0,1/2", "0,0,0,-1/2"]]  # S.H
_O, _I = "0,0", "1,0"
_X = [[_O, _I], [_I, _O]]
_CNOT = [[_I, _O, _O, _O], [_O, _I, _O, _O], [_O, _O, _O, _I], [_O, _O, _I, _O]]

HIST_CORPUS = [
    # the circuit grows between two calls of one GateFidelity; targets: current V, the V of the first
    # call (stale data would report one), a fixed target, twice in a row
    {"stream": "hist", "n": 1, "params": {}, "steps": [
        {"op": "extend", "gates": [["H", 0]], "how": "each"},
        {"op": "new", "obj": 0, "cls": "gf", "exp": _exp(1), "args": None},
        {"op": "process", "obj": 0, "target": "V", "mat": _H},
        {"op": "extend", "gates": [["S", 0]], "how": "each"},
        {"op": "process", "obj": 0, "target": "V", "mat": _H},
        {"op": "process", "obj": 0, "target": "firstV", "mat": _H},
        {"op": "process", "obj": 0, "target": "mat", "mat": _H},
        {"op": "process", "obj": 0, "target": "mat", "mat": _SH}]},
    # a Parameter the base circuit depends on is swept: P(k pi/4).H
    {"stream": "hist", "n": 1, "params": {"0": {"kind": "phase", "k": 0}}, "steps": [
        {"op": "extend", "gates": [["H", 0], ["PPS", 0, 1, "0"]], "how": "each"},
        {"op": "new", "obj": 0, "cls": "gf", "exp": _exp(1, kind="method"), "args": []},
        {"op": "process", "obj": 0, "target": "V", "mat": _H},
        {"op": "process", "obj": 0, "target": "mat", "mat": _H},
        {"op": "setparam", "pid": "0", "k": 2},
        {"op": "process", "obj": 0, "target": "V", "mat": _H},
        {"op": "process", "obj": 0, "target": "prev", "mat": _H},
        {"op": "setparam", "pid": "0", "k": 4},
        {"op": "process", "obj": 0, "target": "prevV", "mat": _H},
        {"op": "process", "obj": 0, "target": "mat", "mat": _H}]},
    # linear inversion: object constructed on the empty circuit, one gate at a time (real -> complex)
    {"stream": "hist", "n": 1, "params": {}, "steps": [
        {"op": "new", "obj": 0, "cls": "li", "exp": _exp(1), "args": None},
        {"op": "process", "obj": 0},
        {"op": "extend", "gates": [["H", 0]], "how": "each"},
        {"op": "process", "obj": 0},
        {"op": "extend", "gates": [["S", 0]], "how": "sub"},
        {"op": "process", "obj": 0},
        {"op": "extend", "gates": [["T", 0]], "how": "group"},
        {"op": "process", "obj": 0},
        {"op": "process", "obj": 0}]},
    # maximum likelihood: grow, then change a reflectivity Parameter
    {"stream": "hist", "n": 1, "params": {"0": {"kind": "refl", "v": 0.5}}, "steps": [
        {"op": "extend", "gates": [["SX", 0]], "how": "each"},
        {"op": "new", "obj": 0, "cls": "mle", "exp": _exp(1), "args": None},
        {"op": "process", "obj": 0},
        {"op": "extend", "gates": [["T", 0], ["PBS", 0, "0"]], "how": "each"},
        {"op": "process", "obj": 0},
        {"op": "setparam", "pid": "0", "v": 1.0},
        {"op": "process", "obj": 0}]},
    # two qubits: product circuit -> entangling circuit; two different targets in a row
    {"stream": "hist", "n": 2, "params": {}, "steps": [
        {"op": "extend", "gates": [["H", 0]], "how": "each"},
        {"op": "new", "obj": 0, "cls": "gf", "exp": _exp(1), "args": None},
        {"op": "process", "obj": 0, "target": "V", "mat": _CNOT},
        {"op": "extend", "gates": [["CNOT", 0, 1, {"impl": "ps"}], ["S", 1]], "how": "group"},
        {"op": "process", "obj": 0, "target": "V", "mat": _CNOT},
        {"op": "process", "obj": 0, "target": "firstV", "mat": _CNOT},
        {"op": "process", "obj": 0, "target": "mat", "mat": _CNOT}]},
    # two qubits: a heralded gate is appended (ancilla modes appear) between two calls
    {"stream": "hist", "n": 2, "params": {}, "steps": [
        {"op": "extend", "gates": [["H", 0], ["SX", 1]], "how": "each"},
        {"op": "new", "obj": 0, "cls": "gf", "exp": _exp(1, kind="lambda"), "args": None},
        {"op": "process", "obj": 0, "target": "V", "mat": _CNOT},
        {"op": "extend", "gates": [["CZ", 0, 1, {"impl": "her"}]], "how": "each"},
        {"op": "process", "obj": 0, "target": "V", "mat": _CNOT}]},
    # two qubits, linear inversion and GateFidelity share the circuit; a sub-circuit is appended
    {"stream": "hist", "n": 2, "params": {}, "steps": [
        {"op": "new", "obj": 0, "cls": "li", "exp": _exp(1), "args": None},
        {"op": "new", "obj": 1, "cls": "gf", "exp": _exp(2, kind="method"), "args": None},
        {"op": "extend", "gates": [["SX", 0], ["H", 1]], "how": "each"},
        {"op": "process", "obj": 0},
        {"op": "process", "obj": 1, "target": "V", "mat": _CNOT},
        {"op": "extend", "gates": [["CZ", 0, 1, {"impl": "ps"}], ["T", 0]], "how": "sub"},
        {"op": "process", "obj": 0},
        {"op": "process", "obj": 1, "target": "prevV", "mat": _CNOT}]},
    # the device changes, not the circuit: noise through experiment_args, then a new experiment, then back
    {"stream": "hist", "n": 1, "params": {}, "steps": [
        {"op": "extend", "gates": [["H", 0], ["T", 0]], "how": "sub"},
        {"op": "new", "obj": 0, "cls": "gf", "exp": _exp(1), "args": None},
        {"op": "process", "obj": 0, "target": "mat", "mat": _SH},
        {"op": "setargs", "obj": 0, "args": ["1/2"]},
        {"op": "process", "obj": 0, "target": "prev", "mat": _SH},
        {"op": "setexp", "obj": 0, "exp": _exp(2, "1/4", "method")},
        {"op": "process", "obj": 0, "target": "V", "mat": _SH},
        {"op": "setargs", "obj": 0, "args": None},
        {"op": "process", "obj": 0, "target": "V", "mat": _SH},
        {"op": "setexp", "obj": 0, "exp": _exp(3, "0", "lambda")},
        {"op": "process", "obj": 0, "target": "V", "mat": _SH}]},
    # the same for linear inversion and maximum likelihood
    {"stream": "hist", "n": 1, "params": {}, "steps": [
        {"op": "extend", "gates": [["SX", 0], ["S", 0]], "how": "each"},
        {"op": "new", "obj": 0, "cls": "li", "exp": _exp(1, "1/4"), "args": None},
        {"op": "new", "obj": 1, "cls": "mle", "exp": _exp(2, "0"), "args": None},
        {"op": "process", "obj": 0},
        {"op": "process", "obj": 1},
        {"op": "setexp", "obj": 0, "exp": _exp(3, "0", "method")},
        {"op": "setargs", "obj": 1, "args": ["1/2"]},
        {"op": "process", "obj": 0},
        {"op": "process", "obj": 1},
        {"op": "setargs", "obj": 0, "args": ["1"]},
        {"op": "setargs", "obj": 1, "args": []},
        {"op": "process", "obj": 0},
        {"op": "process", "obj": 1}]},
    # three objects: two GateFidelity (one on its own copy of the circuit) and one LI; the shared circuit grows
    {"stream": "hist", "n": 1, "params": {"0": {"kind": "phase", "k": 1}}, "steps": [
        {"op": "extend", "gates": [["H", 0], ["PPS", 0, 0, "0"]], "how": "each"},
        {"op": "new", "obj": 0, "cls": "gf", "exp": _exp(1), "args": None},
        {"op": "new", "obj": 1, "cls": "li", "exp": _exp(2), "args": None},
        {"op": "new", "obj": 2, "cls": "gf", "exp": _exp(3), "args": None, "own": True},
        {"op": "process", "obj": 0, "target": "V", "mat": _X},
        {"op": "process", "obj": 1},
        {"op": "process", "obj": 2, "target": "V", "mat": _X},
        {"op": "extend", "gates": [["Y", 0], ["SX", 0]], "how": "each", "on": "main"},
        {"op": "process", "obj": 2, "target": "V", "mat": _X},
        {"op": "process", "obj": 0, "target": "V", "mat": _X},
        {"op": "process", "obj": 1},
        {"op": "setparam", "pid": "0", "k": 6},
        {"op": "extend", "gates": [["T", 0]], "how": "each", "on": 2},
        {"op": "process", "obj": 2, "target": "prevV", "mat": _X},
        {"op": "process", "obj": 0, "target": "mat", "mat": _X},
        {"op": "process", "obj": 1}]},
]


def shrink_hist(ctx: Ctx, case: dict, first: str) -> dict:
    def still(steps):
        try:
            return any(first in p for p in run_case(ctx, dict(case, steps=steps)))
        except Exception:  # noqa: BLE001  (a history that is no longer well formed)
            return False

    steps = ddmin(case["steps"], still, max_tests=40) if len(case["steps"]) > 1 else case["steps"]
    for k, st in enumerate(steps):
        if st["op"] == "extend" and len(st["gates"]) > 1:
            def still_g(gates, k=k, st=st):
                return still([*steps[:k], dict(st, gates=gates), *steps[k + 1:]])

            steps = [*steps[:k], dict(st, gates=ddmin(st["gates"], still_g, max_tests=12)), *steps[k + 1:]]
    return dict(case, steps=steps)


# --------------------------------------------------------------------------- retained results
#
# Clients keep what the three classes hand out: the arrays process() returns (`chois = [T(1, c, exp).process()
# for c in circuits]`), the objects themselves (`.choi`, `.fidelity(...)`, `.fidelity` read later), the
# reference matrices of choi_from_unitary.  A Ledger holds, for every value handed out, THE VERY OBJECT plus an
# independent deep copy taken at that time and the configuration (V, device) it was computed for, and
# re-checks all of them after every later step - the next process() of the same object, the work of OTHER
# objects of the same class and size, of other classes, of other sizes, changes of the circuit / device the
# result was computed from, a client post-processing one of the returned arrays in place:
#   * the very object still equals its deep copy and still satisfies the property's clauses for ITS
#     configuration; `.choi`, `.fidelity(reference)`, `.fidelity` of every object still report the result of
#     that object's last process();
#   * results of different process() calls (of one or of several objects) do not share memory, nor do they
#     share memory with arrays of the client (targets, references, unitaries handed in), which in turn are
#     left unmodified, as are the result dictionaries the experiment returned;
#   * writing into a returned array changes nothing but that array (and the `.choi` of the object that
#     returned it WHEN that is the very same ndarray, which is how the unchanged library hands it out: counted,
#     see SCRIBBLE_MAY_SHOW_IN_OWNER): not what other objects report, not results retained from other calls,
#     not what the next process() returns.
# The model has no notion of object identity: all of this is oracle-only.  The "keep" stream drives it with
# sequences over several jobs (class, n, circuit, device) - run / run again / run with a new object on the
# same circuit / extend the circuit / scribble on a retained array / choi_from_unitary; the "hist" stream
# keeps a ledger per history as well (including the fresh comparison objects it creates).

SCRIBBLES = ["zero", "scale", "elem", "adjoint"]
# process() returns the object's own `.choi` ndarray on the unchanged library (no defensive copy), so a client
# writing into the returned array is seen by `.choi` / `.fidelity(...)` of THAT object until its next
# process().  Counted and reported to the maintainers of the framework, not raised (set False to raise it).
SCRIBBLE_MAY_SHOW_IN_OWNER = True


def _same(a, b) -> bool:
    """a retained value against its deep copy (bit for bit; type, dtype and shape included)"""
    if isinstance(a, np.ndarray) or isinstance(b, np.ndarray):
        return isinstance(a, np.ndarray) and isinstance(b, np.ndarray) and a.shape == b.shape \
            and a.dtype == b.dtype and bool(np.array_equal(a, b, equal_nan=True))
    try:
        return type(a) is type(b) and bool(a == b)
    except Exception:  # noqa: BLE001
        return False


def _maxdiff(a, b) -> str:
    try:
        return f"{np.abs(np.asarray(a) - np.asarray(b)).max():.3g}"
    except Exception:  # noqa: BLE001
        return "shape/type"


def _overlap(a, b) -> bool:
    return isinstance(a, np.ndarray) and isinstance(b, np.ndarray) and np.may_share_memory(a, b) \
        and bool(np.shares_memory(a, b))


def choi_of_unitary(v: np.ndarray) -> np.ndarray:
    """Choi matrix of rho -> V rho V^dagger in the convention E(rho)[c,d] = sum_ab rho[a,b] C[(a,c),(b,d)]
    (the definition the "ref" stream checks choi_from_unitary against)"""
    d = v.shape[0]
    return np.einsum("ca,db->acbd", v, v.conj()).reshape(d * d, d * d)


def result_clauses(cls: str, n: int, value, spec: dict) -> list[str]:
    """the property's clauses for ONE result, for the configuration (V, device) it was computed for"""
    d = 2**n
    ref, lam = spec["ref"], spec["lam"]
    if cls == "gf":
        try:
            ok = abs(value - spec["want"]) <= TOL
        except Exception:  # noqa: BLE001
            ok = False
        return [] if ok else [(f"gate fidelity {value!r:.40} is not the (|tr(U^dag V)|^2+d)/(d(d+1)) = {spec['want']:.9f} "
                               f"of the target and circuit it was computed for")]
    choi = np.asarray(value)
    if choi.shape != ref.shape:
        return [f"Choi matrix of shape {choi.shape}, expected {ref.shape}"]
    if cls == "ref":
        return [] if np.all(np.abs(choi - ref) <= TOL) else \
            [f"choi_from_unitary(V) is not the Choi matrix of the V it was computed for (max {np.abs(choi - ref).max():.3f})"]
    out = []
    if cls == "li":
        want = ref if lam == 0 else (1 - lam) * ref + lam * np.eye(d * d) / d
        if not np.all(np.abs(choi - want) <= TOL):
            out.append("LI choi differs from choi_from_unitary(V) of the circuit it was computed for"
                       + ("" if lam == 0 else f" mixed with the depolarising channel (noise {lam})")
                       + f" (max {np.abs(choi - want).max():.3f})")
        return out
    if lam == 0:
        try:
            f = process_fidelity(choi, ref)
            if f < 0.99:
                out.append(f"MLE fidelity against choi_from_unitary(V) of the circuit it was computed for is {f:.4f} < 0.99")
        except Exception as e:  # noqa: BLE001
            out.append(f"process_fidelity of the MLE choi raised {exc_class(e)}")
    herm = (choi + choi.conj().T) / 2
    if np.abs(choi - herm).max() > 1e-6 or np.linalg.eigvalsh(herm).min() < -1e-6:
        out.append("MLE choi is not positive semi-definite")
    pt = np.einsum(choi.reshape(d, d, d, d), [0, 1, 2, 1])
    if np.abs(pt - np.eye(d)).max() > 1e-2:
        out.append(f"MLE choi is not trace preserving (partial trace off by {np.abs(pt - np.eye(d)).max():.3f})")
    return out


class Ledger:
    """every value handed out: the very object, a deep copy taken at the time, what it must satisfy"""

    def __init__(self) -> None:
        self.entries: list[dict] = []
        self.owners: dict = {}
        self.client: list[dict] = []
        self.rechecks = 0

    # -- registration
    def hand_in(self, arr: np.ndarray, what: str) -> None:
        """an array of the client that is handed to the library (target, reference, unitary)"""
        self.client.append({"raw": arr, "copy": np.array(arr, copy=True), "what": what})

    def keep(self, raw, what: str, call, cls: str, n: int, spec: dict):
        probs = []
        if isinstance(raw, np.ndarray):
            for e in self.entries:
                if e["call"] != call and _overlap(raw, e["raw"]):
                    probs.append(f"oracle: retained results alias each other: {what} "
                                 + ("IS the very ndarray" if raw is e["raw"] else "shares memory with") + f" {e['what']}")
            for h in self.client:
                if _overlap(raw, h["raw"]):
                    probs.append(f"oracle: retained results alias each other: {what} shares memory with {h['what']}")
        e = {"raw": raw, "copy": copy.deepcopy(raw), "what": what, "call": call, "cls": cls, "n": n, "spec": spec,
             "live": True}
        self.entries.append(e)
        return e, probs

    def set_owner(self, key, tomo, cls: str, name: str, entry: dict, attr, ref, fid) -> None:
        self.owners[key] = {"tomo": tomo, "cls": cls, "what": name, "entry": entry, "attr_copy": copy.deepcopy(attr),
                            "ref": ref, "fid": fid}

    # -- the client post-processes a returned array in place
    def scribble(self, ctx: Ctx, k: int, how: str):
        arrs = [e for e in self.entries if isinstance(e["raw"], np.ndarray) and e["raw"].ndim == 2]
        if not arrs:
            ctx.count("keep:nothing-to-scribble-on")
            return None
        e = arrs[k % len(arrs)]
        raw = e["raw"]
        if not raw.flags.writeable:
            ctx.count("keep:returned-array-is-read-only (not scribbled on)")
            return None
        if how == "zero":
            raw[...] = 0
        elif how == "scale":
            raw *= -2
        elif how == "elem":
            raw[0, -1] += 1
        else:
            raw[...] = raw.conj().T.copy() + 1j
        ctx.count("keep:scribble-" + how)
        e["copy"] = raw.copy()
        e["live"] = False
        if "(then written into by the client)" not in e["what"]:
            e["what"] += " (then written into by the client)"
        for o in self.owners.values():
            if o["entry"] is not e or o["cls"] == "gf":
                continue
            try:
                cur = o["tomo"].choi
            except Exception:  # noqa: BLE001, S112  (reported by the next recheck)
                continue
            if cur is raw or _overlap(cur, raw):
                ctx.count("keep:scribble-shows-in-.choi-of-the-object (process() returns the object's own ndarray)")
                if SCRIBBLE_MAY_SHOW_IN_OWNER:
                    o["attr_copy"] = copy.deepcopy(cur)
                    o["fid"] = None
            else:
                ctx.count("keep:scribble-on-a-copy (the object keeps its own array)")
        return e["what"]

    # -- re-check everything after a later step
    def recheck(self, ctx: Ctx, after: str, worked=None) -> list[str]:
        """`worked`: the object whose own process() is the step (its .choi / .fidelity now report the new result;
        what it handed out BEFORE stays on the books as entries)"""
        probs = []
        for e in self.entries:
            self.rechecks += 1
            if not _same(e["raw"], e["copy"]):
                probs.append(f"oracle: retained result changed: {e['what']} is no longer what was handed out "
                             f"(max difference {_maxdiff(e['raw'], e['copy'])}) after {after}")
                e["copy"] = copy.deepcopy(e["raw"])
                e["live"] = False
            elif e["live"]:
                bad = result_clauses(e["cls"], e["n"], e["raw"], e["spec"])
                if bad:
                    probs.append(f"oracle: retained result no longer satisfies its clauses: {e['what']}: {bad[0]}, after {after}")
                    e["live"] = False
        for h in self.client:
            if not _same(h["raw"], h["copy"]):
                probs.append(f"oracle: client array modified: {h['what']} (max difference "
                             f"{_maxdiff(h['raw'], h['copy'])}) after {after}")
                h["copy"] = np.array(h["raw"], copy=True)
        for key, o in self.owners.items():
            if key == worked:
                continue
            self.rechecks += 1
            attr = "fidelity" if o["cls"] == "gf" else "choi"
            try:
                cur = getattr(o["tomo"], attr)
            except Exception as e:  # noqa: BLE001
                probs.append(f"oracle: retained result changed: .{attr} of {o['what']} raises {exc_class(e)} after {after}")
                continue
            if not _same(cur, o["attr_copy"]):
                probs.append(f"oracle: retained result changed: .{attr} of {o['what']} no longer is what its last "
                             f"process() returned (max difference {_maxdiff(cur, o['attr_copy'])}) after {after}")
                o["attr_copy"] = copy.deepcopy(cur)
                o["fid"] = None
            elif o["cls"] != "gf" and o["fid"] is not None:
                try:
                    f = o["tomo"].fidelity(o["ref"])
                except Exception as e:  # noqa: BLE001
                    probs.append(f"oracle: retained result changed: .fidelity(choi_from_unitary(V)) of {o['what']} "
                                 f"raises {exc_class(e)} after {after}")
                    o["fid"] = None
                    continue
                if not abs(f - o["fid"]) <= 1e-12:
                    probs.append(f"oracle: retained result changed: .fidelity(choi_from_unitary(V)) of {o['what']} "
                                 f"now reports {f:.6f}, it reported {o['fid']:.6f} after its process(), after {after}")
                    o["fid"] = f
        return probs


def retain_call(ctx: Ctx, led: Ledger, tomo, cls: str, n: int, name: str, key, call_no: int, raw, spec: dict) -> list[str]:
    """register everything ONE process() call handed out and everything the object now reports"""
    call = (key, call_no)
    kind = "gate fidelity" if cls == "gf" else "Choi matrix"
    e, probs = led.keep(raw, f"the {kind} returned by process() call #{call_no} of {name}", call, cls, n, spec)
    try:
        if cls == "gf":
            attr = tomo.fidelity
            if not _same(attr, raw):
                probs.append(f"oracle: .fidelity of {name} differs from the value its process() returned")
            led.set_owner(key, tomo, cls, name, e, attr, None, None)
            return probs
        attr = tomo.choi
        if attr is raw:
            ctx.count("keep:.choi-is-the-returned-ndarray")
        elif not _same(np.asarray(attr), np.asarray(raw)):
            probs.append(f"oracle: .choi of {name} differs from the matrix its process() returned")
        elif isinstance(attr, np.ndarray):
            _, p2 = led.keep(attr, f".choi of {name} read after its process() call #{call_no}", call, cls, n, spec)
            probs += p2
        ref_in = np.array(spec["ref"], copy=True)
        led.hand_in(ref_in, f"the reference matrix handed to .fidelity() of {name}")
        fid = tomo.fidelity(ref_in)
        led.set_owner(key, tomo, cls, name, e, attr, ref_in, fid)
    except Exception as ex:  # noqa: BLE001
        probs.append(f"oracle: reading the results of {name} after process() raised {exc_class(ex)}: {ex}")
    return probs


def make_keep_experiment(cfg: dict, rec: dict, n: int, cache: dict, held: list):
    """the device callback of the histories; the dictionaries it returns stay with the client (held)"""
    inner = make_hist_experiment(dict(cfg, kind="function"), rec, n, cache)

    def experiment(circuits, inputs, *extra):
        out = inner(circuits, inputs, *extra)
        held.append((out, [dict(x) for x in out]))
        return out

    return experiment


def keep_process(ctx: Ctx, led: Ledger, jobs: list, st: dict, cache: dict, info: dict):
    """one process() call of the "keep" stream: (problems, description of the step)"""
    j = st["job"]
    jb = jobs[j]
    cls, n = jb["cls"], jb["n"]
    d = 2**n
    probs: list[str] = []
    u = normalise_unitary(transfer_matrix(jb["circ"], n))
    if u is None:
        ctx.count("keep:not-unitary (call skipped)")
        return probs, None
    if jb["tomo"] is None or st.get("fresh"):
        if jb["tomo"] is not None:
            ctx.count("keep:new-object-on-a-circuit-measured-before")
        jb["objs"] += 1
        jb["calls"] = 0
        jb["rec"] = new_rec()
        jb["tomo"] = CLS[cls](n, jb["circ"], make_keep_experiment({"id": j, "noise": jb["noise"]}, jb["rec"], n, cache,
                                                                jb["held"]))
    tomo = jb["tomo"]
    jb["calls"] += 1
    key = ("job", j, jb["objs"])
    name = f"{CLS[cls].__name__} #{j}.{jb['objs']} (n = {n})"
    ref = np.array(choi_from_unitary(u))
    lam = float(Fraction(jb["noise"]))
    spec = {"ref": ref, "lam": lam, "want": None}
    target = None
    if cls == "gf":
        target = np.array(u) if st.get("target", "V") == "V" else tm.q2mat(st["mat"])
        led.hand_in(target, f"the target matrix handed to process() call #{jb['calls']} of {name}")
        f_v = (abs(np.trace(target.conj().T @ u)) ** 2 + d) / (d * (d + 1))
        spec["want"] = f_v if lam == 0 else (1 - lam) * f_v + lam / d
    # whose results are on the books while this object works
    for k2, o in led.owners.items():
        if k2 == key:
            rel = "the-same-object"
        else:
            same_n = o["entry"]["n"] == n
            rel = ("another-object-of-the-same-class" if o["cls"] == cls else "an-object-of-another-class") + \
                  ("-and-size" if same_n else "-of-another-size")
            info["after_other"] += 1
        ctx.count("keep:retained-while-" + rel + "-works")
    jb["held"].clear()
    reset_rec(jb["rec"])
    try:
        raw = tomo.process(target) if cls == "gf" else tomo.process()
    except Exception as e:  # noqa: BLE001
        return [f"oracle: {CLS[cls].__name__}.process() raised {exc_class(e)} on noiseless data: {e}"], None
    info["runs"] += 1
    ctx.count(f"keep:process-{cls}-n={n}" + ("" if lam == 0 else "-noisy-device"))
    after = f"process() call #{jb['calls']} of {name}"
    probs += led.recheck(ctx, after, worked=key)
    for very, cp in jb["held"]:
        if len(very) != len(cp) or any(dict(a) != b for a, b in zip(very, cp)):
            probs.append(f"oracle: client data modified: {after} changed the result dictionaries the experiment returned")
    if cls != "gf" and not isinstance(raw, np.ndarray):
        ctx.count("keep:process()-does-not-return-an-ndarray")
    probs += [f"oracle: {x} [right after {after}]" for x in result_clauses(cls, n, raw, spec)]
    probs += retain_call(ctx, led, tomo, cls, n, name, key, jb["calls"], raw, spec)
    o = led.owners.get(key)
    if o is not None and cls != "gf" and lam == 0 and o["fid"] is not None and \
            ((cls == "li" and abs(o["fid"] - 1) > FID_TOL) or (cls == "mle" and o["fid"] < 0.99)):
        probs.append(f"oracle: {name} reports the fidelity {o['fid']:.6f} against choi_from_unitary(V) "
                     f"[right after {after}]")
    return probs, after


def run_keep(ctx: Ctx, case: dict, want_info: bool = False):
    led = Ledger()
    cache: dict = {}
    probs: list[str] = []
    info = {"runs": 0, "after_other": 0, "ledger": led}
    jobs = [{"cls": s["cls"], "n": s["n"], "noise": s.get("noise", "0"), "circ": tm.build_base(s["n"], s["prog"]),
             "tomo": None, "rec": None, "objs": 0, "calls": 0, "held": []} for s in case["jobs"]]
    for i, st in enumerate(case["steps"]):
        op = st["op"]
        where = f" [step {i} of the sequence]"
        if op == "run":
            p, after = keep_process(ctx, led, jobs, st, cache, info)
            probs += [x + where for x in p]
            continue  # (re-checked inside, between the call and the registration of its results)
        if op == "extend":
            tm.extend_base(jobs[st["job"]]["circ"], st["gates"])
            ctx.count("keep:circuit-extended-after-its-results-were-handed-out")
            after = f"the base circuit of job {st['job']} was extended in place"
        elif op == "scribble":
            w = led.scribble(ctx, st["entry"], st["how"])
            if w is None:
                continue
            after = f"the client wrote into {w} ({st['how']})"
        elif op == "ref":
            jb = jobs[st["job"]]
            u = normalise_unitary(transfer_matrix(jb["circ"], jb["n"]))
            if u is None:
                continue
            u_in = np.array(u, copy=True)
            led.hand_in(u_in, f"the unitary handed to choi_from_unitary at step {i}")
            try:
                raw = choi_from_unitary(u_in)
            except Exception as e:  # noqa: BLE001
                probs.append(f"oracle: choi_from_unitary raised {exc_class(e)}{where}")
                continue
            ctx.count("keep:choi_from_unitary-result-retained")
            spec = {"ref": choi_of_unitary(u), "lam": 0.0, "want": None}
            probs += [f"oracle: {x}{where}" for x in result_clauses("ref", jb["n"], raw, spec)]
            _, p2 = led.keep(raw, f"the matrix returned by choi_from_unitary at step {i}", ("ref", i), "ref", jb["n"], spec)
            probs += [x + where for x in p2]
            after = f"choi_from_unitary at step {i}"
        else:
            raise AssertionError(f"unknown step {op}")
        probs += [x + where for x in led.recheck(ctx, after)]
    return (probs, info) if want_info else probs


def gen_keep_case(ctx: Ctx, rng) -> dict:
    jobs: list = []
    for k in range(rng.choice([2, 3, 3, 4])):
        cls = rng.choices(["mle", "li", "gf"], weights=[40, 30, 30])[0]
        n = None
        if k == 1 and rng.random() < 0.6:  # two objects of one class and size on different circuits
            cls, n = jobs[0]["cls"], jobs[0]["n"]
        if n is None:
            n = rng.choices([1, 2], weights=[75, 25])[0]
            if cls == "mle" and not (ctx.thorough and rng.random() < 0.08):
                n = 1  # (quick tier: MLE at n = 1)
        prog = tm.rand_gate_program(rng, n, max_len=1 + 2 * n, max_her=0)
        if not prog:
            prog = [[rng.choice(["H", "S", "T", "SX", "Y"]), rng.randrange(n)]]
        jobs.append({"cls": cls, "n": n, "prog": prog, "noise": rng.choices(NOISES, weights=[82, 7, 7, 4])[0]})

    def run_step(j: int, fresh: bool = False) -> dict:
        st = {"op": "run", "job": j}
        if fresh:
            st["fresh"] = True
        if jobs[j]["cls"] == "gf":
            st["target"] = rng.choice(["V", "mat"])
            st["mat"], _ = rand_target(rng, jobs[j]["n"], [])
        return st

    first = list(range(len(jobs)))
    rng.shuffle(first)
    steps = [run_step(j) for j in first]
    for _ in range(rng.randint(2, 7)):
        x = rng.random()
        j = rng.randrange(len(jobs))
        if x < 0.5:
            steps.append(run_step(j, fresh=rng.random() < 0.25))
        elif x < 0.68:
            q = rng.randrange(jobs[j]["n"])
            if rng.random() < 0.5:
                g = [rng.choice(["H", "X", "Y", "Z", "S", "Sadj", "T", "Tadj", "SX"]), q]
            else:
                uu = cg.exact_unitary(rng, 2, depth=rng.randint(1, 3))
                g = ["U", q, [[x.s() for x in row] for row in uu]]
            steps += [{"op": "extend", "job": j, "gates": [g]}, run_step(j)]
        elif x < 0.88:
            steps.append({"op": "scribble", "entry": rng.randrange(64), "how": rng.choice(SCRIBBLES)})
        else:
            steps.append({"op": "ref", "job": j})
    # scribbles also early: between the first runs
    if rng.random() < 0.3:
        steps.insert(rng.randint(1, len(jobs)), {"op": "scribble", "entry": rng.randrange(64), "how": rng.choice(SCRIBBLES)})
    return {"stream": "keep", "jobs": jobs, "steps": steps}


def _run(j: int, target: str | None = None, mat=None, fresh: bool = False) -> dict:
    st: dict = {"op": "run", "job": j}
    if target:
        st.update(target=target, mat=mat)
    if fresh:
        st["fresh"] = True
    return st


_PS = {"impl": "ps"}
KEEP_CORPUS = [
    # several gates are characterised by maximum likelihood one after the other (one object per gate), the
    # results are looked at afterwards; the first object is used again on its grown circuit; a new object on a
    # circuit measured before; the client zeroes one returned matrix
    {"stream": "keep", "jobs": [{"cls": "mle", "n": 1, "prog": [["H", 0]]},
                                {"cls": "mle", "n": 1, "prog": [["H", 0], ["S", 0]]},
                                {"cls": "mle", "n": 1, "prog": [["T", 0], ["SX", 0]]}],
     "steps": [_run(0), _run(1), _run(2), {"op": "extend", "job": 0, "gates": [["Y", 0]]}, _run(0),
               _run(1, fresh=True), {"op": "scribble", "entry": 0, "how": "zero"}, _run(2), _run(0)]},
    # all three classes, both sizes, in one process: results of each survive the work of all the others
    {"stream": "keep", "jobs": [{"cls": "li", "n": 1, "prog": [["SX", 0]]},
                                {"cls": "gf", "n": 1, "prog": [["H", 0], ["S", 0]]},
                                {"cls": "li", "n": 2, "prog": [["H", 0], ["CNOT", 0, 1, _PS], ["S", 1]]},
                                {"cls": "gf", "n": 2, "prog": [["SX", 1], ["CZ", 0, 1, _PS]]},
                                {"cls": "mle", "n": 1, "prog": [["T", 0], ["H", 0]]},
                                {"cls": "li", "n": 1, "prog": [["S", 0], ["H", 0]]}],
     "steps": [_run(0), _run(1, "V", _H), _run(2), _run(3, "mat", _CNOT), _run(4), _run(5), _run(1, "mat", _H),
               {"op": "ref", "job": 0}, {"op": "scribble", "entry": 0, "how": "scale"}, _run(0), _run(2, fresh=True),
               {"op": "scribble", "entry": 5, "how": "elem"}, _run(4), {"op": "ref", "job": 0}, _run(5)]},
    # two LI and two GateFidelity objects of one size on different gates, interleaved; one device is noisy
    {"stream": "keep", "jobs": [{"cls": "li", "n": 1, "prog": [["H", 0]]},
                                {"cls": "li", "n": 1, "prog": [["S", 0], ["H", 0]], "noise": "1/4"},
                                {"cls": "gf", "n": 1, "prog": [["T", 0]]},
                                {"cls": "gf", "n": 1, "prog": [["SX", 0], ["S", 0]]}],
     "steps": [_run(0), _run(1), _run(2, "V", _X), _run(3, "V", _X), _run(0), _run(3, "mat", _X),
               {"op": "extend", "job": 1, "gates": [["T", 0]]}, _run(1), {"op": "scribble", "entry": 1, "how": "adjoint"},
               _run(0, fresh=True), _run(2, "mat", _SH), _run(1)]},
    # one MLE object hands out a matrix per stage of its growing circuit; a second MLE and an LI object of the
    # same size work in between
    {"stream": "keep", "jobs": [{"cls": "mle", "n": 1, "prog": [["SX", 0]]},
                                {"cls": "mle", "n": 1, "prog": [["Y", 0], ["T", 0]], "noise": "1/2"},
                                {"cls": "li", "n": 1, "prog": [["H", 0], ["T", 0]]}],
     "steps": [_run(0), _run(2), {"op": "extend", "job": 0, "gates": [["S", 0]]}, _run(0), _run(1), _run(2),
               {"op": "extend", "job": 0, "gates": [["H", 0]]}, _run(0), {"op": "scribble", "entry": 2, "how": "scale"},
               _run(1), _run(0)]},
]


# --------------------------------------------------------------------------- driver of the check


def run_case(ctx: Ctx, case: dict) -> list[str]:
    return {"proc": run_proc, "data": run_data, "ref": run_ref, "init": run_init,
            "hist": run_hist, "keep": run_keep, "proj": mleproj.run_case}[case["stream"]](ctx, case)


def report(ctx: Ctx, case: dict, probs: list[str]) -> None:
    # a problem must reproduce on identical input in this process (the property is deterministic)
    again = run_case(ctx, case)
    if not again:
        ctx.count("transient_problem_not_reproduced")
        ctx.notes.append(f"transient, not reproduced on identical input: {probs[0][:120]}")
        return
    probs = again
    ctx.count("cases_with_problems")
    small = case
    if case["stream"] in ("proc", "ref") and len(case["prog"]) > 1:
        first = probs[0].split(":")[1].strip()[:25]

        def still(sub):
            try:
                return any(first in p for p in run_case(ctx, dict(case, prog=sub)))
            except Exception:  # noqa: BLE001
                return False

        small = dict(case, prog=ddmin(case["prog"], still, max_tests=40))
        probs = run_case(ctx, small) or probs
    elif case["stream"] in ("hist", "keep") and len(ctx.violations) < ctx.max_reports:  # (later ones are only counted)
        lead = [p for p in probs if p.startswith("oracle")] or probs
        small = shrink_hist(ctx, case, lead[0].split(":")[1].strip()[:25])
        probs = run_case(ctx, small) or probs
    oracle = [p for p in probs if p.startswith("oracle")]
    if oracle and case["stream"] in ("hist", "keep"):
        kind = "retained" if ("retained result" in oracle[0] or "client " in oracle[0]) else "history"
        rp = {"case": small, "problems": probs}
        if small is not case:
            # a regression that lives in process-wide state (module / class level caches) may have been shrunk
            # with that state already disturbed by the earlier runs: the replay falls back to the full sequence
            rp["unshrunk"] = case
        ctx.violation(oracle[0], rp, sig={"kind": kind, "stream": case["stream"]})
    elif oracle:
        kind = "mle" if "MLE" in oracle[0] else "choi-ref" if "choi" in oracle[0] else oracle[0].split(":")[1].strip()[:40]
        ctx.violation(oracle[0], {"case": small, "problems": probs}, sig={"kind": kind, "stream": case["stream"]})
    else:
        ctx.disagreement(probs[0], {"case": small, "problems": probs})


def run(ctx: Ctx) -> None:
    ctx.rule = ("proc stream: circuits implementing 1- and 2-qubit unitaries (named gates incl. S, T, SX, exact complex "
                "non-symmetric single-qubit unitaries, post-selected / heralded CZ and CNOT in both orientations, swaps) "
                "through LI, GateFidelity (target = V and a random exact target) and MLE (fixed share); non-trivial = "
                "V is not symmetric or not real (the cases on which row/column stacking and the transpose matter); "
                "distinct = distinct (n, program). data stream: synthetic callback data, ~60% malformed; ref stream: "
                "choi_from_unitary on the model's exact V; init stream: constructor validation; hist stream: long-lived "
                "LI / MLE / GateFidelity objects through process - extend the base circuit in place / set a Parameter / "
                "re-assign experiment or experiment_args - process again (several targets), one to three objects sharing "
                "the circuit or holding a copy, n = 1, 2 (MLE n = 1); non-trivial = V or the device changed between two "
                "calls on one object; distinct = distinct history. keep stream (RETAINED RESULTS, oracle-only): sequences "
                "over 2-6 jobs (class, n = 1 / 2, circuit, device; MLE at n = 1 in the quick tier) - process / process "
                "again / a new object on the same circuit / extend the circuit / the client writes into a returned "
                "array / choi_from_unitary; every value handed out (returned arrays and floats, .choi, .fidelity) is "
                "kept as the very object plus a deep copy and re-checked after every later step (unchanged, clauses "
                "of its own configuration, no shared memory between results of different calls, client arrays and "
                "experiment results left alone); the hist stream keeps such a ledger per history too; non-trivial = "
                "results were on the books while ANOTHER object worked; distinct = distinct sequence")
    rng = ctx.rng
    n_proc = ctx.n(32, 300)
    n_data = ctx.n(40, 500)
    n_ref = ctx.n(40, 400)
    n_init = ctx.n(30, 300)
    mle_model_budget = ctx.n(1, 10)
    n_hist = ctx.n(22, 300)
    n_keep = ctx.n(16, 200)
    _HIST_BUDGET["n2_model"] = ctx.n(8, 120)

    def one_hist(case, directed):
        probs, info = run_hist(ctx, case, want_info=True)
        ctx.count("hist:directed" if directed else f"hist:n={case['n']}")
        ctx.count("hist:objects=" + str(sum(1 for st in case["steps"] if st["op"] == "new")))
        for c in sorted(info["cls"]):
            ctx.count("hist:has-" + c)
        for op in sorted(info["ops"]):
            ctx.count("hist:has-" + op)
        if any(st["op"] == "new" and st.get("own") for st in case["steps"]):
            ctx.count("hist:has-object-on-its-own-copy-of-the-circuit")
        ctx.count("hist:process-calls", info["processes"])
        ctx.count("hist:retained-results-rechecked:oracle-only", info["ledger"].rechecks)
        for k in ("v_changed", "noise_changed", "modes_changed"):
            if info[k]:
                ctx.count(f"hist:{k}-between-calls", info[k])
        ctx.case(json.dumps(case, sort_keys=True), bool(info["v_changed"] or info["noise_changed"]),
                 sample=case if directed and case is HIST_CORPUS[0] else None)
        if probs:
            saved = _HIST_BUDGET["n2_model"]
            _HIST_BUDGET["n2_model"] = None
            try:
                report(ctx, case, probs)
            finally:
                _HIST_BUDGET["n2_model"] = saved

    def one_keep(case, directed):
        probs, info = run_keep(ctx, case, want_info=True)
        ctx.count("keep:directed" if directed else "keep:random")
        ctx.count("keep:oracle-only")
        ctx.count("keep:jobs=" + str(len(case["jobs"])))
        if len({j["n"] for j in case["jobs"]}) > 1:
            ctx.count("keep:has-objects-of-both-sizes")
        if len({j["cls"] for j in case["jobs"]}) > 1:
            ctx.count("keep:has-objects-of-several-classes")
        ctx.count("keep:process-calls", info["runs"])
        ctx.count("keep:retained-results-rechecked", info["ledger"].rechecks)
        ctx.case(json.dumps(case, sort_keys=True), bool(info["after_other"]),
                 sample=case if directed and case is KEEP_CORPUS[0] else None)
        if probs:
            report(ctx, case, probs)

    # the projection steps of the MLE optimiser against LW.Model.MLEProj (cheap, own random stream)
    mleproj.run_stream(ctx, random.Random(f"C16-proj-{ctx.seed}"), ctx.n(160, 2000), report)
    # directed histories first (the nastiest shapes), then the older streams, then random histories
    for case in KEEP_CORPUS:
        if ctx.out_of_time():
            break
        one_keep(case, True)
    for case in HIST_CORPUS:
        if ctx.out_of_time():
            break
        one_hist(case, True)
    for i in range(n_proc):
        if ctx.out_of_time():
            break
        case = gen_proc_case(ctx, rng, i)
        if case["n"] == 2 and case["mle"] and mle_model_budget > 0:
            case["mle_model"] = True
            mle_model_budget -= 1
        probs = run_proc(ctx, case)
        n = case["n"]
        ctx.count(f"proc:n={n}")
        for g in case["prog"]:
            if g[0] in ("CZ", "CNOT"):
                ctx.count(f"proc:{g[0]}-{g[3]['impl']}" + ("-reversed" if g[0] == "CNOT" and g[2] < g[1] else ""))
            elif g[0] in ("U", "SWAP", "S", "T", "SX", "Y", "H"):
                ctx.count("proc:" + g[0])
        v = transfer_matrix(tm.build_base(n, case["prog"]), n)
        u = normalise_unitary(v)
        nontriv = u is not None and (np.abs(u - u.T).max() > 1e-6 or np.abs(u.imag).max() > 1e-6)
        if u is not None and np.abs(u - u.T).max() > 1e-6:
            ctx.count("proc:non-symmetric V")
        if u is not None and np.abs(u.imag).max() > 1e-6:
            ctx.count("proc:complex V")
        ctx.case(json.dumps([n, case["prog"]]), bool(nontriv), sample=case if i < 2 else None)
        if probs:
            report(ctx, case, probs)
    for _ in range(n_ref):
        if ctx.out_of_time():
            break
        n = rng.choice([1, 1, 2])
        case = {"stream": "ref", "n": n, "prog": tm.rand_gate_program(rng, n, max_len=5, max_her=0)}
        case["prog"] = [[g[0], g[1], g[2], {"impl": "ps"}] if g[0] in ("CZ", "CNOT") else g for g in case["prog"]]
        probs = run_ref(ctx, case)
        ctx.case(json.dumps(["ref", n, case["prog"]]), False)
        ctx.count("ref")
        if probs:
            report(ctx, case, probs)
    for _ in range(n_data):
        if ctx.out_of_time():
            break
        case = gen_data_case(ctx, rng)
        probs = run_data(ctx, case)
        ctx.case(json.dumps(case, default=str)[:2000], False)
        if probs:
            report(ctx, case, probs)
    hrng = random.Random(f"C16-hist-{ctx.seed}")  # own stream: the older streams keep their cases per seed
    for _ in range(n_hist):
        if ctx.out_of_time():
            break
        one_hist(gen_hist_case(ctx, hrng), False)
    krng = random.Random(f"C16-keep-{ctx.seed}")  # own stream as well
    for _ in range(n_keep):
        if ctx.out_of_time():
            break
        one_keep(gen_keep_case(ctx, krng), False)
    for _ in range(n_init):
        if ctx.out_of_time():
            break
        case = c15.gen_init_case(ctx, rng)
        case["n"] = min(case["n"], 2)
        case["modes"] = rng.choice([2 * case["n"], 2 * case["n"], 2 * case["n"] + 1, 2 * case["n"] + 2])
        case["cls"] = rng.choice(["li", "mle", "gf"])
        case["stream"] = "init"
        probs = run_init(ctx, case)
        ctx.case(json.dumps(case), False)
        if probs:
            report(ctx, case, probs)


def replay(ctx: Ctx, path: str) -> None:
    data = json.load(open(path))
    case = data["replay"]["case"]
    _HIST_BUDGET["n2_model"] = None
    probs = run_case(ctx, case)
    if not probs and data["replay"].get("unshrunk"):
        print("replay: the shrunk case shows nothing in a fresh process; running the unshrunk sequence")
        probs = run_case(ctx, data["replay"]["unshrunk"])
    ctx.case("replay", True, sample=case)
    for p in probs:
        print("replay:", p)
        if p.startswith("oracle"):
            ctx.violation(p, data["replay"], sig={"kind": "replay"})
        else:
            ctx.disagreement(p, data["replay"])
