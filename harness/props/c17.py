"""
C17 — Result containers index consistently and mappings conserve weight.

Model: LW.Model.Result (SimResult, SampResult, thr/par, accum, recombine).  Theorems:
LW/Properties/C17.lean.

Two case kinds (generated from ctx.rng, replayable from their JSON form):
  sim   a SimulationResult built from an array (any shape incl. 0 rows / 0 columns, shape mismatches,
        invalid result types, duplicate states, real or complex dyadic values) and a list of queries:
        subscripts of every form and chains of 1-3 threshold/parity mappings (plain or inverted)
  samp  a SamplingResult built from counts, subscripts, chains of mappings
The form in which the values are handed to the constructor is a dimension of its own ("dtype" of a sim
case, "ctype" of a samp case): ndarrays of every numeric dtype (complex128/64, float64/32/16, signed and
unsigned integers, bool, object arrays holding Python ints / Fractions / floats / complex) and nested
Python lists, each crossed with every result type - in particular amplitude results that hold only real /
integer / boolean numbers and probability results stored in a complex array; counts as Python ints, floats,
Fractions, bools and numpy scalars.  "fan" queries apply several mappings to the SAME object (a chain applies
each mapping to the previous mapped result); every mapping call is followed by a check that the object it
was called on is unchanged.  A directed corpus (every dtype x both valid result types x all four mappings)
runs first.
Two further dimensions of every query sequence:
  * CALL FORMS of the mapping methods: `invert` handed over by keyword, positionally or not at all (default), as a bool, an
    int (1 / 0) or a numpy bool, for both classes (entries of a chain / fan are [kind, invert, form]);
  * USES: every public method that is not a mapping (display_as_dataframe with default / user thresholds given positionally or
    by keyword and both conv_to_probability settings, print_outputs, plot (Agg), str / repr, iteration, the accessors,
    dictionary access) as an intermediate step ("use" queries and "use" entries inside chains).  After every step every live
    object of the case (the constructed result and every mapped result made so far) must be bit-identical to what it was
    (array incl. dtype, nested values, lists) - in particular for values below the display thresholds (parts of size
    2^-40 .. 2^-60, negative ones, exact zeros, values below 0.05); objects the methods return (dataframes, mapped results,
    their arrays / lists / rows) are written to in place and the result is re-checked.
  * HAND-OUT probes on a twin object: what the accessors hand out directly (r.array, r.inputs / r.outputs, r[in] rows,
    s.outputs, the lists the caller passed in) is written to and coherence re-checked - an OBSERVATION only (ctx.notes,
    `handout-aliasing:observed`), the property does not promise it (see ASSUMPTIONS); derived objects are a normal oracle.
  * EQUAL-BUT-NOT-IDENTICAL arguments ("rtform" / "ctor" of a sim case): the result-type string is handed to the constructor
    as the source literal or as an equal string made at run time (joined from characters, sliced, decoded from bytes, read from
    JSON, concatenated, formatted, stripped, case-folded, taken from ANOTHER result's `.result_type` or from a mapped result's),
    as a str subclass / numpy.str_, or interned; by keyword or positionally.  Every clause (construction accepted / refused,
    mappings refused exactly for amplitude results, values, coherence) is evaluated as for the literal: the outcome may depend
    on the VALUE of the string only.  `invert` is also given as float 1.0 / 0.0 and numpy integers (equal to True / False, not
    the singletons).  SamplingResult has no string-valued argument.
Values are dyadic rationals, so the floats the implementation sees are exact and so are its sums.
The iteration order of the Python set in `_recombine_mapped_result` is observed on the
implementation and handed to the model as its column order (it must enumerate the model's image
set exactly once each); everything else is compared in order.
"""

from __future__ import annotations

import contextlib
import io
import json
import warnings
from fractions import Fraction

import numpy as np

import lightworks as lw
from core import GQ, Ctx, MachineryFault, ddmin, frac_str
from lightworks.emulator.results.sampling_result import SamplingResult
from lightworks.emulator.results.simulation_result import SimulationResult

State = lw.State
TOL = 1e-9

TRUSTED = [
    "Lean 4.33 kernel; Mathlib v4.33 as compiled on this image",
    "axioms: subset of {propext, Classical.choice, Quot.sound} (audited per theorem on every run)",
    "hand-written model LW.Model.Result tied to the code by this correspondence check",
    "Python dict semantics (insertion order, later value wins) and numpy 2-d indexing / zeros / element assignment",
    "iteration order of a Python set is arbitrary: observed on the implementation and passed to the model as a tape",
    "State equality / hashing go by contents (property C18)",
    "driver JSON parser and harness comparison code",
]
ASSUMPTIONS = [
    "correspondence check: <= 4 (thorough 6) inputs, <= 7 (12) outputs, states of <= 4 modes with occupations in [-2, 5], "
    "chains of <= 3 (4) mappings "
    "(theorems are unbounded)",
    "values are dyadic rationals (exact in binary floating point); comparisons use 1e-9",
    "a result labelled 'probability' holds real values (complex values under that label lose their imaginary part in numpy "
    "with a ComplexWarning; recorded as a note, not counted): for such results, and for arrays of dtype bool (numpy adds "
    "booleans with `or`), only acceptance/refusal, the image set, indexing coherence and that the source is unchanged "
    "are checked on a mapping, not the mapped values (oracle-only, the model is not asked)",
    "integer dtypes hold values whose sums stay inside the dtype (no int8/uint8 wrap-around is provoked)",
    "nested-list input has >= 1 row (an empty list is a 1-d array for numpy; not generated)",
    "the client does not write into r.array, r.inputs / r.outputs, r[in] rows, s.outputs or the lists it passed to the "
    "constructor (the accessors hand out the internal objects, numpy style; the check probes this on a twin object and records "
    "what it sees as an observation, not as a violation); objects that the methods RETURN (dataframes, figures, mapped results "
    "and their arrays / rows / output lists) may be written to freely and must not reach the result",
    "display methods (display_as_dataframe, print_outputs, plot) may refuse a content (counted, not judged); what they show is "
    "not part of this property - only that the result they were called on is bit-identical afterwards",
    "bool-like `invert` values are bool, int 1 / 0, float 1.0 / 0.0, numpy.bool_ and numpy.int64 1 / 0",
    "a result type is a str (or an instance of a str subclass) whose value decides; which object carries the value is the "
    "client's business",
]

# the direct hand-outs (see ASSUMPTIONS): False = observation only (coordinator's decision: the property does not promise that
# a result is immune to a client writing into the objects its accessors hand out)
ALIASING_IS_VIOLATION = False

# ------------------------------------------------------------------------------------- helpers


def val_str(v) -> str:
    re, im = v
    return f"{frac_str(Fraction(re))},{frac_str(Fraction(im))}"


def to_c(v) -> complex:
    return complex(float(Fraction(v[0])), float(Fraction(v[1])))


def parse_v(s: str) -> complex:
    return complex(GQ.parse(s))


def close(a, b) -> bool:
    return abs(complex(a) - complex(b)) <= TOL


def f_state(kind: str, inv: bool, s: list) -> list:
    if kind == "threshold":
        out = [1 if x >= 1 else 0 for x in s]
        return [1 - x for x in out] if inv else out
    return [1 - (x % 2) for x in s] if inv else [x % 2 for x in s]


def dedup(l: list) -> list:
    out = []
    for x in l:
        if x not in out:
            out.append(x)
    return out


def ires(f):
    try:
        return ("ok", f())
    except Exception as e:  # noqa: BLE001
        return ("err", type(e).__name__)


def mclass(r: dict, op: str):
    if "err" in r:
        c = r["err"]
        if c == "Exception":
            c = {"new": "ResultCreationError", "get": "KeyError", "get_empty_tuple": "IndexError", "map": "KeyError"}[op]
        return ("err", c)
    return ("ok", r["ok"])


# ------------------------------------------------------------------------------------- generation


def gen_states(rng, k: int, modes: int, dup: bool) -> list:
    pool = []
    tries = 0
    while len(pool) < k and tries < 200:
        tries += 1
        s = [rng.choice([0, 0, 1, 1, 2, 3, rng.randint(-2, 5)]) for _ in range(modes)]
        if s not in pool or dup:
            pool.append(s)
    if dup and len(pool) >= 2:
        pool[rng.randrange(len(pool))] = list(pool[rng.randrange(len(pool))])
    return pool


def gen_value(rng, complex_: bool) -> list:
    def d():
        return frac_str(Fraction(rng.choice([0, 0, rng.randint(0, 64), rng.randint(-64, 64)]), 64))
    return [d(), d() if complex_ else "0"]


def gen_item(rng, ins: list, outs: list, modes: int) -> dict:
    def some(l):
        if l and rng.random() < 0.8:
            return {"st": rng.choice(l)}
        return {"st": [rng.randint(6, 9)] * modes}  # not present

    r = rng.random()
    if r < 0.25:
        return some(ins)
    if r < 0.7:
        return {"tup": [some(ins), some(outs)]}
    if r < 0.78:
        return {"tup": [some(ins)]}
    if r < 0.83:
        return {"tup": [some(ins), {"none": 1}]}
    if r < 0.88:
        return {"tup": [some(ins), some(outs), some(outs)]}
    if r < 0.91:
        return {"tup": []}
    if r < 0.96:
        return {"tup": [rng.choice([{"bad": 1}, some(ins)]), rng.choice([{"bad": 1}, {"bad": 1}, some(outs)])]}
    return {"bad": 1}


SIZE = {"big": False}  # thorough tier: larger results, longer chains


# how `invert` is handed to a mapping method: by keyword / positionally / not at all, as bool, int or numpy bool
FORMS = ["kw", "pos", "default", "kw:int", "pos:int", "kw:np", "pos:np", "kw:float", "pos:float", "kw:npint", "pos:npint"]


def gen_form(rng, inv: bool) -> str:
    f = rng.choice(["kw"] * 4 + ["pos"] * 4 + ["default"] * 2 + ["kw:int", "pos:int", "kw:np", "pos:np"] +
                   ["kw:float", "pos:float", "kw:npint", "pos:npint"])
    return "pos" if f == "default" and inv else f


def entry(e: list) -> tuple:
    """[kind, invert] (older replays) or [kind, invert, form]"""
    return e[0], bool(e[1]), (e[2] if len(e) > 2 else "kw")


def maps_of(chain: list) -> list:
    """the mappings of a chain as the model sees them (call forms and uses are the implementation's business)"""
    return [[e[0], bool(e[1])] for e in chain if e[0] != "use"]


THRESHOLDS = [None, None, None, 0.05, 0.05, 0.5, 1e-3, 0, 1.0, 1e-12, 1e-20, 2.0]


def gen_use(rng, kind: str) -> dict:
    """a public method that is not a mapping, with its call form"""
    m = rng.choice(["df"] * 8 + ["print"] * 2 + ["text", "iter", "acc", "item"] + (["plot"] if rng.random() < 0.12 else []))
    if m == "df":
        u = {"m": "df", "thr": rng.choice(THRESHOLDS), "form": rng.choice(["pos", "kw"]), "mut": rng.random() < 0.4}
        if kind == "sim":
            u["conv"] = rng.choice([None, None, False, True, False, True, 0, 1])
        return u
    if m == "print":
        return {"m": "print", "rounding": rng.choice([None, None, 0, 2, 12])} if kind == "sim" else {"m": "print"}
    if m == "plot":
        u = {"m": "plot", "labels": rng.random() < 0.4}
        if kind == "sim":
            u["conv"] = rng.random() < 0.5
        return u
    return {"m": m}


def gen_chain(rng, kind: str = "sim") -> list:
    ch = [[rng.choice(["threshold", "parity"]), rng.random() < 0.5]
          for _ in range(rng.choice([1, 1, 1, 2, 2, 3] + ([4] if SIZE["big"] else [])))]
    ch = [[k, i, gen_form(rng, i)] for k, i in ch]
    if rng.random() < 0.3:  # a use of the intermediate (or of the source) between two mappings
        ch.insert(rng.randint(0, len(ch)), ["use", gen_use(rng, kind)])
    return ch


def gen_fan(rng) -> list:
    """mappings that are all applied to the SAME object; repeats and both invert settings of one kind are likely"""
    combos = [[k, i] for k in ("threshold", "parity") for i in (False, True)]
    r = rng.random()
    if r < 0.2:
        fan = list(combos)
        rng.shuffle(fan)
    elif r < 0.55:
        k = rng.choice(["threshold", "parity"])
        fan = [[k, rng.random() < 0.5] for _ in range(rng.randint(2, 4))]
    else:
        fan = [list(rng.choice(combos)) for _ in range(rng.randint(2, 5))]
    return [[k, i, gen_form(rng, i)] for k, i in fan]


# how the values are handed to the constructor: ndarray dtypes and nested Python lists
FLOAT_DT = ["float64", "float32", "float16"]
CPLX_DT = ["complex128", "complex64"]
INT_DT = ["int64", "int32", "int8", "uint8"]
LIST_DT = ["list:float", "list:int", "list:complex", "list:bool", "list:mixed"]
DTYPES = CPLX_DT + FLOAT_DT + INT_DT + ["bool", "object"] + LIST_DT


# storage forms with 53 significant bits: these can hold parts far below the display thresholds next to ordinary ones
TINY_DT = {"auto", "complex128", "float64", "object", "list:float", "list:complex"}
TINY = [Fraction(1, 2 ** k) for k in (40, 44, 50, 60)]


def gen_small_value(rng, imag: bool) -> list:
    """values around the display thresholds: parts of size 2^-40..2^-60 (either sign) alone or on top of an ordinary dyadic
    value, exact zeros, values below 0.05"""
    def part():
        t = rng.choice(TINY) * rng.choice([1, 1, -1])
        r = rng.random()
        if r < 0.35:
            return t
        if r < 0.5:
            return Fraction(0)
        if r < 0.7:
            return Fraction(rng.choice([1, 2, 3]) * rng.choice([1, 1, -1]), 64)  # 0 < |x| < 0.05
        if r < 0.9:
            return Fraction(rng.choice([8, 16, 32, 48, 64]) * rng.choice([1, 1, -1]), 64) + rng.choice(TINY[:3]) * rng.choice([1, -1])
        return Fraction(rng.randint(-64, 64), 64)
    return [frac_str(part()), frac_str(part()) if imag else "0"]


def gen_value_for(rng, dt: str, imag: bool, small: bool = False) -> list:
    """a value the dtype represents exactly (and whose sums over a row stay representable)"""
    if small and rng.random() < 0.6:
        return gen_small_value(rng, imag)
    if dt == "bool" or dt == "list:bool":
        return [str(rng.choice([0, 1, 1])), "0"]
    if dt in INT_DT or dt == "list:int":
        lo = 0 if dt == "uint8" else -3
        return [str(rng.choice([0, 0, 1, 1, 2, 3, rng.randint(lo, 5)])), "0"]
    if dt == "list:mixed":
        return [rng.choice(["0", "1", "2", "1/2", "-1/4", "3/8", frac_str(Fraction(rng.randint(-64, 64), 64))]), "0"]
    return gen_value(rng, imag)


# how the result-type STRING reaches the constructor: the source literal, or an equal string that is another object
RT_FORMS = ["join", "slice", "bytes", "json", "concat", "format", "strip", "casefold", "from-result", "from-mapped", "subclass",
            "np.str_", "interned"]
RT_LITERAL = {"probability": "probability", "probability_amplitude": "probability_amplitude"}


class _Str(str):
    """a str subclass, as produced by enum-like helpers and config libraries"""

    __slots__ = ()


def rtype_obj(rt: str, form: str):
    """the object handed over as result_type: equal to rt, made the way `form` says"""
    lit = RT_LITERAL.get(rt, rt)
    fresh = "".join(list(rt))  # a new str object with the same value (never interned)
    if form == "literal":
        return lit
    if form == "join":
        return fresh
    if form == "slice":
        return (rt + "#")[:-1]
    if form == "bytes":
        return str(rt.encode("ascii"), "ascii")
    if form == "json":
        return json.loads(json.dumps({"result_type": rt}))["result_type"]
    if form == "concat":
        return rt[:4] + rt[4:]
    if form == "format":
        return f"{rt[:3]}{rt[3:]}"
    if form == "strip":
        return ("\x00\x00" + rt + "\x00").strip("\x00")  # only what was added is stripped: the value is rt
    if form == "casefold":
        return rt.swapcase().swapcase()
    if form == "subclass":
        return _Str(rt)
    if form == "np.str_":
        return np.str_(rt)
    if form == "interned":
        import sys

        return sys.intern(fresh)
    if form in ("from-result", "from-mapped"):
        # read from ANOTHER result, itself built with a run-time string (a valid type only; else as "join")
        if rt not in RT_LITERAL:
            return fresh
        with warnings.catch_warnings():
            warnings.simplefilter("ignore")
            other = SimulationResult(np.array([[1.0, 0.0]]), fresh, inputs=[State([1, 0])], outputs=[State([1, 0]), State([0, 1])])
            if form == "from-mapped" and rt == "probability":
                other = other.apply_parity_mapping()
        return other.result_type
    raise MachineryFault(f"unknown result-type form {form}")


def _rtype_selfcheck() -> None:
    for rt in ("probability", "probability_amplitude", "counts", "Probability_Amplitude", "probability_amplitude ", ""):
        for form in ["literal"] + RT_FORMS:
            o = rtype_obj(rt, form)
            if not (isinstance(o, str) and o == rt and str(o) == rt and len(o) == len(rt)):
                raise MachineryFault(f"result-type form {form} does not preserve the value {rt!r}: {o!r}")


def construct_sim(case: dict, arr, ins, outs):
    """SimulationResult(...) with the case's result-type object and call form"""
    rt = rtype_obj(case["rtype"], case.get("rtform", "literal"))
    ctor = case.get("ctor", "pos")
    if ctor == "kw":
        return SimulationResult(arr, result_type=rt, inputs=ins, outputs=outs)
    if ctor == "allkw":
        return SimulationResult(results=arr, outputs=outs, inputs=ins, result_type=rt)
    if ctor == "allpos":
        return SimulationResult(arr, rt, ins, outs)
    return SimulationResult(arr, rt, inputs=ins, outputs=outs)


def gen_sim_case(ctx: Ctx, rng) -> dict:
    modes = rng.randint(0, 4) if rng.random() < 0.1 else rng.randint(1, 4)
    r = rng.choice([0, 1, 1, 2, 2, 3, 4] + ([5, 6] if SIZE["big"] else []))
    c = rng.choice([0, 1, 2, 3, 4, 5, 6, 7] + ([8, 10, 12] if SIZE["big"] else []))
    dup_in, dup_out = rng.random() < 0.1, rng.random() < 0.12
    ins = gen_states(rng, r, rng.randint(1, 3), dup_in)
    outs = gen_states(rng, c, modes, dup_out)
    r, c = len(ins), len(outs)
    rt = rng.choice(["probability"] * 6 + ["probability_amplitude"] * 3 + ["counts", "prob"])
    shape = [r, c]
    if rng.random() < 0.08:
        shape = [max(0, r + rng.choice([-1, 1])), c] if rng.random() < 0.5 else [r, max(0, c + rng.choice([-1, 1]))]
    # storage form, chosen independently of the result type
    dt = "auto" if rng.random() < 0.3 else rng.choice(DTYPES)
    if dt.startswith("list") and shape[0] == 0:
        dt = "float64"
    amp = rt == "probability_amplitude"
    if dt == "auto":
        imag = amp  # as before: the dtype follows the values (complex iff some value has an imaginary part)
    elif dt in CPLX_DT or dt == "list:complex":
        # amplitudes: complex or purely real numbers in a complex array; probabilities: real numbers in a complex
        # array, now and then with imaginary parts (numpy drops them under a mapping; acceptance only is checked)
        imag = rng.random() < (0.5 if amp else 0.12)
    elif dt == "object":
        imag = amp and rng.random() < 0.5  # Python complex objects only in amplitude results
    else:
        imag = False
    small = dt in TINY_DT and rng.random() < 0.4
    arr = [[gen_value_for(rng, dt, imag, small) for _ in range(shape[1])] for _ in range(shape[0])]
    qs = []
    for _ in range(rng.randint(2, 6)):
        x = rng.random()
        if x < 0.4:
            qs.append(["get", gen_item(rng, ins, outs, modes)])
        elif x < 0.6:
            qs.append(["use", gen_use(rng, "sim")])
        elif x < 0.87:
            qs.append(["map", gen_chain(rng, "sim")])
        else:
            qs.append(["fan", gen_fan(rng)])
    if small and not any(q[0] == "use" for q in qs[:-1]):
        # values below the thresholds are there to be looked at AFTER a display call
        qs.insert(rng.randrange(len(qs)), ["use", {**gen_use(rng, "sim"), "m": "df", "mut": False}])
    case = {"kind": "sim", "rtype": rt, "dtype": dt, "shape": shape, "array": arr, "inputs": ins, "outputs": outs, "q": qs}
    if rng.random() < 0.5:
        case["handout"] = gen_handout(rng, "sim")
    if rng.random() < 0.45:
        case["rtform"] = rng.choice(RT_FORMS)
    if rng.random() < 0.3:
        case["ctor"] = rng.choice(["kw", "allkw", "allpos"])
    return case


HANDOUT_SIM = ["array", "inputs", "outputs", "row", "ctor-inputs", "ctor-outputs", "ctor-array", "mapped-inputs",
               "mapped-array", "mapped-outputs", "mapped-row"]
HANDOUT_SAMP = ["outputs", "ctor-dict", "mapped-outputs", "mapped-dict", "views"]
# the accessors hand these out directly / the constructor keeps them (see ASSUMPTIONS): observation only
DIRECT = {"array", "inputs", "outputs", "row", "ctor-inputs", "ctor-outputs", "mapped-inputs"}


def gen_handout(rng, kind: str) -> dict:
    return {"what": rng.choice(HANDOUT_SIM if kind == "sim" else HANDOUT_SAMP),
            "how": rng.choice(["assign", "assign", "append", "reverse", "pop", "clear"]),
            "i": rng.randrange(8), "j": rng.randrange(8), "map": [rng.choice(["threshold", "parity"]), rng.random() < 0.5]}


CTYPES = ["int", "int", "float", "fraction", "bool", "np.int64", "np.int32", "np.uint16", "np.float64", "np.float32", "mixed"]


def gen_samp_case(ctx: Ctx, rng) -> dict:
    modes = rng.randint(1, 4)
    k = rng.choice([0, 1, 2, 3, 4, 5, 6, 8] + ([10, 14] if SIZE["big"] else []))
    outs = gen_states(rng, k, modes, rng.random() < 0.1)
    ct = rng.choice(CTYPES)

    def cnt():
        if ct == "bool":
            return str(rng.choice([0, 1, 1]))
        if ct in ("float", "fraction", "np.float64", "np.float32", "mixed") and rng.random() < 0.6:
            return frac_str(Fraction(rng.choice([0, 1, 4, rng.randint(0, 800)]), 8))  # weights / probabilities, not only whole counts
        return str(rng.choice([0, 1, 2, 5, rng.randint(0, 1000)]))

    results = [[o, [cnt(), "0"]] for o in outs]
    inp = None if rng.random() < 0.07 else [rng.randint(0, 2) for _ in range(modes)]
    qs = []
    for _ in range(rng.randint(2, 5)):
        r = rng.random()
        if r < 0.35:
            qs.append(["get", rng.choice(outs) if outs and rng.random() < 0.75 else (None if rng.random() < 0.3 else [7] * modes)])
        elif r < 0.5:
            qs.append(["use", gen_use(rng, "samp")])
        elif r < 0.82:
            qs.append(["map", gen_chain(rng, "samp")])
        else:
            qs.append(["fan", gen_fan(rng)])
    case = {"kind": "samp", "ctype": ct, "results": results, "input": inp, "q": qs}
    if rng.random() < 0.4:
        case["handout"] = gen_handout(rng, "samp")
    return case


def corpus() -> list:
    """directed stream, always run first: every storage form x both valid result types, queried through pair / nested
    subscripts and mapped by all four mappings on the same object (twice each) and in a chain"""
    out = []
    ins, outs2, outs3 = [[1, 0], [0, 1]], [[1, 0], [0, 1]], [[2, 0], [1, 1], [0, 2]]
    every = [[k, i] for k in ("threshold", "parity") for i in (False, True)]
    q = [["fan", every + every[::-1]], ["map", [["threshold", False], ["parity", True], ["parity", True]]],
         ["get", {"tup": [{"st": [1, 0]}, {"st": [0, 1]}]}], ["fan", [["parity", True], ["parity", False], ["parity", True]]]]
    for dt in ["auto"] + DTYPES:
        integral = dt in INT_DT or dt in ("bool", "list:bool", "list:int")
        for rt in ("probability_amplitude", "probability"):
            if integral:
                # identity / 0-1 tables
                a2 = [[["1", "0"], ["0", "0"]], [["0", "0"], ["1", "0"]]]
                a3 = [[["1", "0"], ["1", "0"], ["0", "0"]], [["0", "0"], ["1", "0"], ["1", "0"]]]
            elif rt == "probability_amplitude":
                # a real orthogonal transformation (dyadic): one- and two-photon amplitudes, all real
                a2 = [[["1/2", "0"], ["1/2", "0"]], [["1/2", "0"], ["-1/2", "0"]]]
                a3 = [[["1/2", "0"], ["0", "0"], ["-1/2", "0"]], [["1/4", "0"], ["1/2", "0"], ["1/4", "0"]]]
            else:
                a2 = [[["1/4", "0"], ["3/4", "0"]], [["1", "0"], ["0", "0"]]]
                a3 = [[["1/4", "0"], ["1/2", "0"], ["1/4", "0"]], [["1/8", "0"], ["0", "0"], ["7/8", "0"]]]
            out.append({"kind": "sim", "rtype": rt, "dtype": dt, "shape": [2, 2], "array": a2, "inputs": ins, "outputs": outs2, "q": q})
            out.append({"kind": "sim", "rtype": rt, "dtype": dt, "shape": [2, 3], "array": a3, "inputs": ins, "outputs": outs3, "q": q})
    # genuinely complex values under either label (a 'probability' result with imaginary parts: acceptance only)
    for dt in ("auto", "complex128", "complex64", "list:complex", "object"):
        for rt in ("probability_amplitude", "probability"):
            if (dt, rt) == ("object", "probability"):
                continue
            out.append({"kind": "sim", "rtype": rt, "dtype": dt, "shape": [1, 3],
                        "array": [[["1/2", "1"], ["1/4", "0"], ["1/4", "-1/2"]]], "inputs": [[1, 1]], "outputs": outs3, "q": q})
    # empty rows / columns and a single column in every storage form that can express them
    for dt in ("float64", "complex128", "int64", "bool", "object"):
        for rt in ("probability_amplitude", "probability"):
            out.append({"kind": "sim", "rtype": rt, "dtype": dt, "shape": [0, 2], "array": [], "inputs": [], "outputs": outs2, "q": q[:2]})
            out.append({"kind": "sim", "rtype": rt, "dtype": dt, "shape": [2, 0], "array": [[], []], "inputs": ins, "outputs": [], "q": q[:2]})
    for ct in dict.fromkeys(CTYPES):
        whole = ct in ("int", "bool", "np.int64", "np.int32", "np.uint16")
        vals = ["1", "0", "1", "1"] if ct == "bool" else ["30", "60", "7", "3"] if whole else ["1/2", "1/4", "1/8", "1/8"]
        out.append({"kind": "samp", "ctype": ct, "input": [1, 1, 0],
                    "results": [[s, [v, "0"]] for s, v in zip([[2, 0, 0], [1, 1, 0], [0, 3, 1], [0, 1, 0]], vals)],
                    "q": [["fan", every + every[::-1]], ["map", [["threshold", True], ["threshold", True], ["parity", False]]],
                          ["get", [1, 1, 0]]]})
    # every call form of every mapping, on the same object and in chains, for both classes
    forms = [[k, i, f] for k in ("threshold", "parity") for i in (False, True) for f in FORMS if not (f == "default" and i)]
    chains = [["map", [[k, i, f], [k, i, f]]] for k, i, f in forms if f in ("pos", "pos:int", "pos:np", "default")]
    out.append({"kind": "sim", "rtype": "probability", "dtype": "float64", "shape": [2, 3],
                "array": [[["1/4", "0"], ["1/2", "0"], ["1/4", "0"]], [["1/8", "0"], ["0", "0"], ["7/8", "0"]]],
                "inputs": ins, "outputs": [[2, 0], [1, 1], [0, 3]], "q": [["fan", forms]] + chains})
    out.append({"kind": "sim", "rtype": "probability_amplitude", "dtype": "complex128", "shape": [1, 2],
                "array": [[["1/2", "1/2"], ["-1/2", "0"]]], "inputs": [[1, 0]], "outputs": outs2, "q": [["fan", forms]]})
    out.append({"kind": "samp", "ctype": "int", "input": [1, 1, 0],
                "results": [[s, [v, "0"]] for s, v in zip([[2, 0, 0], [1, 1, 0], [0, 3, 1], [0, 0, 0], [1, 2, 1]], ["30", "60", "7", "2", "1"])],
                "q": [["fan", forms]] + chains})
    # display calls as intermediate steps on results holding values around the display thresholds; every observable is
    # read again afterwards (get, fan, chain) and the frame oracle compares the object with what it was
    t50, t44 = "1/1125899906842624", "1/17592186044416"
    small_p = [[["15/16", "0"], ["1/32", "0"], [t50, "0"], ["-" + t44, "0"]], [["1/64", "0"], ["1/2", "0"], ["0", "0"], ["31/64", "0"]]]
    small_a = [[["1/2", t50], [t44, "-1/2"], ["1/32", "1/64"], ["0", "3/4"]], [["-" + t50, "-" + t50], ["3/4", "1/64"], ["0", "0"], ["1/4", "0"]]]
    outs4 = [[2, 0, 0], [1, 1, 0], [0, 1, 1], [1, 0, 1]]
    ins2 = [[1, 1, 0], [0, 1, 1]]
    looks = [["get", {"tup": [{"st": [1, 1, 0]}, {"st": [0, 1, 1]}]}], ["get", {"st": [0, 1, 1]}], ["fan", [["threshold", False, "kw"], ["parity", True, "pos"]]]]
    dfs = [{"m": "df", "thr": t, "form": f, "conv": c, "mut": mu}
           for t, f, c, mu in [(None, "kw", None, False), (0.05, "pos", None, True), (0.05, "kw", False, False), (None, "kw", True, True),
                               (0.5, "pos", True, False), (1e-20, "kw", None, False), (0, "pos", False, True), (2.0, "kw", None, False)]]
    others = [{"m": "print", "rounding": None}, {"m": "print", "rounding": 0}, {"m": "plot", "conv": False, "labels": False},
              {"m": "plot", "conv": True, "labels": True}, {"m": "text"}, {"m": "iter"}, {"m": "acc"}, {"m": "item"}]
    for rt, vals, dts in (("probability", small_p, ("float64", "auto", "object", "list:float", "complex128")),
                          ("probability_amplitude", small_a, ("complex128", "auto", "list:complex", "object"))):
        for dt in dts:
            for u in dfs + others:
                if u["m"] == "plot" and dt != dts[0]:
                    continue
                q = [["use", u]] + looks + [["map", [["threshold", False, "default"], ["use", u], ["parity", False, "pos"]]], ["use", u]] + looks[:2]
                out.append({"kind": "sim", "rtype": rt, "dtype": dt, "shape": [2, 4], "array": vals, "inputs": ins2, "outputs": outs4, "q": q})
    # one input (bar chart instead of heat map), real amplitudes, integer and low-precision storage under a user threshold
    for rt, dt in (("probability", "float32"), ("probability", "int64"), ("probability_amplitude", "float64"), ("probability", "float16")):
        vals = [[["1", "0"], ["0", "0"], ["1", "0"], ["2", "0"]]] if dt == "int64" else [[["1/32", "0"], ["-1/64", "0"], ["1/2", "0"], ["0", "0"]]]
        for u in (dfs[1], dfs[4], dfs[7], {"m": "df", "thr": 1.0, "form": "kw", "conv": None, "mut": True}, others[2]):
            out.append({"kind": "sim", "rtype": rt, "dtype": dt, "shape": [1, 4], "array": vals, "inputs": [[1, 1, 0]], "outputs": outs4,
                        "q": [["use", u]] + looks[:1] + [["fan", [["parity", False, "pos"]]], ["use", u]]})
    for ct in ("int", "float", "np.int64", "np.float64", "fraction"):
        for u in ({"m": "df", "thr": None, "form": "kw", "mut": True}, {"m": "df", "thr": 5, "form": "pos", "mut": False},
                  {"m": "df", "thr": 0.05, "form": "kw", "mut": True}, {"m": "print"}, {"m": "plot", "labels": True}, {"m": "text"},
                  {"m": "iter"}, {"m": "acc"}, {"m": "item"}):
            if u["m"] == "plot" and ct != "int":
                continue
            vals = ["3", "0", "1", "40"] if ct in ("int", "np.int64") else ["1/32", "0", "1/2", "15/32"]
            out.append({"kind": "samp", "ctype": ct, "input": [1, 1, 0],
                        "results": [[s, [v, "0"]] for s, v in zip([[2, 0, 0], [1, 1, 0], [0, 3, 1], [0, 1, 0]], vals)],
                        "q": [["use", u], ["get", [1, 1, 0]], ["fan", [["threshold", True, "pos"], ["parity", False, "default"]]],
                              ["map", [["threshold", False, "kw"], ["use", u], ["parity", True, "pos"]]], ["use", u], ["get", [0, 3, 1]]]})
    # hand-out probes: every kind x every way of writing
    for what in HANDOUT_SIM:
        for how in ("assign", "append", "reverse", "pop", "clear"):
            out.append({"kind": "sim", "rtype": "probability", "dtype": "float64", "shape": [2, 3],
                        "array": [[["1/4", "0"], ["1/2", "0"], ["1/4", "0"]], [["1/8", "0"], ["0", "0"], ["7/8", "0"]]],
                        "inputs": ins, "outputs": [[2, 0], [1, 1], [0, 3]], "q": [],
                        "handout": {"what": what, "how": how, "i": 1, "j": 2, "map": ["threshold", False]}})
    for what in HANDOUT_SAMP:
        for how in ("assign", "append", "reverse", "pop", "clear"):
            out.append({"kind": "samp", "ctype": "int", "input": [1, 1, 0], "q": [],
                        "results": [[s, [v, "0"]] for s, v in zip([[2, 0, 0], [1, 1, 0], [0, 3, 1]], ["3", "5", "1"])],
                        "handout": {"what": what, "how": how, "i": 1, "j": 0, "map": ["parity", True]}})
    # the result-type string as an equal object that is not the literal: every way of making it x every type (valid or not),
    # every constructor call form; all four mappings on the same object, a chain, subscripts, a display call in between
    amp_vals = [[["1/2", "0"], ["0", "1/2"], ["0", "-1/2"], ["1/2", "0"]], [["1/8", "1/4"], ["-1/4", "0"], ["0", "1/2"], ["1/2", "-1/8"]]]
    prob_vals = [[["1/4", "0"], ["1/4", "0"], ["1/4", "0"], ["1/4", "0"]], [["1/8", "0"], ["0", "0"], ["3/8", "0"], ["1/2", "0"]]]
    outs4b = [[1, 1, 0], [2, 0, 0], [0, 2, 0], [1, 0, 1]]
    qrt = [["fan", [[k, i, f] for (k, i), f in zip(every, ("kw", "pos", "default", "pos:int"))]],
           ["get", {"tup": [{"st": [1, 1, 0]}, {"st": [2, 0, 0]}]}], ["map", [["parity", False, "default"], ["threshold", True, "kw:np"]]],
           ["use", {"m": "df", "thr": None, "form": "kw", "conv": True, "mut": False}], ["fan", [["threshold", False, "pos:float"]]],
           ["use", {"m": "acc"}], ["map", [["threshold", False, "kw"]]]]
    for n_, form in enumerate(["literal"] + RT_FORMS):
        for rt, vals, dt in (("probability_amplitude", amp_vals, "complex128"), ("probability", prob_vals, "float64"),
                             ("probability_amplitude", prob_vals, "float64")):
            out.append({"kind": "sim", "rtype": rt, "rtform": form, "ctor": ["pos", "kw", "allkw", "allpos"][n_ % 4], "dtype": dt,
                        "shape": [2, 4], "array": vals, "inputs": ins2, "outputs": outs4b, "q": qrt})
        for rt in ("counts", "prob", "Probability_Amplitude", "probability_amplitude ", "probability-amplitude", ""):
            out.append({"kind": "sim", "rtype": rt, "rtform": form, "ctor": ["kw", "pos"][n_ % 2], "dtype": "float64", "shape": [2, 4],
                        "array": prob_vals, "inputs": ins2, "outputs": outs4b, "q": qrt[:2]})
    return out


# ------------------------------------------------------------------------------------- sim


def to_item(j: dict):
    def el(e):
        if "st" in e:
            return State(list(e["st"]))
        if "none" in e:
            return None
        return "not-a-state"

    if "st" in j:
        return State(list(j["st"]))
    if "tup" in j:
        return tuple(el(e) for e in j["tup"])
    return 3


def nested(res) -> list:
    """dict(result) in iteration order, keys as lists"""
    return [(k.s, [(o.s, v) for o, v in row.items()]) for k, row in dict.items(res)]


def cmp_sim(res, m: dict, where: str) -> list[str]:
    """observables of an implementation SimulationResult against the model's JSON"""
    probs = []
    if [s.s for s in res.inputs] != m["inputs"] or [s.s for s in res.outputs] != m["outputs"]:
        probs.append(f"corr: {where}: inputs/outputs lists differ from the model")
        return probs
    if res.result_type != m["rtype"]:
        probs.append(f"corr: {where}: result_type differs")
    arr = np.asarray(res.array)
    if list(arr.shape) != m["shape"]:
        probs.append(f"corr: {where}: array shape impl={arr.shape} model={m['shape']}")
        return probs
    for i, row in enumerate(m["array"]):
        for j, v in enumerate(row):
            if not close(arr[i, j], parse_v(v)):
                probs.append(f"corr: {where}: array[{i},{j}] impl={arr[i, j]} model={v}")
                return probs
    nd = nested(res)
    md = m["dict"]
    if [k for k, _ in nd] != [k for k, _ in md]:
        probs.append(f"corr: {where}: keys of the result differ from the model (order included)")
        return probs
    for (_, row), (_, mrow) in zip(nd, md):
        if [o for o, _ in row] != [o for o, _ in mrow] or not all(close(v, parse_v(w)) for (_, v), (_, w) in zip(row, mrow)):
            probs.append(f"corr: {where}: nested dictionary differs from the model")
            return probs
    return probs


def use_name(u: dict) -> str:
    if u["m"] == "df":
        args = [f"{k}={u[k]}" for k in ("thr", "conv") if u.get(k) is not None]
        return f"display_as_dataframe({', '.join(args)})" + (f" [{u.get('form')}]" if args else "")
    return {"print": "print_outputs", "plot": "plot", "text": "str / repr", "iter": "iteration", "acc": "the accessors",
            "item": "dictionary access"}[u["m"]]


def coherence(res, where: str, exact: bool = False) -> list[str]:
    """clause 1 of the property, evaluated on the implementation (exact: the three ways of reading a value return the very
    same number, which is what a result holds from its construction on)"""
    probs = []
    ins, outs = res.inputs, res.outputs
    arr = np.asarray(res.array)
    if arr.ndim != 2 or arr.shape != (len(ins), len(outs)):
        return [f"oracle: {where}: array shape {arr.shape} does not match {len(ins)} inputs x {len(outs)} outputs"]
    li = {}
    for i, s in enumerate(ins):
        li[tuple(s.s)] = i
    lo = {}
    for j, s in enumerate(outs):
        lo[tuple(s.s)] = j
    if [k.s for k in dict.keys(res)] != dedup([s.s for s in ins]):
        probs.append(f"oracle: {where}: keys of the result are not its inputs in order")
    for i, s in enumerate(ins):
        if li[tuple(s.s)] != i:
            continue  # an earlier duplicate: the dictionary keeps the last row
        row = ires(lambda: res[s])
        if row[0] != "ok":
            probs.append(f"oracle: {where}: result[{s}] raised {row[1]} for a listed input")
            continue
        if [o.s for o in row[1]] != dedup([o.s for o in outs]):
            probs.append(f"oracle: {where}: result[{s}] does not list the outputs in order")
        for j, o in enumerate(outs):
            if lo[tuple(o.s)] != j:
                continue
            a = ires(lambda: res[s, o])
            b = ires(lambda: res[s][o])
            if a[0] != "ok" or b[0] != "ok" or not close(a[1], b[1]) or not close(a[1], arr[i, j]) or \
                    (exact and not (a[1] == b[1] and a[1] == arr[i, j])):
                probs.append(f"oracle: {where}: result[{s},{o}]={a}, result[{s}][{o}]={b}, array[{i},{j}]={arr[i, j]} differ")
                return probs
    return probs


def mapping_oracle(prev, new, kind: str, inv: bool, where: str) -> list[str]:
    """clauses 3-5: `new` = mapping of `prev`"""
    probs = []
    if [s.s for s in new.inputs] != [s.s for s in prev.inputs] or new.result_type != prev.result_type:
        probs.append(f"oracle: {where}: the mapped result does not keep inputs / result type")
        return probs
    outs = [o.s for o in new.outputs]
    if len(dedup(outs)) != len(outs):
        probs.append(f"oracle: {where}: the mapped result lists an output twice")
    images = dedup([f_state(kind, inv, o.s) for o in prev.outputs]) if prev.inputs else []
    if sorted(outs) != sorted(images):
        probs.append(f"oracle: {where}: outputs of the mapped result {sorted(outs)} are not the images {sorted(images)}")
        return probs
    for s in dedup([x.s for x in prev.inputs]):
        st = State(list(s))
        prow = dict.items(prev[st])
        want: dict = {}
        for o, v in prow:
            g = tuple(f_state(kind, inv, o.s))
            want[g] = want.get(g, 0) + v
        for g in images:
            got = ires(lambda: new[st, State(list(g))])
            if got[0] != "ok" or not close(got[1], want.get(tuple(g), 0)):
                probs.append(f"oracle: {where}: mapped[{s},{g}] = {got}, the weights of the outputs with that image add to {want.get(tuple(g), 0)}")
                return probs
        t0 = sum(v for _, v in prow)
        t1 = sum(new[st].values())
        if not close(t0, t1):
            probs.append(f"oracle: {where}: total of input {s} changed from {t0} to {t1}")
    return probs


def build_array(case: dict):
    """the object handed to SimulationResult(...) for the case's storage form -> (object, lossy)
    lossy: numpy does not add these values as numbers (bool) or drops part of them (complex under 'probability')"""
    shape = case["shape"]
    dt = case.get("dtype", "auto")
    vals = case["array"]
    has_imag = any(Fraction(v[1]) != 0 for row in vals for v in row)

    def py(v, i, j, kind):
        re, im = Fraction(v[0]), Fraction(v[1])
        if kind == "complex" or im != 0:
            return complex(float(re), float(im))
        if kind == "bool":
            return bool(re)
        if kind == "int":
            return int(re)
        if kind == "float":
            return float(re)
        if kind == "mixed":  # ints, floats and bools side by side (numpy makes them float64)
            return int(re) if re.denominator == 1 and (i + j) % 2 == 0 else bool(re) if re in (0, 1) and (i + j) % 3 == 0 else float(re)
        # object: Python ints, Fractions and floats side by side
        return int(re) if re.denominator == 1 and (i + j) % 2 == 0 else re if (i + j) % 3 else float(re)

    if dt.startswith("list"):
        kind = dt.split(":")[1]
        arr = [[py(v, i, j, kind) for j, v in enumerate(row)] for i, row in enumerate(vals)]
        lossy = kind == "bool" and shape[0] * shape[1] > 0
    else:
        if dt == "auto":
            npdt = complex if has_imag else float
        elif dt == "object":
            npdt = object
        else:
            npdt = np.dtype(dt)
        arr = np.zeros(tuple(shape), dtype=npdt)
        kind = "object" if dt == "object" else "complex" if np.dtype(npdt).kind == "c" else \
            "bool" if dt == "bool" else "int" if np.dtype(npdt).kind in "iu" else "float"
        for i, row in enumerate(vals):
            for j, v in enumerate(row):
                arr[i, j] = py(v, i, j, kind)
        lossy = dt == "bool"
    if case["rtype"] == "probability" and has_imag:
        lossy = True
    return arr, lossy


def snap_sim(res):
    """everything observable of a SimulationResult, as plain Python values"""
    a = np.asarray(res.array)
    return (str(a.dtype), list(a.shape), a.tolist(), [(k, [(o, complex(v)) for o, v in row]) for k, row in nested(res)],
            [s.s for s in res.inputs], [s.s for s in res.outputs], res.result_type)


def inv_value(inv: bool, form: str):
    t = form.split(":")[1] if ":" in form else "bool"
    return int(inv) if t == "int" else np.bool_(inv) if t == "np" else float(inv) if t == "float" else \
        np.int64(inv) if t == "npint" else bool(inv)


def call_mapping(obj, kind: str, inv: bool, form: str = "kw"):
    """the documented signatures are apply_threshold_mapping(invert=False) / apply_parity_mapping(invert=False):
    invert may be given by keyword, positionally or left out"""
    fn = obj.apply_threshold_mapping if kind == "threshold" else obj.apply_parity_mapping
    how = form.split(":")[0]
    if how == "default" and not inv:
        return fn()
    if how == "pos":
        return fn(inv_value(inv, form))
    return fn(invert=inv_value(inv, form))


def apply_map(obj, kind: str, inv: bool, form: str = "kw"):
    with warnings.catch_warnings():
        warnings.simplefilter("ignore")
        return ires(lambda: call_mapping(obj, kind, inv, form))


def df_call(obj, u: dict):
    thr, conv = u.get("thr"), u.get("conv")
    if u.get("form") == "pos" and thr is not None:
        return obj.display_as_dataframe(thr) if conv is None else obj.display_as_dataframe(thr, conv)
    kw = {}
    if thr is not None:
        kw["threshold"] = thr
    if conv is not None:
        kw["conv_to_probability"] = conv
    return obj.display_as_dataframe(**kw)


def scribble(df) -> None:
    """write into a returned dataframe in place: through the frame and through the array it hands out"""
    for f in (lambda: df.iloc.__setitem__((slice(None), slice(None)), 7), lambda: df.to_numpy().__setitem__(..., 5),
              lambda: df.values.__setitem__(..., 3), lambda: np.asarray(df).__setitem__(..., 2)):
        try:
            f()
        except Exception:  # noqa: BLE001  (read-only views, empty frames)
            pass


def do_use(ctx: Ctx, obj, u: dict, kind: str) -> tuple:
    """a public method that is not a mapping, called as an intermediate step -> outcome.  What the display methods show (and
    whether they accept the content at all) is not judged here; the caller checks that nothing observable has changed."""
    m = u["m"]
    labels = {o: "x" for o in list(obj.outputs)[:2]} if u.get("labels") else None
    with warnings.catch_warnings(), contextlib.redirect_stdout(io.StringIO()):
        warnings.simplefilter("ignore")
        if m == "df":
            ret = ires(lambda: df_call(obj, u))
            if ret[0] == "ok" and u.get("mut"):
                scribble(ret[1])
                ctx.count(f"{kind}:use:df:returned-frame-written-to")
        elif m == "print":
            ret = ires(lambda: obj.print_outputs() if u.get("rounding") is None else obj.print_outputs(u["rounding"]))
        elif m == "plot":
            import matplotlib.pyplot as plt

            if kind == "sim":
                ret = ires(lambda: obj.plot(conv_to_probability=bool(u.get("conv")), show=False, state_labels=labels))
            else:
                ret = ires(lambda: obj.plot(show=False, state_labels=labels))
            plt.close("all")
        elif m == "text":
            ret = ires(lambda: (str(obj), repr(obj), f"{obj}", obj == obj, bool(obj)))
        elif m == "iter":
            if kind == "sim":
                ret = ires(lambda: (list(obj), list(obj.items()), [list(r.items()) for r in obj.values()], len(obj),
                                    [s in obj for s in obj.inputs], list(reversed(obj))))
            else:
                ret = ires(lambda: (list(obj), list(obj.items()), list(obj.values()), len(obj), [s in obj for s in obj.outputs],
                                    sorted(obj.values(), key=float)))
        elif m == "acc":
            if kind == "sim":
                ret = ires(lambda: (obj.inputs, obj.outputs, obj.array, obj.result_type, obj.array.shape, obj.array.dtype))
            else:
                ret = ires(lambda: (obj.input, obj.outputs, len(obj.outputs), obj.input.n_modes))
        else:
            ks = list(obj.inputs if kind == "sim" else obj.outputs)
            ret = ires(lambda: (dict(obj), [obj.get(s) for s in ks], [obj[s] for s in ks[:3]], obj.get(State([9, 9, 9, 9, 9])),
                                dict(obj).pop(ks[0]) if ks else None, obj.copy(), {**obj}))
    if m == "df":
        t = u.get("thr")
        ctx.count(f"{kind}:use:df:threshold={'default' if t is None else str(t) + ' (' + str(u.get('form')) + ')'}")
        if kind == "sim":
            ctx.count(f"sim:use:df:conv_to_probability={u.get('conv')}:{obj.result_type}")
    ctx.count(f"{kind}:use:{m}:" + ("ok" if ret[0] == "ok" else "refused:" + str(ret[1])))
    return ret


def write_list(lst: list, how: str, i: int, extra) -> bool:
    """write into a list that was handed out -> whether anything was written"""
    if how == "append":
        lst.append(extra)
    elif how == "reverse":
        if len(lst) < 2 or lst == lst[::-1]:
            return False
        lst.reverse()
    elif how == "pop":
        if not lst:
            return False
        lst.pop(i % len(lst))
    elif how == "clear":
        if not lst:
            return False
        lst.clear()
    else:
        if not lst or lst[i % len(lst)] == extra:
            return False
        lst[i % len(lst)] = extra
    return True


def alias_note(ctx: Ctx, kind: str, what: str, how: str, effect: str) -> list[str]:
    """a direct hand-out was written to and the object is no longer coherent: an observation (see ASSUMPTIONS)"""
    ctx.count("handout-aliasing:observed")
    ctx.count(f"handout-aliasing:observed:{kind}:{what}")
    if ALIASING_IS_VIOLATION:
        return [f"oracle: handout-aliasing: {kind}: writing ({how}) into {what} {effect}"]
    seen = ctx.extra.setdefault("handout_aliasing_observed", {})
    key = f"{kind}:{what}"
    seen.setdefault(key, effect)  # one consolidated note at the end of the run
    return []


def handout_sim(ctx: Ctx, case: dict) -> list[str]:
    """write into what a twin of the case's result hands out.  Objects that the methods RETURN (a mapped result and its
    array / lists / rows, the array given to the constructor, which numpy copies) must not reach the result: normal oracle.
    The accessors' own objects and the caller's lists are DIRECT hand-outs: observation only."""
    h = case["handout"]
    what, how, i, j = h["what"], h["how"], h["i"], h["j"]
    arr, _lossy = build_array(case)
    ins = [State(list(s)) for s in case["inputs"]]
    outs = [State(list(s)) for s in case["outputs"]]
    built = ires(lambda: construct_sim(case, arr, ins, outs))
    if built[0] != "ok":
        return []
    t = built[1]
    m = None
    if case["rtype"] == "probability":
        got = apply_map(t, h["map"][0], h["map"][1])
        m = got[1] if got[0] == "ok" else None
    if what.startswith("mapped") and m is None:
        what = what[len("mapped-"):]
    if what in ("array", "row", "ctor-array", "mapped-array", "mapped-row"):
        how = "assign" if how not in ("assign", "clear") or "array" in what else how
    s_t, s_m = snap_sim(t), (snap_sim(m) if m is not None else None)
    extra = State([7] * 3)
    target = m if what.startswith("mapped") else t
    wrote = False
    try:
        if what in ("array", "mapped-array", "ctor-array"):
            a = arr if what == "ctor-array" else target.array
            if isinstance(a, list):
                if a and a[0]:
                    a[i % len(a)][j % len(a[0])] = 77
                    wrote = True
            elif a.size:
                a[i % a.shape[0], j % a.shape[1]] = True if a.dtype == bool else a[i % a.shape[0], j % a.shape[1]] + 1
                wrote = not (a.dtype == bool and s_t[2][i % a.shape[0]][j % a.shape[1]] is True)
        elif what in ("row", "mapped-row"):
            ks = list(target.inputs)
            if ks and len(target.outputs):
                row = target[ks[i % len(ks)]]
                o = list(row)[j % len(row)]
                if how == "clear":
                    row.clear()
                else:
                    row[o] = row[o] + 1
                wrote = True
        else:
            lst = {"inputs": lambda: t.inputs, "outputs": lambda: t.outputs, "ctor-inputs": lambda: ins, "ctor-outputs": lambda: outs,
                   "mapped-inputs": lambda: m.inputs, "mapped-outputs": lambda: m.outputs}[what]()
            wrote = write_list(lst, how, i, extra)
    except Exception as e:  # noqa: BLE001  (a read-only view / an immutable hand-out refuses the write)
        ctx.count(f"sim:handout:{what}:write-refused:{type(e).__name__}")
        return []
    ctx.count(f"sim:handout:{what}:{how}" + ("" if wrote else ":nothing-to-write"))
    if not wrote:
        return []
    probs: list[str] = []
    # the object that was NOT written to
    other, s_o, o_name = (t, s_t, "the result it was mapped from") if target is m else (m, s_m, "a mapped result made earlier")
    if what.startswith("ctor"):
        other, s_o, o_name = t, s_t, "the result built from it"
    bad = []
    if other is not None and (snap_sim(other) != s_o or coherence(other, "", exact=True)):
        bad.append(f"changes {o_name}")
    if what in DIRECT and not what.startswith("ctor") and coherence(target, "", exact=True):
        bad.append("leaves the object incoherent (array, pair / nested subscripts and lists no longer agree)")
    if what.startswith("ctor") and m is not None and (snap_sim(m) != s_m or coherence(m, "", exact=True)):
        bad.append("changes a mapped result made earlier")
    if not bad:
        return probs
    if what in DIRECT:
        return alias_note(ctx, "simulation", {"array": "r.array", "inputs": "r.inputs", "outputs": "r.outputs", "row": "the row r[input]",
                                              "ctor-inputs": "the inputs list given to the constructor",
                                              "ctor-outputs": "the outputs list given to the constructor",
                                              "mapped-inputs": "mapped.inputs"}[what], how, " and ".join(bad))
    probs.append(f"oracle: writing ({how}) into {what.replace('ctor-array', 'the array given to the constructor')} of a result "
                 f"{' and '.join(bad)}")
    return probs


def run_sim(ctx: Ctx, case: dict) -> list[str]:
    probs: list[str] = []
    shape = case["shape"]
    dt = case.get("dtype", "auto")
    arr, lossy = build_array(case)
    ins = [State(list(s)) for s in case["inputs"]]
    outs = [State(list(s)) for s in case["outputs"]]
    built = ires(lambda: construct_sim(case, arr, ins, outs))
    valid_type = case["rtype"] in ("probability", "probability_amplitude")
    rtform = case.get("rtform", "literal")
    if valid_type:
        same = rtype_obj(case["rtype"], rtform) is RT_LITERAL[case["rtype"]]
        ctx.count(f"sim:result-type-as:{rtform}:" + ("the-literal-object" if same else "equal-not-identical") + ":" + case["rtype"])
    else:
        ctx.count(f"sim:result-type-as:{rtform}:invalid-type")
    ctx.count("sim:constructor-call:" + case.get("ctor", "pos"))
    ok_shape = shape == [len(ins), len(outs)]
    ctx.count("sim:new:" + ("ok" if valid_type and ok_shape else "bad-type" if not valid_type else "bad-shape"))
    if valid_type:
        real_only = not any(Fraction(v[1]) != 0 for row in case["array"] for v in row)
        ctx.count(f"sim:stored:{case['rtype']}:{dt}" + (":real-valued" if real_only and case["rtype"] == "probability_amplitude" else
                                                       ":with-imaginary-parts" if not real_only else ""))
    if len(dedup(case["inputs"])) != len(ins):
        ctx.count("sim:duplicate-inputs")
    if len(dedup(case["outputs"])) != len(outs):
        ctx.count("sim:duplicate-outputs")
    if 0 in shape:
        ctx.count("sim:empty-rows-or-columns")
    if (built[0] == "ok") != (valid_type and ok_shape) or (built[0] == "err" and built[1] != "ResultCreationError"):
        probs.append(f"oracle: SimulationResult(type={case['rtype']}{'' if rtform == 'literal' else ' [string made by: ' + rtform + ']'}, "
                     f"{dt} values of shape {shape}, {len(ins)} inputs, {len(outs)} outputs) -> {built}")
    # model: queries need the set orders observed on the implementation, so run the implementation first
    res = built[1] if built[0] == "ok" else None
    impl_answers = []
    mq = []
    amp = case["rtype"] == "probability_amplitude"

    live: list = []  # every object of this case with its snapshot: nothing but construction ever changes one

    def frame(w) -> list:
        out = []
        for label, o, sn in live:
            now = snap_sim(o)
            if now != sn:
                what = [n for n, a, b in zip(("dtype", "shape", "array", "nested values", "inputs", "outputs", "type"), sn, now) if a != b]
                out.append(f"oracle: {w}: {label} is no longer what it was ({', '.join(what)} changed)")
                live[:] = [(l_, o_, snap_sim(o_)) for l_, o_, _ in live]
                break
        return out

    def keep(label, o):
        if len(live) < 10:
            live.append((label, o, snap_sim(o)))

    def one_mapping(cur, kind, inv, w, form="kw"):
        """apply one mapping to `cur`; clauses that do not need the model -> (outcome, problems)"""
        out = []
        before = snap_sim(cur)
        ctx.count(f"sim:call-form:{form}")
        nxt = apply_map(cur, kind, inv, form)
        if snap_sim(cur) != before:
            out.append(f"oracle: {w}: the result the mapping was applied to has changed (array / nested values / lists)")
        if amp != (nxt == ("err", "ValueError")):
            out.append(f"oracle: {w}: {'accepted' if nxt[0] == 'ok' else 'raised ' + nxt[1]} for a {case['rtype']} result "
                       f"stored as {np.asarray(cur.array).dtype} (mappings are refused, with a ValueError, exactly for amplitude results)"
                       + ("" if rtform == "literal" else f" [the type string was made by: {rtform}]"))
        out += frame(w)
        if nxt[0] == "ok":
            keep(f"the result of an earlier mapping ({kind}, invert={inv})", nxt[1])
        return nxt, out

    def one_use(cur, u, w, is_source: bool):
        """a non-mapping method as an intermediate step: every observable of every live object stays what it was"""
        out = []
        before = snap_sim(cur)
        ref = apply_map(cur, "threshold", False) if not amp and u["m"] in ("df", "plot") else None
        do_use(ctx, cur, u, "sim")
        if snap_sim(cur) != before:
            now = snap_sim(cur)
            what = [n for n, a, b in zip(("dtype", "shape", "array", "nested values", "inputs", "outputs", "type"), before, now) if a != b]
            out.append(f"oracle: {w}: the result it was called on is no longer what it was ({', '.join(what)} changed)")
        out += frame(w)
        out += coherence(cur, w + ": the result it was called on", exact=True)
        if ref is not None and ref[0] == "ok":
            again = apply_map(cur, "threshold", False)
            if again[0] != "ok" or sorted(zip([o.s for o in again[1].outputs], np.asarray(again[1].array).T.tolist())) != \
                    sorted(zip([o.s for o in ref[1].outputs], np.asarray(ref[1].array).T.tolist())):
                out.append(f"oracle: {w}: the threshold mapping of the result differs from what it was before the call")
        ctx.count("sim:use:on-" + ("constructed" if is_source else "mapped") + "-result")
        return out

    def check_step(pv, nw, kind, inv, w, values: bool):
        out = []
        if values:
            out += mapping_oracle(pv, nw, kind, inv, w)
        else:
            ctx.count("sim:map:values-not-numbers:oracle-only")
            images = dedup([f_state(kind, inv, o.s) for o in pv.outputs]) if pv.inputs else []
            if sorted(o.s for o in nw.outputs) != sorted(images) or [s.s for s in nw.inputs] != [s.s for s in pv.inputs] \
                    or nw.result_type != pv.result_type:
                out.append(f"oracle: {w}: outputs of the mapped result are not the images / inputs or type not kept")
        out += coherence(nw, w)
        if len(dedup([tuple(f_state(kind, inv, o.s)) for o in pv.outputs])) < len(dedup([tuple(o.s) for o in pv.outputs])):
            ctx.count("sim:map:images-coincide")
        return out

    if res is not None:
        if not (isinstance(res.result_type, str) and res.result_type == case["rtype"]):
            probs.append(f"oracle: result_type of the constructed result is {res.result_type!r}, built with a string equal to {case['rtype']!r}")
        probs += coherence(res, "constructed result", exact=True)
        snap0 = snap_sim(res)
        keep("the constructed result", res)
        for q in case["q"]:
            if q[0] == "use":
                probs += one_use(res, q[1], f"{use_name(q[1])} as an intermediate step", True)
            elif q[0] == "get":
                item = to_item(q[1])
                got = ires(lambda: res[item])
                impl_answers.append(got)
                mq.append(q)
                ctx.count("sim:get:" + ("state" if "st" in q[1] else f"tuple{len(q[1]['tup'])}" if "tup" in q[1] else "other") + ":" + got[0])
                probs += frame(f"subscript {q[1]}")
            elif q[0] == "fan":
                # every mapping on the SAME object; an earlier call must not influence a later one
                seen: dict = {}
                for n_, e in enumerate(q[1]):
                    kind, inv, form = entry(e)
                    ctx.count(f"sim:fan:{kind}:{'inverted' if inv else 'plain'}")
                    w = f"mapping #{n_} ({kind}, invert={inv}, call form {form}) on the same object"
                    nxt, pr = one_mapping(res, kind, inv, w, form)
                    probs += pr
                    if nxt[0] == "ok":
                        probs += check_step(res, nxt[1], kind, inv, w, not lossy)
                        sn = snap_sim(nxt[1])
                        key = (kind, inv)
                        if key in seen:
                            ctx.count("sim:fan:same-mapping-again")
                            a, b = seen[key], sn
                            if sorted(zip(a[5], np.asarray(a[2]).T.tolist() if a[2] else [])) != \
                                    sorted(zip(b[5], np.asarray(b[2]).T.tolist() if b[2] else [])):
                                probs.append(f"oracle: {w}: differs from the result of the same call made earlier on this object")
                        seen[key] = sn
                        if nxt[1] is res:
                            probs.append(f"oracle: {w}: returned the object itself")
                    if not lossy:
                        impl_answers.append(nxt)
                        mq.append(["map", [[kind, inv]], [[o.s for o in nxt[1].outputs]] if nxt[0] == "ok" else [[]]])
            else:
                cur = res
                orders = []
                steps = []
                outcome = ("ok", None)
                cur_lossy = lossy
                for k, e in enumerate(q[1]):
                    if e[0] == "use":
                        probs += one_use(cur, e[1], f"{use_name(e[1])} between the mappings of a chain (step #{k})", cur is res)
                        continue
                    kind, inv, form = entry(e)
                    ctx.count(f"sim:map:{kind}:{'inverted' if inv else 'plain'}")
                    w = f"mapping #{k} ({kind}, invert={inv}, call form {form})"
                    nxt, pr = one_mapping(cur, kind, inv, w, form)
                    probs += pr
                    if nxt[0] == "err":
                        outcome = nxt
                        break
                    probs += check_step(cur, nxt[1], kind, inv, w, not cur_lossy)
                    cur_lossy = False  # a mapped result is a float64 array
                    steps.append((cur, nxt[1], kind, inv))
                    orders.append([o.s for o in nxt[1].outputs])
                    cur = nxt[1]
                if steps and not amp and not (lossy and len(steps) == 1):
                    # repeated application: plain mappings are idempotent, an inverted one applied twice is the plain one
                    pv, nw, kind, inv = steps[-1]
                    again = apply_map(nw, kind, inv)
                    plain = apply_map(pv, kind, False)
                    ref = plain if inv else ("ok", nw)
                    if again[0] != "ok" or ref[0] != "ok":
                        probs.append(f"oracle: a repeated {kind} mapping is refused: {again if again[0] != 'ok' else ref}")
                    else:
                        for s in dedup([x.s for x in pv.inputs]):
                            a = {tuple(o.s): v for o, v in again[1][State(list(s))].items()}
                            b = {tuple(o.s): v for o, v in ref[1][State(list(s))].items()}
                            if set(a) != set(b) or any(not close(a[k], b[k]) for k in a):
                                probs.append(f"oracle: applying the {kind} mapping (invert={inv}) twice does not give the "
                                             f"{'plain mapping' if inv else 'same result as once'} for input {s}")
                                break
                if not lossy and maps_of(q[1]):
                    impl_answers.append((outcome[0], cur) if outcome[0] == "ok" else outcome)
                    mq.append(["map", maps_of(q[1]), orders + [[]] * (len(maps_of(q[1])) - len(orders))])
        if snap_sim(res) != snap0:
            probs.append("oracle: the constructed result changed while it was queried and mapped")
        else:
            probs += [p.replace("constructed result", "constructed result after all queries")
                      for p in coherence(res, "constructed result", exact=True)]
        if case.get("handout"):
            probs += handout_sim(ctx, case)
    req = {"op": "res", "kind": "sim", "rtype": case["rtype"], "shape": shape,
           "array": [[val_str(v) for v in row] for row in case["array"]],
           "inputs": case["inputs"], "outputs": case["outputs"], "q": mq}
    try:
        model = ctx.model.call(req)
    except MachineryFault as e:
        if "map:" in str(e):
            probs.append("corr: the outputs of a mapped result are not an enumeration of the model's image set: " + str(e)[:300])
            return probs
        raise
    mnew = mclass(model["new"], "new")
    if (built[0], built[1] if built[0] == "err" else None) != (mnew[0], mnew[1] if mnew[0] == "err" else None):
        probs.append(f"corr: construction impl={built[0], built[1] if built[0] == 'err' else ''} model={mnew[0], mnew[1] if mnew[0] == 'err' else ''}")
        return probs
    if res is None:
        return probs
    probs += cmp_sim(res, mnew[1], "constructed result")
    for q, got, ma in zip(mq, impl_answers, model["q"]):
        op = "get_empty_tuple" if q[0] == "get" and q[1].get("tup") == [] else q[0]
        m = mclass(ma, op)
        if got[0] != m[0] or (got[0] == "err" and got[1] != m[1]):
            probs.append(f"corr: {q[:2]}: impl={got[0], got[1] if got[0] == 'err' else ''} model={m[0], m[1] if m[0] == 'err' else ''}")
            continue
        if got[0] == "err":
            continue
        if q[0] == "get":
            if "row" in m[1]:
                row = [(o.s, v) for o, v in got[1].items()] if isinstance(got[1], dict) else None
                if row is None or [o for o, _ in row] != [o for o, _ in m[1]["row"]] or \
                        not all(close(v, parse_v(w)) for (_, v), (_, w) in zip(row, m[1]["row"])):
                    probs.append(f"corr: {q}: row differs from the model")
            elif isinstance(got[1], dict) or not close(got[1], parse_v(m[1]["val"])):
                probs.append(f"corr: {q}: impl={got[1]} model={m[1]['val']}")
        else:
            probs += cmp_sim(got[1], m[1], f"result of {q[1]}")
    return probs


# ------------------------------------------------------------------------------------- samp


def count_value(ct: str, v: Fraction, k: int):
    """the count / weight in the form the case asks for"""
    if ct == "mixed":
        ct = ["int", "float", "np.int64", "fraction", "np.float64"][k % 5]
    whole = v.denominator == 1
    if ct == "int":
        return int(v) if whole else float(v)
    if ct == "bool":
        return bool(v)
    if ct == "float":
        return float(v)
    if ct == "fraction":
        return Fraction(v)
    if ct.startswith("np.float"):
        return getattr(np, ct[3:])(float(v))
    return getattr(np, ct[3:])(int(v)) if whole else np.float64(float(v))


def snap_samp(res):
    return ([(k.s, complex(v), type(v).__name__) for k, v in dict.items(res)], [o.s for o in res.outputs], res.input.s)


def handout_samp(ctx: Ctx, case: dict) -> list[str]:
    """as handout_sim: s.outputs is a direct hand-out (observation); the dictionary given to the constructor, a mapped
    result and the views / lists made from the result are not (oracle)"""
    h = case["handout"]
    what, how, i = h["what"], h["how"], h["i"]
    ct = case.get("ctype", "int")
    d = dict((State(list(s)), count_value(ct, Fraction(v[0]), k)) for k, (s, v) in enumerate(case["results"]))
    if case["input"] is None:
        return []
    t = SamplingResult(d, State(list(case["input"])))
    got = apply_map(t, h["map"][0], h["map"][1])
    if got[0] != "ok":
        return []
    m = got[1]
    s_t, s_m = snap_samp(t), snap_samp(m)
    extra = State([7] * 3)
    try:
        if what in ("outputs", "mapped-outputs"):
            wrote = write_list((t if what == "outputs" else m).outputs, how, i, extra)
        elif what in ("ctor-dict", "mapped-dict"):
            dd = d if what == "ctor-dict" else m
            if how in ("append", "assign"):
                dict.__setitem__(dd, extra if how == "append" else next(iter(dd), extra), 12345)
            elif how == "clear":
                dict.clear(dd)
            elif dd:
                dict.pop(dd, list(dd)[i % len(dd)])
            wrote = True
        else:
            views = [list(t), list(t.items()), list(t.values()), dict(t), t.copy(), list(t.keys())]
            for v in views:
                (v.clear() if how == "clear" else v.update({extra: 1}) if isinstance(v, dict) else v.append(extra))
            wrote = True
    except Exception as e:  # noqa: BLE001
        ctx.count(f"samp:handout:{what}:write-refused:{type(e).__name__}")
        return []
    ctx.count(f"samp:handout:{what}:{how}" + ("" if wrote else ":nothing-to-write"))
    if not wrote:
        return []

    def coherent(r) -> bool:
        return [o.s for o in r.outputs] == [k.s for k in dict.keys(r)]

    if what == "outputs":
        bad = ([] if coherent(t) and snap_samp(t) == s_t else ["leaves s.outputs different from the states that have counts"]) + \
              ([] if snap_samp(m) == s_m else ["changes a mapped result made earlier"])
        return alias_note(ctx, "sampling", "s.outputs", how, " and ".join(bad)) if bad else []
    if what.startswith("mapped"):
        return [] if snap_samp(t) == s_t else [f"oracle: writing ({how}) into {what} changes the SamplingResult it was mapped from"]
    if snap_samp(t) != s_t or snap_samp(m) != s_m:
        return [f"oracle: writing ({how}) into {'the dictionary given to the constructor' if what == 'ctor-dict' else 'lists / views made from the result'} "
                "changes the SamplingResult"]
    return []


def run_samp(ctx: Ctx, case: dict) -> list[str]:
    probs: list[str] = []
    ct = case.get("ctype", "int")
    pairs = [(State(list(s)), count_value(ct, Fraction(v[0]), k)) for k, (s, v) in enumerate(case["results"])]
    d = dict(pairs)
    inp = State(list(case["input"])) if case["input"] is not None else [1, 0]
    built = ires(lambda: SamplingResult(d, inp))
    ctx.count("samp:new:" + ("ok" if case["input"] is not None else "bad-input"))
    ctx.count("samp:counts-as:" + ct)
    exp_ok = case["input"] is not None
    if (built[0] == "ok") != exp_ok or (built[0] == "err" and built[1] != "ResultCreationError"):
        probs.append(f"oracle: SamplingResult(..., input={case['input']}) -> {built}")
    res = built[1] if built[0] == "ok" else None
    mq, impl_answers = [], []

    live: list = []

    def frame(w) -> None:
        for label, o, sn in live:
            if snap_samp(o) != sn:
                probs.append(f"oracle: {w}: {label} is no longer what it was (counts / outputs / input changed)")
                live[:] = [(l_, o_, snap_samp(o_)) for l_, o_, _ in live]
                break

    def keep(label, o) -> None:
        if len(live) < 10:
            live.append((label, o, snap_samp(o)))

    def one_use(cur, u, w, is_source: bool) -> None:
        before = snap_samp(cur)
        do_use(ctx, cur, u, "samp")
        if snap_samp(cur) != before:
            probs.append(f"oracle: {w}: the SamplingResult it was called on is no longer what it was")
        frame(w)
        if [o.s for o in cur.outputs] != [k.s for k in dict.keys(cur)] or \
                any(ires(lambda: cur[k]) != ("ok", v) for k, v in list(dict.items(cur))):
            probs.append(f"oracle: {w}: outputs / subscripts of the SamplingResult no longer agree with its contents")
        ctx.count("samp:use:on-" + ("constructed" if is_source else "mapped") + "-result")

    def one_mapping(cur, kind, inv, w, form="kw"):
        """-> mapped result or None; the clauses of the property on this single call"""
        before = snap_samp(cur)
        ctx.count(f"samp:call-form:{form}")
        nxt = apply_map(cur, kind, inv, form)
        if snap_samp(cur) != before:
            probs.append(f"oracle: {w}: the SamplingResult the mapping was applied to has changed")
        frame(w)
        if nxt[0] == "ok":
            keep(f"the result of an earlier mapping ({kind}, invert={inv})", nxt[1])
        if nxt[0] == "err":
            probs.append(f"oracle: mapping of a SamplingResult raised {nxt[1]}")
            return nxt
        new = nxt[1]
        want: dict = {}
        for o, v in dict.items(cur):
            g = tuple(f_state(kind, inv, o.s))
            want[g] = want.get(g, 0) + v
        gotd = [(tuple(o.s), v) for o, v in dict.items(new)]
        if gotd != list(want.items()):
            probs.append(f"oracle: {w}: {kind} mapping (invert={inv}) of counts {[(o.s, v) for o, v in dict.items(cur)]} gives "
                         f"{gotd}, images with added counts are {list(want.items())}")
        if sum(dict.values(new)) != sum(dict.values(cur)):
            probs.append("oracle: total count changed under a mapping")
        if [o.s for o in new.outputs] != [list(g) for g in want] or new.input != cur.input:
            probs.append("oracle: outputs/input of the mapped SamplingResult are inconsistent with its contents")
        for o, v in dict.items(new):
            if ires(lambda: new[o]) != ("ok", v):
                probs.append(f"oracle: mapped SamplingResult[{o}] != {v}")
                break
        if len(want) < len(cur):
            ctx.count("samp:map:images-coincide")
        return nxt

    if res is not None:
        # round trip: exactly the counts it was built from
        if [(k.s, v) for k, v in dict.items(res)] != [(k.s, v) for k, v in d.items()] or [o.s for o in res.outputs] != [k.s for k in d] \
                or res.input != inp:
            probs.append("oracle: a SamplingResult does not return the counts / outputs / input it was built from")
        for k, v in d.items():
            got = ires(lambda: res[k])
            if got != ("ok", v):
                probs.append(f"oracle: SamplingResult[{k}] = {got}, built from {v!r}")
                break
        snap0 = snap_samp(res)
        keep("the constructed SamplingResult", res)
        for q in case["q"]:
            if q[0] == "use":
                one_use(res, q[1], f"{use_name(q[1])} as an intermediate step", True)
            elif q[0] == "get":
                item = State(list(q[1])) if q[1] is not None else 5
                got = ires(lambda: res[item])
                impl_answers.append(got)
                mq.append(q)
                ctx.count("samp:get:" + got[0])
                frame(f"subscript {q[1]}")
            elif q[0] == "fan":
                seen: dict = {}
                for n_, e in enumerate(q[1]):
                    kind, inv, form = entry(e)
                    ctx.count(f"samp:fan:{kind}:{'inverted' if inv else 'plain'}")
                    nxt = one_mapping(res, kind, inv, f"mapping #{n_} ({kind}, invert={inv}, call form {form}) on the same object", form)
                    if nxt[0] == "ok":
                        sn = snap_samp(nxt[1])
                        if (kind, inv) in seen:
                            ctx.count("samp:fan:same-mapping-again")
                            if seen[(kind, inv)] != sn:
                                probs.append(f"oracle: {kind} mapping (invert={inv}) differs from the result of the same call made earlier on this object")
                        seen[(kind, inv)] = sn
                        if nxt[1] is res:
                            probs.append("oracle: a mapping returned the SamplingResult itself")
                    impl_answers.append(nxt)
                    mq.append(["map", [[kind, inv]]])
            else:
                cur = res
                outcome = ("ok", None)
                for k_, e in enumerate(q[1]):
                    if e[0] == "use":
                        one_use(cur, e[1], f"{use_name(e[1])} between the mappings of a chain (step #{k_})", cur is res)
                        continue
                    kind, inv, form = entry(e)
                    ctx.count(f"samp:map:{kind}:{'inverted' if inv else 'plain'}")
                    nxt = one_mapping(cur, kind, inv, f"mapping #{k_} ({kind}, invert={inv}, call form {form})", form)
                    if nxt[0] == "err":
                        outcome = nxt
                        break
                    cur = nxt[1]
                if maps_of(q[1]):
                    impl_answers.append((outcome[0], cur) if outcome[0] == "ok" else outcome)
                    mq.append(["map", maps_of(q[1])])
        if snap_samp(res) != snap0:
            probs.append("oracle: the constructed SamplingResult changed while it was queried and mapped")
        if case.get("handout"):
            probs += handout_samp(ctx, case)
    model = ctx.model.call({"op": "res", "kind": "samp", "results": [[s, val_str(v)] for s, v in case["results"]],
                            "input": case["input"], "q": mq})
    mnew = mclass(model["new"], "new")
    if (built[0], built[1] if built[0] == "err" else None) != (mnew[0], mnew[1] if mnew[0] == "err" else None):
        probs.append(f"corr: SamplingResult construction impl={built[0]} model={mnew}")
        return probs
    if res is None:
        return probs

    def cmp(r, m, where):
        if r.input.s != m["input"] or [o.s for o in r.outputs] != m["outputs"] or \
                [(k.s, complex(v)) for k, v in dict.items(r)] != [(k, parse_v(v)) for k, v in m["dict"]]:
            probs.append(f"corr: {where}: SamplingResult differs from the model")

    cmp(res, mnew[1], "constructed")
    for q, got, ma in zip(mq, impl_answers, model["q"]):
        m = mclass(ma, q[0])
        if got[0] != m[0] or (got[0] == "err" and got[1] != m[1]):
            probs.append(f"corr: {q}: impl={got[0], got[1] if got[0] == 'err' else ''} model={m[0], m[1] if m[0] == 'err' else ''}")
        elif got[0] == "ok" and q[0] == "get":
            if complex(got[1]) != parse_v(m[1]):
                probs.append(f"corr: {q}: impl={got[1]} model={m[1]}")
        elif got[0] == "ok":
            cmp(got[1], m[1], f"result of {q[1]}")
    return probs


RUNNERS = {"sim": run_sim, "samp": run_samp}
GENS = {"sim": gen_sim_case, "samp": gen_samp_case}


def run_case(ctx: Ctx, case: dict) -> list[str]:
    return RUNNERS[case["kind"]](ctx, case)


def nontrivial(case: dict) -> bool:
    if case["kind"] == "sim":
        return case["shape"][0] >= 1 and case["shape"][1] >= 2 and any(q[0] in ("map", "fan") for q in case["q"]) or \
            (case["shape"][0] >= 2 and case["shape"][1] >= 2)
    return len(case["results"]) >= 2


def shrink(ctx: Ctx, case: dict) -> dict:
    def fails(c):
        try:
            return bool(run_case(ctx, c))
        except Exception:  # noqa: BLE001
            return False

    cur = dict(case)
    if len(cur["q"]) > 1:
        cur = {**cur, "q": ddmin(cur["q"], lambda sub: fails({**cur, "q": sub}))}
    for i, q in enumerate(cur["q"]):
        if q[0] in ("map", "fan") and len(q[1]) > 1:
            ch = ddmin(q[1], lambda sub: fails({**cur, "q": cur["q"][:i] + [[q[0], sub]] + cur["q"][i + 1:]}))
            cur = {**cur, "q": cur["q"][:i] + [[q[0], ch]] + cur["q"][i + 1:]}
    if cur["kind"] == "sim" and cur["shape"] == [len(cur["inputs"]), len(cur["outputs"])]:
        # drop columns, then rows
        cols = list(range(len(cur["outputs"])))
        if len(cols) > 1:
            def with_cols(cs):
                return {**cur, "outputs": [cur["outputs"][j] for j in cs], "shape": [cur["shape"][0], len(cs)],
                        "array": [[row[j] for j in cs] for row in cur["array"]]}
            cs = ddmin(cols, lambda sub: fails(with_cols(sub)))
            cur = with_cols(cs)
        rows = list(range(len(cur["inputs"])))
        if len(rows) > 1:
            def with_rows(rs):
                return {**cur, "inputs": [cur["inputs"][i] for i in rs], "shape": [len(rs), cur["shape"][1]],
                        "array": [cur["array"][i] for i in rs]}
            rs = ddmin(rows, lambda sub: fails(with_rows(sub)))
            cur = with_rows(rs)
    if cur["kind"] == "samp" and len(cur["results"]) > 1:
        cur = {**cur, "results": ddmin(cur["results"], lambda sub: fails({**cur, "results": sub}))}
    if "handout" in cur:
        without = {k: v for k, v in cur.items() if k != "handout"}
        if fails(without):
            cur = without
        elif cur["q"] and fails({**cur, "q": []}):
            cur = {**cur, "q": []}
    for key in ("ctor", "rtform"):  # the form of the type string / of the constructor call only where the failure needs it
        if key in cur:
            without = {k: v for k, v in cur.items() if k != key}
            if fails(without):
                cur = without
    return cur if fails(cur) else case


def selftest(ctx: Ctx) -> dict:
    case = {"kind": "sim", "rtype": "probability", "shape": [1, 3],
            "array": [[["1/2", "0"], ["1/4", "0"], ["1/4", "0"]]], "inputs": [[1, 0]],
            "outputs": [[2, 0], [1, 1], [3, 0]], "q": [["map", [["threshold", False]]], ["get", {"tup": [{"st": [1, 0]}, {"st": [1, 1]}]}]]}
    base = run_case(ctx, case)
    if base:
        # the implementation already disagrees on the self-test case: the injected difference cannot be told apart
        # from it, so the self-test says nothing; the disagreement itself is reported like that of any other case
        ctx.count("selftest:skipped-implementation-already-differs")
        oracle = [p for p in base if p.startswith("oracle")]
        if oracle:
            ctx.violation(oracle[0], {"case": case, "problems": base}, sig={"kind": "selftest-case"})
        else:
            ctx.disagreement(base[0], {"case": case, "problems": base})
        return case
    # the comparison must see an injected difference (a model that forgets to add coinciding weights)
    real = ctx._model

    class Fake:
        calls = 0

        def call(self, req):
            r = real.call(req)
            r["q"][0]["ok"]["array"][0][0] = "1/8,0"
            return r

    ctx._model = Fake()  # type: ignore[assignment]
    try:
        seen = run_case(ctx, case)
    finally:
        ctx._model = real
    if not any(p.startswith("corr") and p not in base for p in seen):
        raise MachineryFault("harness self-test: an injected model difference was not reported")
    ctx.branches = {}
    return case


def complex_probability_note(ctx: Ctx) -> None:
    """observation only: values with an imaginary part under the label 'probability'"""
    r = SimulationResult(np.array([[0.5 + 1j, 0.25]]), "probability", inputs=[State([1, 0])], outputs=[State([2, 0]), State([1, 0])])
    with warnings.catch_warnings(record=True) as w:
        warnings.simplefilter("always")
        got = ires(r.apply_threshold_mapping)
    if got[0] != "ok":
        return  # a refusal is a violation of the property; the generated cases of this kind report it with a replay
    m = got[1]
    rb = SimulationResult(np.array([[True, True]]), "probability", inputs=[State([1, 0])], outputs=[State([2, 0]), State([1, 0])])
    gb = ires(rb.apply_threshold_mapping)
    if gb[0] == "ok" and abs(complex(np.asarray(gb[1].array)[0, 0]) - 2) > TOL:
        ctx.notes.append("observation (not counted): a result built from a bool array adds coinciding weights with numpy's boolean "
                         "`+` (True + True = True), so the mapped weight is 1, not 2; weights are numbers in this property")
    if abs(complex(np.asarray(m.array)[0, 0]) - (0.75 + 1j)) > TOL:
        ctx.notes.append("observation (not counted): a result labelled 'probability' that holds complex values loses the imaginary "
                         f"parts under a mapping (numpy {[x.category.__name__ for x in w]}); the mapped array is real")


def run(ctx: Ctx) -> None:
    ctx.rule = ("generated SimulationResults (0-4 inputs x 0-7 outputs, duplicate states, shape mismatches, invalid types, real "
                "or complex dyadic values handed over as ndarrays of every numeric dtype / bool / object or as nested lists, "
                "independently of the result type) and SamplingResults (0-8 outputs, counts as Python / numpy ints, floats, "
                "Fractions, bools) with 2-6 queries each: subscripts of every form, chains of 1-3 threshold/parity mappings (each "
                "applied to the previous mapped result) and fans of 2-8 mappings applied to the same object, plain or inverted, "
                "`invert` given by keyword / positionally / by default as bool, int, float or numpy bool / int; the result-type "
                "string given as the literal or as an equal object made at run time in 13 ways (joined, sliced, decoded, from JSON, "
                "from another result, str subclass, ...), constructor called positionally or by keyword; every public method that is not "
                "a mapping (display_as_dataframe with default and user thresholds and both conv_to_probability settings, "
                "print_outputs, plot, str / repr, iteration, accessors, dictionary access) as an intermediate step, after which "
                "every live object must be bit-identical (values around the display thresholds: 2^-40..2^-60 of either sign, "
                "zeros, < 0.05); returned objects are written to in place; a directed corpus (every storage form x both result "
                "types x all four mappings; every call form; every display call on threshold-sized values; every hand-out) runs "
                "first; non-trivial = a result with >=2 outputs that is mapped, or >=2x2; distinct = distinct case")
    first = selftest(ctx)
    _rtype_selfcheck()
    SIZE["big"] = ctx.thorough
    complex_probability_note(ctx)
    rng = ctx.rng
    plan = [("sim", ctx.n(3000, 45000)), ("samp", ctx.n(2000, 25000))]
    shown = {}
    directed = corpus()
    for kind, cnt in [("corpus", len(directed))] + plan:
        for k in range(cnt):
            if ctx.out_of_time():
                break
            if kind == "corpus":
                case = directed[k]
                ctx.count("corpus")
            else:
                case = first if (kind, k) == ("sim", 0) else GENS[kind](ctx, rng)
            kind_ = case["kind"]
            ctx.count("kind:" + kind_)
            probs = run_case(ctx, case)
            shown[kind] = shown.get(kind, 0) + 1
            ctx.case(json.dumps(case, sort_keys=True), nontrivial(case), sample=case if shown[kind] == 3 and kind != "corpus" else None)
            if probs:
                ctx.count("cases_with_problems")
                small = shrink(ctx, case)
                report(ctx, small, run_case(ctx, small) or probs)
    seen = ctx.extra.get("handout_aliasing_observed")
    if seen:
        ctx.notes.append("observation (not counted; the property does not promise otherwise, see ASSUMPTIONS): the accessors hand out "
                         "the internal objects and the constructor keeps the caller's lists, so a client that writes into them "
                         "desynchronises the result - " + "; ".join(f"{k} {v}" for k, v in seen.items()))


def clause_of(problem: str) -> str:
    """the violated clause without the concrete values (one replay per clause)"""
    import re

    t = re.sub(r"mapping #\d+ \([^)]*\)( on the same object)?:", "", problem)
    t = re.sub(r"stored as \w+", "", t)
    return " ".join(re.sub(r"[^A-Za-z]+", " ", t).split()[1:8])


def report(ctx: Ctx, case: dict, probs: list[str]) -> None:
    oracle = sorted([p for p in probs if p.startswith("oracle")], key=lambda p: p.startswith("oracle: handout-aliasing"))
    rep = {"case": case, "problems": probs}
    if oracle:
        sig = {"kind": case["kind"], "defect": "handout-aliasing" if oracle[0].startswith("oracle: handout-aliasing") else clause_of(oracle[0])}
        key = json.dumps(sig, sort_keys=True)
        seen = ctx.extra.setdefault("violations_by_signature", {})
        seen[key] = seen.get(key, 0) + 1
        if seen[key] == 1:
            ctx.violation(oracle[0], rep, sig=sig)
    else:
        ctx.disagreement(probs[0], rep)


def replay(ctx: Ctx, path: str) -> None:
    data = json.load(open(path))["replay"]
    case = data["case"]
    probs = run_case(ctx, case)
    ctx.case("replay", True, sample=case)
    for p in probs:
        print("replay:", p)
    if probs:
        report(ctx, case, probs)
