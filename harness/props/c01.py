"""
C01 — a circuit compiles to the ordered product of its components.

Model: LW.Model.Circuit (compile, mirrors CompiledCircuit.add) and LW.Model.CircuitSpec
(orderedProd, the property's right-hand side).  Theorems: LW/Properties/C01.lean.

Per generated construction program (one circuit, primitives + unitary blocks, ~15 % invalid
calls) the implementation is compared with the model on: per-call outcome (ok / exception class),
n_modes, U_full (vs `compile`) and U (vs `orderedProd`, the specification); and the property's
own clauses are evaluated on the implementation: U_full unitary, exactly one extra mode per loss
element, U is the leading block of U_full, a rejected call leaves the observables unchanged.
"""

from __future__ import annotations

import numpy as np

import circgen as cg
from core import Ctx, ddmin, mat_close, parse_mat

TRUSTED = [
    "Lean 4.33 kernel; Mathlib v4.33 as compiled on this image",
    "axioms: subset of {propext, Classical.choice, Quot.sound} (audited per theorem on every run)",
    "hand-written model LW.Model.Circuit / CircuitSpec tied to the code by this correspondence check",
    "float evaluation of sqrt/arccos/cos/sin/exp: real-analytic value up to rounding (1e-9 tolerance)",
    "driver JSON parser and harness comparison code",
]
ASSUMPTIONS = [
    "model scalars are exact Gaussian rationals (Pythagorean c,s; rational points on the unit circle); "
    "the code sees the corresponding floats",
    "programs: <= 8 modes, <= 40 calls per circuit in the correspondence check (theorems are unbounded)",
]


def gen_program(ctx: Ctx, rng) -> list:
    n = rng.randint(1, ctx.n(6, 8))
    k = rng.randint(0, ctx.n(14, 40))
    prog = [["new", "c", n]]
    nblk = 0
    for _ in range(k):
        if rng.random() < 0.12:
            # unitary block through add(Unitary(u), mode)
            sz = rng.randint(1, n)
            mode = rng.randint(0, n - sz)
            if rng.random() < 0.15:
                mode = n - sz + rng.randint(1, 2)  # oversize -> rejected
            nblk += 1
            uid = f"u{nblk}"
            prog.append(["unitary", uid, cg.mat_json(cg.exact_unitary(rng, sz))])
            prog.append(["add", "c", uid, mode, rng.random() < 0.3])
        else:
            prog.append(cg.rand_prim_op(rng, "c", n, p_invalid=0.15))
    return prog


def run_case(ctx: Ctx, prog: list) -> list[str]:
    """returns a list of problem descriptions (empty = all clauses hold on this program)"""
    probs = []
    pool: dict = {}
    impl_res = []
    for op in prog:
        before = cg.observe(pool["c"]) if "c" in pool else None
        r = cg.apply_op(pool, op)
        impl_res.append(r)
        if r != "ok" and before is not None and "U_full" in before:
            after = cg.observe(pool["c"])
            if after["n"] != before["n"] or "U_full" not in after or not mat_close(after["U_full"], before["U_full"]):
                probs.append(f"oracle: rejected call {op[0]} ({r}) changed the circuit")
    mres = ctx.model.call({"op": "circ", "prog": prog, "observe": ["c"]})
    if impl_res != mres["results"]:
        idx = next(i for i, (a, b) in enumerate(zip(impl_res, mres["results"])) if a != b)
        probs.append(f"corr: call #{idx} {prog[idx][:4]} impl={impl_res[idx]} model={mres['results'][idx]}")
        return probs
    obs = cg.observe(pool["c"])
    m = mres["final"]["c"]
    if "U_full" not in obs:
        probs.append(f"oracle: valid program does not compile ({obs.get('U_error')})")
        return probs
    uf = obs["U_full"]
    n_loss = m["loss_modes"]
    # property clauses on the implementation itself
    if obs["n"] != m["n"]:
        probs.append(f"corr: n_modes impl={obs['n']} model={m['n']}")
    if uf.shape != (obs["n"] + n_loss, obs["n"] + n_loss):
        probs.append(f"oracle: U_full has shape {uf.shape}, expected one extra mode per loss element ({n_loss})")
        return probs
    if not mat_close(uf.conj().T @ uf, np.eye(uf.shape[0])) or not mat_close(uf @ uf.conj().T, np.eye(uf.shape[0])):
        probs.append("oracle: U_full is not unitary")
    if not mat_close(obs["U"], uf[: obs["n"], : obs["n"]], 1e-12):
        probs.append("oracle: U is not the leading block of U_full")
    if not mat_close(obs["U"], parse_mat(m["U_spec"])):
        probs.append("oracle: U differs from the ordered product of the documented component matrices")
    if not mat_close(uf, parse_mat(m["U_full"])):
        probs.append("corr: U_full differs from the model's compile")
    return probs


def classify(prog) -> tuple:
    kinds = tuple(sorted({op[0] + ("+loss" if op[0] in ("bs", "ps") and op[7 if op[0] == "bs" else 4] else "") for op in prog}))
    return kinds


def run(ctx: Ctx) -> None:
    ctx.rule = ("random construction programs on one circuit (1-8 modes, 0-40 calls, all component kinds, both "
                "conventions, unitary blocks via add(Unitary), ~15% invalid calls); non-trivial = at least 3 "
                "accepted matrix-changing calls; distinct = distinct op list")
    N = ctx.n(250, 3500)
    rng = ctx.rng
    for i in range(N):
        if ctx.out_of_time():
            break
        prog = gen_program(ctx, rng)
        probs = run_case(ctx, prog)
        ops = [op[0] for op in prog]
        for k in set(ops):
            ctx.count("op:" + k, ops.count(k))
        nontriv = sum(1 for op in prog if op[0] in ("bs", "ps", "loss", "swaps", "add")) >= 3
        ctx.case(repr(prog), nontriv, sample=prog if i < 2 else None)
        if probs:
            ctx.count("programs_with_problems")

            def still(sub):
                p = [prog[0], *sub]
                return cg.well_formed(p) and bool(run_case(ctx, p))

            small = [prog[0], *ddmin(prog[1:], still)]
            sprobs = run_case(ctx, small) or probs
            oracle = [p for p in sprobs if p.startswith("oracle")]
            if oracle:
                ctx.violation(oracle[0], {"program": small, "problems": sprobs},
                              sig={"kind": oracle[0].split(":")[1].strip()[:60], "ops": sorted({o[0] for o in small})})
            else:
                ctx.disagreement(sprobs[0], {"program": small, "problems": sprobs})


def replay(ctx: Ctx, path: str) -> None:
    import json

    data = json.load(open(path))
    probs = run_case(ctx, data["replay"]["program"])
    ctx.case("replay", True, sample=data["replay"]["program"])
    for p in probs:
        print("replay:", p)
        if p.startswith("oracle"):
            ctx.violation(p, data["replay"], sig={"kind": "replay"})
        else:
            ctx.disagreement(p, data["replay"])
